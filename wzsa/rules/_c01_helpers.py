"""C01 helpers: finite regex languages with a symbolic boundary, affine folding of
length expressions, and a small typestate interpreter over the CFGs of a class.

Nothing here executes werkzeug.  The ``re`` engine is only run on a pattern folded
from the source against strings enumerated from that same pattern's syntax tree.
"""

from __future__ import annotations

import ast
import re
import typing as t

from ..cfg import CFG, Node, cfg_of
from ..dataflow import ReachingDefs
from ..fold import Folder, RegexConst, Unfoldable, class_of_items, sre_c, sre_parse
from ..guards import canon
from ..loader import AnalysisError, ClassInfo, FuncInfo, dotted, is_self_attr, norm, walk_no_nested

# ---------------------------------------------------------------------------
# symbolic boundary: patterns are folded for a few concrete placeholder lengths
# and every derived quantity must be affine in that length

SAMPLE_N = (3, 7, 12)
PLACEHOLDER = b"Q"  # one byte that is neither a dash, a line break nor a blank
BLANKS = frozenset(b" \t\f\v")  # horizontal blanks: whitespace other than CR / LF


class Lin(t.NamedTuple):
    """a*n + c  (n = length of the boundary, n >= 1)"""

    a: int
    c: int

    def __str__(self) -> str:
        if self.a == 0:
            return str(self.c)
        s = "n" if self.a == 1 else f"{self.a}n"
        return s if self.c == 0 else f"{s}{self.c:+d}"

    def ge(self, other: "Lin") -> bool:
        """self(n) >= other(n) for every n >= 1"""
        return self.a >= other.a and self.a + self.c >= other.a + other.c

    def minus(self, k: int) -> "Lin":
        return Lin(self.a, self.c - k)


def fit(values: t.Sequence[int], what: str) -> Lin:
    (n0, n1, n2), (v0, v1, v2) = SAMPLE_N, values
    if (v1 - v0) % (n1 - n0):
        raise Unfoldable(f"{what} is not affine in the boundary length: {values}")
    a = (v1 - v0) // (n1 - n0)
    c = v0 - a * n0
    if a * n2 + c != v2:
        raise Unfoldable(f"{what} is not affine in the boundary length: {values}")
    return Lin(a, c)


# ---------------------------------------------------------------------------
# finite language of a folded bytes pattern (unbounded blank runs taken as empty)


class Lang:
    def __init__(self, rx: RegexConst, cap: int = 4096):
        if not isinstance(rx.pattern, bytes):
            raise Unfoldable("delimiter pattern is not a bytes pattern")
        self.rx = rx
        self.cap = cap
        self.blank_runs = 0
        self.parsed = rx.parsed()
        items = list(self.parsed)
        # leading items that may match empty (an optional line break before the first delimiter)
        i = 0
        while i < len(items) and b"" in self._item(*items[i]):
            i += 1
        self.opt = self._seq(items[:i])
        self.rest = self._seq(items[i:])
        self.words = {o + r for o in self.opt for r in self.rest}
        if len(self.words) > cap:
            raise Unfoldable("delimiter language too large")
        self.compiled = re.compile(rx.pattern, rx.flags)

    def _cls(self, av) -> set[int]:
        return class_of_items(av, self.rx.flags, True, 256)

    def _item(self, op, av) -> set[bytes]:
        if op is sre_c.LITERAL:
            return {bytes([av])}
        if op is sre_c.IN:
            members = self._cls(av)
            if len(members) > 8:
                raise Unfoldable("wide character class in a delimiter pattern")
            return {bytes([m]) for m in members}
        if op is sre_c.BRANCH:
            out: set[bytes] = set()
            for b in av[1]:
                out |= self._seq(list(b))
            return out
        if op is sre_c.SUBPATTERN:
            return self._seq(list(av[3]))
        if op in (sre_c.MAX_REPEAT, sre_c.MIN_REPEAT):
            lo, hi, sub = av
            if hi is sre_c.MAXREPEAT:
                items = list(sub)
                if lo == 0 and len(items) == 1 and items[0][0] is sre_c.IN and self._cls(items[0][1]) <= BLANKS | {0x1C, 0x1D, 0x1E, 0x1F, 0x85, 0xA0}:
                    # [^\S\n\r]* : optional run of horizontal blanks, outside the property's domain -> empty
                    self.blank_runs += 1
                    return {b""}
                raise Unfoldable("unbounded repeat other than an optional blank run in a delimiter pattern")
            base = self._seq(list(sub))
            out = set()
            cur = {b""}
            for k in range(0, int(hi) + 1):
                if k >= lo:
                    out |= cur
                cur = {x + y for x in cur for y in base}
                if len(cur) > self.cap:
                    raise Unfoldable("delimiter language too large")
            return out
        raise Unfoldable(f"regex construct {op} in a delimiter pattern")

    def _seq(self, items) -> set[bytes]:
        cur = {b""}
        for op, av in items:
            nxt = self._item(op, av)
            cur = {x + y for x in cur for y in nxt}
            if len(cur) > self.cap:
                raise Unfoldable("delimiter language too large")
        return cur

    # -- derived quantities ------------------------------------------------
    def max_width(self) -> int:
        return max(len(w) for w in self.words)

    def leading_optional(self) -> int:
        """max width of the leading items that may match empty."""
        return max(len(o) for o in self.opt)

    def window_need(self, skip_optional: bool) -> tuple[int, bytes]:
        """how many trailing bytes a failed search must keep so that the next search, started
        inside the kept tail, still finds a match that began in the old buffer: the longest
        proper prefix of a word in which the pattern does not match yet.  With skip_optional the
        optional leading part of that word need not be kept (starting inside or after it finds
        the same remainder: same end, same groups; only the match start moves)."""
        best, arg = 0, b""
        for o in self.opt:
            for r in self.rest:
                w = o + r
                for i in range(1, len(w)):
                    val = i - (min(len(o), i) if skip_optional else 0)
                    if val <= best:
                        continue
                    if self.compiled.search(w[:i]) is not None:
                        continue
                    best, arg = val, w[:i]
        return best, arg

    def first_bytes(self) -> set[int]:
        return {w[0] for w in self.words if w}

    def pending(self, must_contain: bytes | None = None, must_not_contain: bytes | None = None) -> tuple[int, bytes]:
        """longest proper, non-empty prefix of a word in which the pattern does not
        match yet (what may sit at the end of the buffer when the search failed),
        restricted by a fact known about the buffer."""
        best, arg = 0, b""
        for w in self.words:
            for i in range(1, len(w)):
                p = w[:i]
                if len(p) <= best:
                    continue
                if must_contain is not None and must_contain not in p:
                    continue
                if must_not_contain is not None and must_not_contain in p:
                    continue
                if self.compiled.search(p) is not None:
                    continue
                best, arg = len(p), p
        return best, arg


# ---------------------------------------------------------------------------
# affine expressions over symbols


class Aff:
    """sum(coef[s] * s) + const; symbols: "D" (len of the buffer), "n" (len of the
    boundary), "name:<local>" and "op:<text>" (opaque sub-expressions)."""

    def __init__(self, coef: dict[str, int] | None = None, const: int = 0):
        self.coef = {k: v for k, v in (coef or {}).items() if v}
        self.const = const

    def __add__(self, o: "Aff") -> "Aff":
        c = dict(self.coef)
        for k, v in o.coef.items():
            c[k] = c.get(k, 0) + v
        return Aff(c, self.const + o.const)

    def scale(self, k: int) -> "Aff":
        return Aff({s: v * k for s, v in self.coef.items()}, self.const * k)

    def __sub__(self, o: "Aff") -> "Aff":
        return self + o.scale(-1)

    def only(self, syms: t.Iterable[str]) -> bool:
        return set(self.coef) <= set(syms)

    def subst(self, sym: str, other: "Aff") -> "Aff":
        k = self.coef.get(sym, 0)
        rest = {s: v for s, v in self.coef.items() if s != sym}
        return Aff(rest, self.const) + other.scale(k)

    def lin(self) -> Lin:
        if not self.only({"n"}):
            raise NotAffine(f"{self} has symbols beyond the boundary length")
        return Lin(self.coef.get("n", 0), self.const)

    def __str__(self) -> str:
        parts = [f"{v:+d}*{k}" for k, v in sorted(self.coef.items())]
        return " ".join(parts + [f"{self.const:+d}"])


class NotAffine(Exception):
    pass


class AffEval:
    """fold integer expressions of one function into :class:`Aff`."""

    def __init__(self, fi: FuncInfo, folder: Folder, buffers: set[str], nattr: str, stop: set[str] = frozenset(),
                 init: tuple[FuncInfo, str] | None = None, n_names: set[str] = frozenset()):
        self.init = init  # (__init__ of the decoder, its boundary parameter): attributes computed once there are read through
        self.n_names = set(n_names)  # parameters that hold the boundary
        self._init_ev: AffEval | None = None
        self.rewrite: t.Callable[[ast.AST], ast.AST | None] | None = None  # optional: reads a call through the helper it runs
        self.fi = fi
        self.folder = folder
        self.cfg = cfg_of(fi)
        self.rd = ReachingDefs(self.cfg, fi.params)
        self.buffers = buffers  # normalised texts that denote the receive buffer
        self.nattr = nattr  # self.<nattr> is the boundary
        self.stop = set(stop)  # locals kept symbolic
        self.opaque: dict[str, ast.AST] = {}
        self.opaque_at: dict[str, Node | None] = {}  # where the opaque sub-expression is evaluated (None: at more than one node)

    # -- names ---------------------------------------------------------
    def single_def(self, name: str, node: Node):
        """the one assignment of local ``name`` visible at node, if its value means
        the same at node as where it was assigned."""
        defs = self.rd.reaching(node, name)
        if len(defs) != 1:
            return None
        d = next(iter(defs))
        if d.kind != "assign" or d.value is None or d.index is not None or d.node is None:
            return None
        for x in ast.walk(d.value):
            if isinstance(x, ast.Name) and x.id in self.fi_locals():
                if self.rd.reaching(d.node, x.id) != self.rd.reaching(node, x.id) and not (x.id == name):
                    return None
        return d

    def fi_locals(self) -> set[str]:
        c = getattr(self, "_locals", None)
        if c is None:
            c = set(self.fi.params)
            for ds in self.rd.gen.values():
                c |= {d.name for d in ds}
            self._locals = c
        return c

    def module_const(self, name: str):
        m = self.fi.module
        if name in self.fi_locals():
            return None
        if name in m.assigns or (name in m.imports and m.imports[name].startswith("werkzeug")):
            try:
                return self.folder.name(m, name)
            except Unfoldable:
                return None
        return None

    # -- attributes computed once in __init__ ------------------------------------------------------
    def init_value(self, attr: str) -> tuple["AffEval", ast.AST, Node] | None:
        """``self.<attr>`` assigned exactly once in the class, in __init__ -> (evaluator of __init__, value, node)"""
        if self.init is None or self.fi.cls is None or attr == self.nattr:
            return None
        init, param = self.init
        stores = [(f, n) for f in self.fi.cls.methods.values() for n in walk_no_nested(f.node)
                  if is_self_attr(n, attr) and isinstance(n.ctx, (ast.Store, ast.Del))]  # type: ignore[attr-defined]
        if len(stores) != 1 or stores[0][0] is not init:
            return None
        st = getattr(stores[0][1], "_parent", None)
        if not (isinstance(st, ast.Assign) and len(st.targets) == 1) and not (isinstance(st, ast.AnnAssign) and st.value is not None):
            return None
        if self._init_ev is None:
            self._init_ev = self if self.fi is init else AffEval(init, self.folder, set(), self.nattr, n_names={param})
        node = self._init_ev.cfg.node_of(st)
        return (self._init_ev, st.value, node) if node is not None else None  # type: ignore[union-attr]

    def _is_boundary_param(self, e: ast.AST, node: Node) -> bool:
        if isinstance(e, ast.Name) and e.id in self.n_names:
            defs = self.rd.reaching(node, e.id)
            return bool(defs) and all(d.kind == "param" for d in defs)
        return False

    # -- bytes lengths -----------------------------------------------------
    def lenb(self, e: ast.AST, node: Node) -> Aff:
        if isinstance(e, ast.Constant) and isinstance(e.value, bytes):
            return Aff(const=len(e.value))
        if isinstance(e, ast.BinOp) and isinstance(e.op, ast.Add):
            return self.lenb(e.left, node) + self.lenb(e.right, node)
        if is_self_attr(e, self.nattr) or self._is_boundary_param(e, node):
            return Aff({"n": 1})
        if norm(e) in self.buffers:
            return Aff({"D": 1})
        if is_self_attr(e):
            iv = self.init_value(e.attr)  # type: ignore[attr-defined]
            if iv is not None:
                a = iv[0].lenb(iv[1], iv[2])
                if a.only({"n"}):
                    return a
        if isinstance(e, ast.Name):
            d = self.single_def(e.id, node)
            if d is not None:
                return self.lenb(d.value, d.node)
            v = self.module_const(e.id)
            if isinstance(v, bytes):
                return Aff(const=len(v))
        if isinstance(e, ast.Call) and dotted(e.func) in ("bytes", "bytearray", "memoryview") and len(e.args) == 1:
            return self.lenb(e.args[0], node)
        raise NotAffine(f"length of `{norm(e)}`")

    def bytes_val(self, e: ast.AST, node: Node, boundary: bytes) -> bytes:
        """constant value of a bytes expression for one placeholder boundary."""
        if isinstance(e, ast.Constant) and isinstance(e.value, bytes):
            return e.value
        if isinstance(e, ast.BinOp) and isinstance(e.op, ast.Add):
            return self.bytes_val(e.left, node, boundary) + self.bytes_val(e.right, node, boundary)
        if is_self_attr(e, self.nattr) or self._is_boundary_param(e, node):
            return boundary
        if is_self_attr(e):
            iv = self.init_value(e.attr)  # type: ignore[attr-defined]
            if iv is not None:
                return iv[0].bytes_val(iv[1], iv[2], boundary)
        if isinstance(e, ast.Name):
            d = self.single_def(e.id, node)
            if d is not None:
                return self.bytes_val(d.value, d.node, boundary)
            v = self.module_const(e.id)
            if isinstance(v, bytes):
                return v
        raise NotAffine(f"value of `{norm(e)}`")

    # -- integers ------------------------------------------------------------
    def aff(self, e: ast.AST, node: Node) -> Aff:
        if isinstance(e, ast.Constant) and isinstance(e.value, int) and not isinstance(e.value, bool):
            return Aff(const=e.value)
        if isinstance(e, ast.UnaryOp) and isinstance(e.op, ast.USub):
            return self.aff(e.operand, node).scale(-1)
        if isinstance(e, ast.BinOp):
            if isinstance(e.op, ast.Add):
                return self.aff(e.left, node) + self.aff(e.right, node)
            if isinstance(e.op, ast.Sub):
                return self.aff(e.left, node) - self.aff(e.right, node)
            if isinstance(e.op, ast.Mult):
                l, r = self.aff(e.left, node), self.aff(e.right, node)
                if not l.coef:
                    return r.scale(l.const)
                if not r.coef:
                    return l.scale(r.const)
            raise NotAffine(f"`{norm(e)}`")
        if isinstance(e, ast.Call) and isinstance(e.func, ast.Name) and e.func.id == "len" and len(e.args) == 1 and "len" not in self.fi_locals():
            return self.lenb(e.args[0], node)
        if isinstance(e, ast.Name):
            if e.id in self.stop:
                return Aff({f"name:{e.id}": 1})
            d = self.single_def(e.id, node)
            if d is not None:
                try:
                    return self.aff(d.value, d.node)
                except NotAffine:
                    pass
            v = self.module_const(e.id)
            if isinstance(v, int) and not isinstance(v, bool):
                return Aff(const=v)
            if e.id in self.fi_locals():
                return Aff({f"name:{e.id}": 1})
            raise NotAffine(f"name `{e.id}`")
        if is_self_attr(e):
            iv = self.init_value(e.attr)  # type: ignore[attr-defined]
            if iv is not None:
                try:
                    a = iv[0].aff(iv[1], iv[2])
                    if a.only({"n"}):
                        return a
                except NotAffine:
                    pass
        if isinstance(e, ast.Call) and self.rewrite is not None:
            e2 = self.rewrite(e)
            if e2 is not None and norm(e2) != norm(e):
                return self.aff(e2, node)
        if isinstance(e, (ast.Call, ast.Attribute, ast.Subscript)):
            key = "op:" + norm(e)
            self.opaque[key] = e
            self.opaque_at[key] = node if self.opaque_at.get(key, node) is node else None
            return Aff({key: 1})
        raise NotAffine(f"`{norm(e)}`")


def bind_args(fi: FuncInfo, call: ast.Call) -> dict[str, ast.AST] | None:
    """parameter name -> argument expression for a ``self.<method>(...)`` call (None when not a plain binding)."""
    a = fi.node.args  # type: ignore[attr-defined]
    pos = [x.arg for x in a.posonlyargs + a.args]
    decs = {(dotted(d.func if isinstance(d, ast.Call) else d) or "").rsplit(".", 1)[-1] for d in fi.node.decorator_list}  # type: ignore[attr-defined]
    if pos and "staticmethod" not in decs and (pos[0] == "self" or (pos[0] == "cls" and "classmethod" in decs)):
        pos = pos[1:]
    if any(isinstance(x, ast.Starred) for x in call.args) or any(k.arg is None for k in call.keywords) or len(call.args) > len(pos):
        return None
    out: dict[str, ast.AST] = dict(zip(pos, call.args))
    names = set(pos) | {x.arg for x in a.kwonlyargs}
    for k in call.keywords:
        if k.arg not in names or k.arg in out:
            return None
        out[k.arg] = k.value  # type: ignore[index]
    defaults = dict(zip(reversed(pos), reversed(a.defaults)))
    for x, d in zip(a.kwonlyargs, a.kw_defaults):
        if d is not None:
            defaults[x.arg] = d
    for name, d in defaults.items():
        out.setdefault(name, d)
    return out


def strip_max0(e: ast.AST) -> ast.AST:
    """``max(0, x)`` / ``max(x, 0)`` -> x  (a negative search position is clamped to 0 by ``re`` as well)."""
    def zero(x: ast.AST) -> bool:
        return isinstance(x, ast.Constant) and x.value == 0 and not isinstance(x.value, bool)

    if isinstance(e, ast.Call) and isinstance(e.func, ast.Name) and e.func.id == "max" and len(e.args) == 2 and not e.keywords:
        a, b = e.args
        if zero(a):
            return b
        if zero(b):
            return a
    # the same clamp written as a conditional expression: `x if x > 0 else 0`, `0 if x < 0 else x`, `x if 0 <= x else 0`, ...
    if isinstance(e, ast.IfExp) and isinstance(e.test, ast.Compare) and len(e.test.ops) == 1:
        l, op, r = e.test.left, type(e.test.ops[0]), e.test.comparators[0]
        if zero(l):
            l, r, op = r, l, {ast.Gt: ast.Lt, ast.Lt: ast.Gt, ast.GtE: ast.LtE, ast.LtE: ast.GtE}.get(op, op)
        if zero(r) and op in (ast.Gt, ast.GtE, ast.Lt, ast.LtE):
            pos_arm, neg_arm = (e.body, e.orelse) if op in (ast.Gt, ast.GtE) else (e.orelse, e.body)
            if zero(neg_arm) and norm(pos_arm) == norm(l):
                return pos_arm
    return e


# ---------------------------------------------------------------------------
# typestate interpreter: (protocol state, validity of the search offset)

ZERO = ("Z",)


class Roles(t.NamedTuple):
    cls: ClassInfo
    entry: FuncInfo
    funcs: list[FuncInfo]  # entry + self-call closure
    buffer: str
    offset: str
    state: str
    enum: str  # name of the Enum class of protocol states
    members: list[str]


class SearchSite(t.NamedTuple):
    fi: FuncInfo
    call: ast.Call
    regex: ast.AST


def self_call_closure(repo, cls: ClassInfo, entry: FuncInfo) -> list[FuncInfo]:
    out = [entry]
    seen = {entry.name}
    i = 0
    while i < len(out):
        for c in walk_no_nested(out[i].node):
            if isinstance(c, ast.Call) and isinstance(c.func, ast.Attribute) and isinstance(c.func.value, ast.Name) and c.func.value.id == "self":
                _, what = repo.lookup(cls, c.func.attr)
                if isinstance(what, FuncInfo) and what.name not in seen:
                    seen.add(what.name)
                    out.append(what)
        i += 1
    return out


def attr_copies(fi: FuncInfo) -> dict[str, tuple[str, ast.stmt]]:
    """locals of the function that are bound exactly once, to ``self.<attr>``: name -> (attr, the assignment)"""
    cached = getattr(fi, "_c01_attr_copies", None)
    if cached is not None:
        return cached
    stores: dict[str, int] = {}
    cands: dict[str, tuple[str, ast.stmt]] = {}
    for n in walk_no_nested(fi.node):
        if isinstance(n, ast.Name) and isinstance(n.ctx, (ast.Store, ast.Del)):
            stores[n.id] = stores.get(n.id, 0) + 1
        if isinstance(n, (ast.Assign, ast.AnnAssign)) and n.value is not None:
            tgs = n.targets if isinstance(n, ast.Assign) else [n.target]
            v = _uncast(n.value)
            if len(tgs) == 1 and isinstance(tgs[0], ast.Name) and is_self_attr(v):
                cands[tgs[0].id] = (v.attr, n)  # type: ignore[union-attr]
    out = {k: v for k, v in cands.items() if stores.get(k) == 1 and k not in fi.params}
    fi._c01_attr_copies = out  # type: ignore[attr-defined]
    return out


def attr_of(e: ast.AST, fi: FuncInfo) -> str | None:
    """``self.<attr>`` or a local copy of it -> attr"""
    if is_self_attr(e):
        return e.attr  # type: ignore[attr-defined]
    if isinstance(e, ast.Name) and isinstance(e.ctx, ast.Load):
        c = attr_copies(fi).get(e.id)
        return c[0] if c is not None else None
    return None


def windowed_searches(fi: FuncInfo) -> list[tuple[ast.Call, str, str]]:
    """``RX.search(self.B, self.P)`` -> (call, B, P); B and P may be read through local copies (`buffer = self.B`)"""
    out = []
    for c in walk_no_nested(fi.node):
        if isinstance(c, ast.Call) and isinstance(c.func, ast.Attribute) and c.func.attr == "search" and not c.keywords and len(c.args) >= 2:
            b, p = attr_of(c.args[0], fi), attr_of(c.args[1], fi)
            if b is not None and p is not None:
                out.append((c, b, p))
    return out


def enum_members(e: ast.AST, enum: str, members: t.Sequence[str]) -> list[str] | None:
    """``Enum.A`` -> [A];  ``(Enum.A, Enum.B)`` / ``{...}`` / ``[...]`` -> [A, B];  anything else -> None"""
    def one(x: ast.AST) -> str | None:
        if isinstance(x, ast.Attribute) and isinstance(x.value, ast.Name) and x.value.id == enum and x.attr in members:
            return x.attr
        return None

    m = one(e)
    if m is not None:
        return [m]
    if isinstance(e, ast.Call) and isinstance(e.func, ast.Name) and e.func.id in ("frozenset", "set", "tuple", "list") and len(e.args) == 1 and not e.keywords:
        e = e.args[0]
    if isinstance(e, (ast.Tuple, ast.List, ast.Set)) and e.elts:
        ms = [one(x) for x in e.elts]
        return ms if all(ms) else None  # type: ignore[return-value]
    if isinstance(e, ast.Dict) and e.keys and all(k is not None for k in e.keys):  # `state in TABLE` tests the keys of a table indexed by the state
        ms = [one(x) for x in e.keys]  # type: ignore[arg-type]
        return ms if all(ms) else None  # type: ignore[return-value]
    return None


def state_copy_def(rd: ReachingDefs, e: ast.AST, node: Node, state_attr: str):
    """a local that holds a copy of ``self.<state>``: its single binding (else None)"""
    if not isinstance(e, ast.Name):
        return None
    defs = rd.reaching(node, e.id)
    if len(defs) != 1:
        return None
    d = next(iter(defs))
    v = d.value
    while isinstance(v, ast.Call) and (dotted(v.func) or "").endswith("cast") and len(v.args) == 2:
        v = v.args[1]
    if d.kind in ("assign", "walrus") and d.index is None and d.node is not None and v is not None and is_self_attr(v, state_attr):
        return d
    return None


def state_test_parts(fi: FuncInfo, rd: ReachingDefs, test: ast.AST, node: Node, roles: "Roles") -> tuple[bool, set[str], Node | None] | None:
    """a condition atom that compares the protocol state with members of its Enum -> (negated, members, snapshot):
    the atom is true iff (state in members) != negated.  The state may be written ``self.<state>`` or be a local copy of it
    (snapshot = the node that took the copy; the caller decides whether the copy is still current); either side of
    ``==`` / ``is`` / ``!=`` / ``is not``; ``in`` / ``not in`` a literal collection of members."""
    if not (isinstance(test, ast.Compare) and len(test.ops) == 1):
        return None
    op, lhs, rhs = test.ops[0], test.left, test.comparators[0]

    def state_side(x: ast.AST) -> tuple[bool, Node | None]:
        if isinstance(x, ast.NamedExpr):
            x = x.value
        if is_self_attr(x, roles.state):
            return True, None
        d = state_copy_def(rd, x, node, roles.state)
        return (True, d.node) if d is not None else (False, None)

    if isinstance(op, (ast.Eq, ast.Is, ast.NotEq, ast.IsNot)):
        for a, b in ((lhs, rhs), (rhs, lhs)):
            ms = enum_members(b, roles.enum, roles.members)
            ok, snap = state_side(a)
            if ok and ms is not None and len(ms) == 1 and not isinstance(b, (ast.Tuple, ast.List, ast.Set)):
                return isinstance(op, (ast.NotEq, ast.IsNot)), set(ms), snap
    elif isinstance(op, (ast.In, ast.NotIn)):
        if isinstance(rhs, ast.Name) and not rd.reaching(node, rhs.id) and rhs.id not in fi.params:
            vs = fi.module.assigns.get(rhs.id)  # `_DATA_STATES = (State.DATA_START, State.DATA)` at module level
            if vs and len(vs) == 1:
                rhs = vs[0]
        elif isinstance(rhs, ast.Attribute) and isinstance(rhs.value, ast.Name) and rhs.value.id in ("self", "cls", roles.cls.name) and rhs.attr in roles.cls.attrs \
                and not any(is_self_attr(x, rhs.attr) and isinstance(x.ctx, ast.Store) for f in roles.cls.methods.values() for x in walk_no_nested(f.node)):  # type: ignore[attr-defined]
            rhs = roles.cls.attrs[rhs.attr]  # the same as a class-level constant
        ms = enum_members(rhs, roles.enum, roles.members)
        ok, snap = state_side(lhs)
        if ok and ms is not None and (isinstance(rhs, (ast.Tuple, ast.List, ast.Set, ast.Call, ast.Dict))):
            return isinstance(op, ast.NotIn), set(ms), snap
    return None


KEEP_STATE = "(unchanged)"


class Typestate:
    """abstract run of the decoder's methods.

    fact = (state member | None, offset) with offset one of
      ("Z",)                      the constant 0
      ("W", key, state, regex)    window left by the failed search `regex` in `state`, still valid
      ("S", key)                  stale: computed against a buffer / pattern that statement `key` replaced
    """

    def __init__(self, repo, roles: Roles, window_of: t.Callable[..., str | None]):
        self.repo = repo
        self.r = roles
        # (fi, value expr, node, key, call stack) -> regex text of the search the window belongs to, or None.
        # The call stack [(caller, call, node of the call), ...] (outermost first) lets the callback read a window that a
        # private helper computes from its arguments in the context of each call site.
        self.window_of = window_of
        self._stack: list[tuple[FuncInfo, ast.Call, Node]] = []
        self.sites: dict[int, SearchSite] = {}
        self.site_arrivals: dict[int, set] = {}
        self.stmts: dict[str, tuple[FuncInfo, ast.AST, str]] = {}  # key -> (fi, stmt, kind)
        self.stmt_arrivals: dict[str, set] = {}
        self._memo: dict[tuple, frozenset] = {}
        self._busy: set[str] = set()
        self._relevant: dict[str, bool] = {}
        self._rds: dict[str, ReachingDefs] = {}
        self._writes: dict[tuple[str, str], bool] = {}
        self.buffer_rebound = any(
            is_self_attr(n, roles.buffer) and isinstance(n.ctx, ast.Store) and not isinstance(getattr(n, "_parent", None), ast.AugAssign)  # type: ignore[attr-defined]
            for name, f in roles.cls.methods.items() if name != "__init__" for n in walk_no_nested(f.node))

    # -- which methods matter ---------------------------------------------
    def relevant(self, fi: FuncInfo) -> bool:
        if fi.name in self._relevant:
            return self._relevant[fi.name]
        self._relevant[fi.name] = False  # recursion guard
        r = False
        for n in walk_no_nested(fi.node):
            if isinstance(n, ast.Attribute) and isinstance(n.value, ast.Name) and n.value.id == "self":
                if n.attr in (self.r.state, self.r.offset) and isinstance(n.ctx, (ast.Store, ast.Del)):
                    r = True
                if n.attr == self.r.buffer:
                    r = r or self._buffer_effect_node(n) is not None
            if isinstance(n, ast.Name) and self.is_buf(n, fi):
                r = r or self._buffer_effect_node(n) is not None
            if isinstance(n, ast.Call) and isinstance(n.func, ast.Attribute) and isinstance(n.func.value, ast.Name) and n.func.value.id == "self":
                _, what = self.repo.lookup(self.r.cls, n.func.attr)
                if isinstance(what, FuncInfo) and what.name != fi.name and self.relevant(what):
                    r = True
            if isinstance(n, ast.Call) and isinstance(n.func, ast.Attribute) and n.func.attr == "search":
                r = True
        self._relevant[fi.name] = r
        return r

    def _buffer_effect_node(self, attr_node: ast.AST) -> str | None:
        """effect of the construct around a ``self.<buffer>`` mention: 'shift' or None."""
        p = getattr(attr_node, "_parent", None)
        if isinstance(attr_node, ast.Name) and not isinstance(attr_node.ctx, ast.Load):
            return None  # binding of a local copy of the reference
        if isinstance(attr_node, ast.Attribute) and isinstance(attr_node.ctx, ast.Store):
            gp = p
            if isinstance(gp, ast.AugAssign):
                return None if isinstance(gp.op, ast.Add) else "shift"
            return "shift"  # rebinding
        if isinstance(p, ast.Subscript) and p.value is attr_node and isinstance(p.ctx, (ast.Store, ast.Del)):
            return "shift"
        if isinstance(p, ast.Attribute) and p.value is attr_node and isinstance(getattr(p, "_parent", None), ast.Call) and p._parent.func is p:  # type: ignore[attr-defined]
            if p.attr in ("clear", "pop", "remove", "insert", "reverse", "__delitem__", "__setitem__", "__init__"):
                return "shift"
        return None

    # -- keys -----------------------------------------------------------------
    def key(self, fi: FuncInfo, stmt: ast.AST) -> str:
        return f"{fi.qualname}@{getattr(stmt, 'lineno', 0)}:{getattr(stmt, 'col_offset', 0)}"

    # -- transfer ---------------------------------------------------------------
    def _member(self, e: ast.AST) -> str | None:
        if isinstance(e, ast.Attribute) and isinstance(e.value, ast.Name) and e.value.id == self.r.enum and e.attr in self.r.members:
            return e.attr
        return None

    def rd_of(self, fi: FuncInfo) -> ReachingDefs:
        rd = self._rds.get(fi.qualname)
        if rd is None:
            rd = self._rds[fi.qualname] = ReachingDefs(cfg_of(fi), fi.params)
        return rd

    def writes_attr(self, fi: FuncInfo, attr: str) -> bool:
        """does the method (or a method of the class it calls on self) assign ``self.<attr>``?"""
        key = (fi.qualname, attr)
        if key in self._writes:
            return self._writes[key]
        self._writes[key] = False  # recursion guard
        w = False
        for n in walk_no_nested(fi.node):
            if is_self_attr(n, attr) and isinstance(n.ctx, (ast.Store, ast.Del)):  # type: ignore[attr-defined]
                w = True
            if isinstance(n, ast.Call) and isinstance(n.func, ast.Attribute) and isinstance(n.func.value, ast.Name) and n.func.value.id == "self":
                _, what = self.repo.lookup(self.r.cls, n.func.attr)
                if isinstance(what, FuncInfo) and what.name != fi.name and self.writes_attr(what, attr):
                    w = True
        self._writes[key] = w
        return w

    def is_buf(self, e: ast.AST, fi: FuncInfo) -> bool:
        """``self.<buffer>`` or a local copy of the reference (the buffer object is mutated in place, never replaced)"""
        if is_self_attr(e, self.r.buffer):
            return True
        if isinstance(e, ast.Name) and not self.buffer_rebound:
            c = attr_copies(fi).get(e.id)
            return c is not None and c[0] == self.r.buffer
        return False

    def is_off(self, e: ast.AST, fi: FuncInfo, at: Node) -> bool:
        """``self.<offset>`` or a local copy of its value that is still current"""
        if is_self_attr(e, self.r.offset):
            return True
        if isinstance(e, ast.Name) and isinstance(e.ctx, ast.Load):
            c = attr_copies(fi).get(e.id)
            if c is not None and c[0] == self.r.offset:
                src = cfg_of(fi).node_of(c[1])
                if src is None or self._attr_changes_between(fi, self.r.offset, src, at):
                    raise AnalysisError(f"{fi.loc(e)}: `{e.id}` is a copy of the search offset taken before a statement that may assign the offset: not modelled")
                return True
        return False

    def _state_changes_between(self, fi: FuncInfo, a: Node, b: Node) -> bool:
        return self._attr_changes_between(fi, self.r.state, a, b)

    def _attr_changes_between(self, fi: FuncInfo, attr: str, a: Node, b: Node) -> bool:
        """can a statement that assigns ``self.<attr>`` run on a path a -> b?"""
        cfg = cfg_of(fi)
        after_a = cfg.reach([s for s, _ in a.succs])
        for x in cfg.nodes:
            if x.id not in after_a or x is b or x.ast is None or x.kind not in ("stmt", "test", "loop", "with"):
                continue
            roots = [x.ast.iter] if x.kind == "loop" else [i.context_expr for i in x.ast.items] if x.kind == "with" else [x.ast]  # type: ignore[attr-defined]
            hit = False
            for root in roots:
                if isinstance(root, (ast.FunctionDef, ast.AsyncFunctionDef, ast.ClassDef)):
                    continue
                for n in [root, *walk_no_nested(root)]:
                    if is_self_attr(n, attr) and isinstance(n.ctx, (ast.Store, ast.Del)):  # type: ignore[attr-defined]
                        hit = True
                    if isinstance(n, ast.Call) and isinstance(n.func, ast.Attribute) and isinstance(n.func.value, ast.Name) and n.func.value.id == "self":
                        _, what = self.repo.lookup(self.r.cls, n.func.attr)
                        if isinstance(what, FuncInfo) and self.writes_attr(what, attr):
                            hit = True
            if hit and b.id in cfg.reach([s for s, _ in x.succs]):
                return True
        return False

    def _filter(self, fi: FuncInfo, tn: Node, facts: frozenset) -> tuple[frozenset, frozenset]:
        """(facts on the true edge, facts on the false edge)"""
        parts = state_test_parts(fi, self.rd_of(fi), tn.ast, tn, self.r)  # type: ignore[arg-type]
        if parts is None:
            return facts, facts
        negated, want, snapshot = parts
        if snapshot is not None and self._state_changes_between(fi, snapshot, tn):
            raise AnalysisError(f"{fi.loc(tn.ast)}: `{norm(tn.ast)}` tests a copy of the protocol state taken before a statement that may change the state: not modelled")
        yes = frozenset(f for f in facts if f[0] is None or f[0] in want)
        no = frozenset(f for f in facts if f[0] is None or f[0] not in want)
        return (no, yes) if negated else (yes, no)

    # -- the members an expression assigned to the state can denote ---------------------------
    def _callee(self, fi: FuncInfo, call: ast.Call) -> FuncInfo | None:
        f = call.func
        if isinstance(f, ast.Attribute) and isinstance(f.value, ast.Name) and f.value.id in ("self", "cls", self.r.cls.name):
            _, what = self.repo.lookup(self.r.cls, f.attr)
            return what if isinstance(what, FuncInfo) else None
        d = dotted(f)
        if d and "." not in d and d not in fi.params and not any(x.name == d for ds in self.rd_of(fi).gen.values() for x in ds):
            fq = self.repo.resolve(fi.module, d)
            return self.repo.try_func(fq) if fq and fq.startswith("werkzeug") else None
        return None

    def state_values(self, fi: FuncInfo, e: ast.AST, node: Node, stack: tuple, depth: int = 0, keep_at: Node | None = None) -> set[str] | None:
        """protocol-state members an expression can evaluate to: a member, a conditional expression / a selection from a literal
        table of members, a local (every binding that reaches), a parameter (the argument of the call being followed), the
        result of a helper of the class or module (every return).  None = something else.  With `keep_at` (the node of the assignment
        to the state) the state attribute itself, read in that very statement, stands for "stays as it is" (KEEP_STATE)."""
        if depth > 8:
            return None
        if keep_at is not None and node is keep_at and is_self_attr(e, self.r.state):
            return {KEEP_STATE}
        while isinstance(e, ast.Call) and (dotted(e.func) or "").endswith("cast") and len(e.args) == 2:
            e = e.args[1]
        m = self._member(e)
        if m is not None:
            return {m}

        def union(parts: t.Iterable[set[str] | None]) -> set[str] | None:
            out: set[str] = set()
            for p in parts:
                if p is None:
                    return None
                out |= p
            return out or None

        if isinstance(e, ast.IfExp):
            return union(self.state_values(fi, x, node, stack, depth + 1, keep_at) for x in (e.body, e.orelse))
        if isinstance(e, ast.NamedExpr):
            return self.state_values(fi, e.value, node, stack, depth + 1, keep_at)
        if isinstance(e, ast.Subscript):
            table = e.value
            if isinstance(table, (ast.Tuple, ast.List)) and table.elts:
                return union(self.state_values(fi, x, node, stack, depth + 1, keep_at) for x in table.elts)
            if isinstance(table, ast.Dict) and table.values and all(k is not None for k in table.keys):
                return union(self.state_values(fi, x, node, stack, depth + 1, keep_at) for x in table.values)
            return None
        if isinstance(e, ast.Name):
            defs = self.rd_of(fi).reaching(node, e.id)
            if not defs:
                return None
            parts = []
            for d in defs:
                if d.kind == "param" and stack:
                    caller, call, cnode = stack[-1]
                    binding = bind_args(fi, call)
                    if binding is None or e.id not in binding:
                        return None
                    parts.append(self.state_values(caller, binding[e.id], cnode, stack[:-1], depth + 1))
                elif d.kind in ("assign", "walrus") and d.index is None and d.value is not None and d.node is not None:
                    parts.append(self.state_values(fi, d.value, d.node, stack, depth + 1))
                else:
                    return None
            return union(parts)
        if isinstance(e, ast.Call):
            callee = self._callee(fi, e)
            if callee is None or any(isinstance(x, (ast.Yield, ast.YieldFrom)) for x in walk_no_nested(callee.node)):
                return None
            cfg = cfg_of(callee)
            if any(not (p.kind == "stmt" and isinstance(p.ast, ast.Return) and p.ast.value is not None) for p, _ in cfg.exit.preds):
                return None  # can fall off the end / bare return: None is not a member
            rets = [p for p, _ in cfg.exit.preds]
            return union(self.state_values(callee, r.ast.value, r, stack + ((fi, e, node),), depth + 1) for r in rets)  # type: ignore[union-attr]
        return None

    def _stale(self, facts: frozenset, key: str, new_state: str | None = None, change_state: bool = False) -> frozenset:
        out = set()
        for st, off in facts:
            st2 = new_state if change_state else st
            if off[0] == "W" and (not change_state or off[2] != new_state):
                off = ("S", key)
            out.add((st2, off))
        return frozenset(out)

    def _own_effect(self, fi: FuncInfo, n: Node, facts: frozenset) -> frozenset:
        a = n.ast
        if n.kind != "stmt" or a is None:
            return facts
        tgts: list[ast.AST] = []
        value: ast.AST | None = None
        if isinstance(a, ast.Assign):
            tgts, value = list(a.targets), a.value
        elif isinstance(a, ast.AnnAssign) and a.value is not None:
            tgts, value = [a.target], a.value
        elif isinstance(a, ast.AugAssign):
            if is_self_attr(a.target, self.r.state) or is_self_attr(a.target, self.r.offset):
                raise AnalysisError(f"{fi.loc(a)}: augmented assignment to the protocol state / search offset is not modelled")
            tgts = []
        for tg in tgts:
            if isinstance(tg, (ast.Tuple, ast.List)):
                if any(is_self_attr(e, self.r.state) or is_self_attr(e, self.r.offset) for e in ast.walk(tg)):
                    raise AnalysisError(f"{fi.loc(a)}: tuple assignment to the protocol state / search offset is not modelled")
                continue
            if is_self_attr(tg, self.r.state):
                vals = self.state_values(fi, value, n, tuple(self._stack), keep_at=n) if value is not None else None
                if not vals:
                    raise AnalysisError(f"{fi.loc(a)}: `{norm(a)}` assigns something other than a {self.r.enum} member")
                ms = sorted(vals)
                k = self.key(fi, a)
                self.stmts[k] = (fi, a, "state:=" + "|".join(ms))  # type: ignore[arg-type]
                self.stmt_arrivals.setdefault(k, set()).update(facts)
                facts = frozenset().union(*[facts if m == KEEP_STATE else self._stale(facts, k, m, change_state=True) for m in ms])
            elif is_self_attr(tg, self.r.offset):
                assert value is not None
                k = self.key(fi, a)
                if isinstance(value, ast.Constant) and value.value == 0 and not isinstance(value.value, bool):
                    facts = frozenset((st, ZERO) for st, _ in facts)
                else:
                    if any(is_self_attr(x, self.r.offset) for x in ast.walk(value)):
                        raise AnalysisError(f"{fi.loc(a)}: search offset computed from its previous value is not modelled")
                    # one window per calling context: a helper that stores `len(buffer) - <argument>` keeps a different
                    # tail for each call site
                    k += "".join(f"<{self.key(cf, cc)}" for cf, cc, _ in reversed(self._stack))
                    rx = self.window_of(fi, value, n, k, tuple(self._stack))
                    if rx is None:
                        raise AnalysisError(f"{fi.loc(a)}: `{norm(a)}`: offset value is neither 0 nor `len(buffer) - K` after a search")
                    facts = frozenset((st, ("W", k, st, rx)) for st, _ in facts)
        # buffer effects (anywhere in the statement)
        for x in walk_no_nested(a) if not isinstance(a, (ast.FunctionDef, ast.ClassDef)) else []:
            if self.is_buf(x, fi) and self._buffer_effect_node(x) == "shift":
                k = self.key(fi, a)
                self.stmts[k] = (fi, a, "shift")
                self.stmt_arrivals.setdefault(k, set()).update(facts)
                facts = self._stale(facts, k)
                break
        return facts

    def _calls_effect(self, fi: FuncInfo, n: Node, facts: frozenset) -> frozenset:
        a = n.ast
        if a is None or n.kind not in ("stmt", "test", "loop", "with") or isinstance(a, (ast.FunctionDef, ast.AsyncFunctionDef, ast.ClassDef)):
            return facts
        roots: list[ast.AST] = [a]
        if n.kind == "loop":
            roots = [a.iter]  # type: ignore[attr-defined]
        elif n.kind == "with":
            roots = [it.context_expr for it in a.items]  # type: ignore[attr-defined]
        calls = [c for root in roots for c in [root, *walk_no_nested(root)] if isinstance(c, ast.Call)]
        calls.sort(key=lambda c: (getattr(c, "end_lineno", 0), getattr(c, "end_col_offset", 0)))  # inner / earlier first
        for c in calls:
            f = c.func
            if isinstance(f, ast.Attribute) and isinstance(f.value, ast.Name) and f.value.id == "self":
                _, what = self.repo.lookup(self.r.cls, f.attr)
                if isinstance(what, FuncInfo) and self.relevant(what):
                    self._stack.append((fi, c, n))
                    try:
                        facts = self.flow(what, facts)
                    finally:
                        self._stack.pop()
            if isinstance(f, ast.Attribute) and f.attr == "search" and len(c.args) >= 2 and self.is_buf(c.args[0], fi) and self.is_off(c.args[1], fi, n):
                self.sites[id(c)] = SearchSite(fi, c, f.value)
                self.site_arrivals.setdefault(id(c), set()).update(facts)
        return facts

    # -- one method -----------------------------------------------------------------
    def flow(self, fi: FuncInfo, entry_facts: t.Iterable) -> frozenset:
        entry_facts = frozenset(entry_facts)
        mk = (fi.qualname, entry_facts, tuple(id(c) for _, c, _ in self._stack))
        if mk in self._memo:
            return self._memo[mk]
        if fi.qualname in self._busy:
            raise AnalysisError(f"recursive method {fi.qualname} is not modelled")
        self._busy.add(fi.qualname)
        try:
            cfg: CFG = cfg_of(fi)
            inn: dict[int, frozenset] = {n.id: frozenset() for n in cfg.nodes}
            inn[cfg.entry.id] = entry_facts
            work = [cfg.entry]
            while work:
                n = work.pop()
                facts = inn[n.id]
                before = facts
                facts = self._calls_effect(fi, n, facts)
                facts = self._own_effect(fi, n, facts)
                if n.kind == "test":
                    yes, no = self._filter(fi, n, facts)
                for s, l in n.succs:
                    if l == "raise":
                        continue
                    if n.kind == "test" and l == "T":
                        f = yes
                    elif n.kind == "test" and l == "F":
                        f = no
                    elif l == "exc":
                        f = before | facts
                    else:
                        f = facts
                    if not f <= inn[s.id]:
                        inn[s.id] = inn[s.id] | f
                        work.append(s)
            res = inn[cfg.exit.id]
        finally:
            self._busy.discard(fi.qualname)
        self._memo[mk] = res
        return res

    # -- the object's life: __init__, then any sequence of public methods -----------------
    def run(self) -> frozenset:
        init = self.r.cls.methods.get("__init__")
        if init is None:
            raise AnalysisError(f"{self.r.cls.name}.__init__ missing")
        facts = self.flow(init, [(None, ("S", "uninitialised"))])
        if not facts:
            raise AnalysisError("no normal exit of __init__")
        public = [f for name, f in sorted(self.r.cls.methods.items()) if not name.startswith("_") and "." not in name and self.relevant(f)]
        for _ in range(64):
            new = set(facts)
            for f in public:
                new |= self.flow(f, facts)
            if frozenset(new) == facts:
                break
            facts = frozenset(new)
        else:  # pragma: no cover
            raise AnalysisError("typestate fixpoint did not converge")
        # final pass so that arrivals are recorded for the complete fact set
        for f in public:
            self.flow(f, facts)
        return facts


def fmt_off(off) -> str:
    if off[0] == "Z":
        return "0"
    if off[0] == "W":
        return f"window({off[2]})"
    return f"stale[{off[1]}]"


# ---------------------------------------------------------------------------
# hold-back anchor: "last index of a byte, or a fallback when the byte is absent"
#
# The anchor helper is summarised extensionally.  Its CFG is walked once per *order type* of its
# argument (which of the bytes it looks for occur, and in which order their last occurrences
# come) over the values {-1, last index of a byte, len(argument)}; only order comparisons,
# min/max and selection are interpreted, so a function's results over all order types determine
# it on every argument.  The results are then matched against `min|max over (last index of c, or
# len / -1 when c is absent)`.  The spelling of the fallback does not matter: rindex + except
# ValueError, rfind + `== -1` / `< 0` test, conditional expression, walrus, early return,
# comparing two positions instead of calling min().

A_LEN = ("len",)  # len(argument)
A_NEG1 = ("int", -1)


class _Unmodelled(Exception):
    pass


class _Raises(Exception):
    def __init__(self, exc: str):
        self.exc = exc


class AnchorEval:
    def __init__(self, fi: FuncInfo):
        self.fi = fi
        self.cfg = cfg_of(fi)
        params = [p for p in fi.params if p != "self"]
        if len(params) != 1:
            raise _Unmodelled("expected one parameter")
        self.p = params[0]
        self.bytes: list[int] = []

        def one_byte(x: ast.AST) -> int | None:
            return x.value[0] if isinstance(x, ast.Constant) and isinstance(x.value, bytes) and len(x.value) == 1 else None

        # the bytes looked up: written at the lookup, or the elements of a literal collection a loop / comprehension runs over
        for c in ast.walk(fi.node):
            cands: list[ast.AST] = []
            if isinstance(c, ast.Call) and isinstance(c.func, ast.Attribute) and c.func.attr in ("rindex", "rfind") and norm(c.func.value) == self.p and c.args:
                cands = [c.args[0]]
            elif isinstance(c, (ast.For, ast.comprehension)) and isinstance(c.iter, (ast.Tuple, ast.List, ast.Set)):
                cands = list(c.iter.elts)
            for x in cands:
                b = one_byte(x)
                if b is not None and b not in self.bytes:
                    self.bytes.append(b)
        if not self.bytes or len(self.bytes) > 3:
            raise _Unmodelled("no (or too many) last-index-of-byte lookups on the parameter")
        for n in walk_no_nested(fi.node):
            if isinstance(n, ast.Name) and n.id == self.p and isinstance(n.ctx, (ast.Store, ast.Del)):
                raise _Unmodelled("the parameter is rebound")

    def _byte(self, c: ast.Call, env: dict[str, t.Any] | None = None) -> int:
        if len(c.args) == 1 and not c.keywords:
            a = c.args[0]
            if isinstance(a, ast.Constant) and isinstance(a.value, bytes) and len(a.value) == 1:
                return a.value[0]
            if isinstance(a, ast.Name) and env is not None and isinstance(env.get(a.id), tuple) and env[a.id][0] == "byte":
                return env[a.id][1]
        raise _Unmodelled(f"`{norm(c)}` is not a whole-argument lookup of one byte")

    # -- order ---------------------------------------------------------------------
    @staticmethod
    def rank(v, order: tuple[int, ...]) -> int | None:
        """position of a value in the order type: -1 < last occurrences in `order` < len(argument)"""
        if v == A_NEG1:
            return -1
        if v[0] == "last":
            return order.index(v[1])
        if v == A_LEN:
            return len(order)
        return None

    def signs(self, a, b, order: tuple[int, ...]) -> set[int]:
        """possible signs of a - b under the order type"""
        ra, rb = self.rank(a, order), self.rank(b, order)
        if ra is not None and rb is not None:
            return {(ra > rb) - (ra < rb)}
        if a[0] == "int" and b[0] == "int":
            return {(a[1] > b[1]) - (a[1] < b[1])}
        # an index or a length (>= 0) against another integer constant
        for x, y, sgn in ((a, b, 1), (b, a, -1)):
            if y[0] == "int" and x[0] in ("last", "len"):
                return {sgn} if y[1] < 0 else {0, sgn} if y[1] == 0 else {-1, 0, 1}
        raise _Unmodelled(f"comparison of {a} with {b}")

    def compare(self, a, b, order: tuple[int, ...]) -> int:
        s = self.signs(a, b, order)
        if len(s) != 1:
            raise _Unmodelled(f"comparison of {a} with {b} is not decided by the order of the last occurrences")
        return next(iter(s))

    # -- expressions -----------------------------------------------------------
    def _seq(self, e: ast.AST, env: dict[str, t.Any], order: tuple[int, ...]) -> list:
        v = self.ev(e, env, order)
        if not (isinstance(v, tuple) and v[0] == "seq"):
            raise _Unmodelled(f"`{norm(e)}` is not a literal collection")
        return list(v[1])

    def ev(self, e: ast.AST, env: dict[str, t.Any], order: tuple[int, ...]):
        if isinstance(e, ast.Constant) and isinstance(e.value, int) and not isinstance(e.value, bool):
            return ("int", e.value)
        if isinstance(e, ast.Constant) and isinstance(e.value, bytes) and len(e.value) == 1:
            return ("byte", e.value[0])
        if isinstance(e, (ast.Tuple, ast.List)):
            return ("seq", tuple(self.ev(x, env, order) for x in e.elts))
        if isinstance(e, (ast.ListComp, ast.GeneratorExp)) and len(e.generators) == 1 and isinstance(e.generators[0].target, ast.Name) and not e.generators[0].is_async:
            g = e.generators[0]
            out = []
            for item in self._seq(g.iter, env, order):
                env2 = dict(env)
                env2[g.target.id] = item  # type: ignore[union-attr]
                if all(self.truth(c, env2, order) for c in g.ifs):
                    out.append(self.ev(e.elt, env2, order))
            return ("seq", tuple(out))
        if isinstance(e, ast.UnaryOp) and isinstance(e.op, ast.USub) and isinstance(e.operand, ast.Constant) and isinstance(e.operand.value, int):
            return ("int", -e.operand.value)
        if isinstance(e, ast.Name):
            if e.id in env:
                return env[e.id]
            raise _Unmodelled(f"name `{e.id}`")
        if isinstance(e, ast.NamedExpr):
            v = self.ev(e.value, env, order)
            env[e.target.id] = v
            return v
        if isinstance(e, ast.IfExp):
            return self.ev(e.body if self.truth(e.test, env, order) else e.orelse, env, order)
        if isinstance(e, ast.Call):
            f = e.func
            if isinstance(f, ast.Attribute) and f.attr in ("rindex", "rfind") and norm(f.value) == self.p:
                b = self._byte(e, env)
                if b in order:
                    return ("last", b)
                if f.attr == "rindex":
                    raise _Raises("ValueError")
                return A_NEG1
            if isinstance(f, ast.Name) and f.id == "len" and len(e.args) == 1 and norm(e.args[0]) == self.p and not e.keywords:
                return A_LEN
            if isinstance(f, ast.Name) and f.id in ("min", "max") and not e.keywords and e.args and not any(isinstance(a, ast.Starred) for a in e.args):
                if len(e.args) == 1:
                    vals = self._seq(e.args[0], env, order)  # a literal, a comprehension over one, or a list built up in a loop
                    if not vals:
                        raise _Unmodelled(f"`{norm(e)}` of nothing")
                else:
                    vals = [self.ev(a, env, order) for a in e.args]
                best = vals[0]
                for v in vals[1:]:
                    c = self.compare(v, best, order)
                    if (c < 0 and f.id == "min") or (c > 0 and f.id == "max"):
                        best = v
                return best
            if (dotted(f) or "").endswith("cast") and len(e.args) == 2:
                return self.ev(e.args[1], env, order)
        raise _Unmodelled(f"`{norm(e)}`")

    def truth(self, e: ast.AST, env: dict[str, t.Any], order: tuple[int, ...]) -> bool:
        if isinstance(e, ast.BoolOp):
            res = isinstance(e.op, ast.And)
            for v in e.values:  # short circuit, left to right (a walrus in a skipped operand does not bind)
                res = self.truth(v, env, order)
                if res != isinstance(e.op, ast.And):
                    break
            return res
        if isinstance(e, ast.UnaryOp) and isinstance(e.op, ast.Not):
            return not self.truth(e.operand, env, order)
        if isinstance(e, ast.Compare) and len(e.ops) == 1 and isinstance(e.ops[0], (ast.In, ast.NotIn)) and norm(e.comparators[0]) == self.p:
            a = self.ev(e.left, env, order)  # `b"\n" in data`
            if not (isinstance(a, tuple) and a[0] == "byte"):
                raise _Unmodelled(f"test `{norm(e)}`")
            return (a[1] in order) == isinstance(e.ops[0], ast.In)
        if isinstance(e, ast.Compare) and len(e.ops) == 1:
            a, b = self.ev(e.left, env, order), self.ev(e.comparators[0], env, order)
            sg = self.signs(a, b, order)
            table = {ast.Eq: {0}, ast.NotEq: {-1, 1}, ast.Lt: {-1}, ast.LtE: {-1, 0}, ast.Gt: {1}, ast.GtE: {0, 1}}
            want = table.get(type(e.ops[0]))
            if want is not None and sg <= want:
                return True
            if want is not None and not (sg & want):
                return False
            raise _Unmodelled(f"test `{norm(e)}` is not decided by the order of the last occurrences")
        raise _Unmodelled(f"test `{norm(e)}`")

    # -- one run ---------------------------------------------------------------------
    def _handler_for(self, n: Node, exc: str) -> Node | None:
        for h, lab in n.succs:
            if lab == "exc" and h.kind == "handler":
                ty = h.ast.type  # type: ignore[union-attr]
                names = [dotted(x) or "?" for x in (ty.elts if isinstance(ty, ast.Tuple) else [ty])] if ty is not None else ["BaseException"]
                if any(x.rsplit(".", 1)[-1] in (exc, "Exception", "BaseException") for x in names):
                    return h
        return None

    def run(self, order: tuple[int, ...]):
        env: dict[str, t.Any] = {}
        n = self.cfg.entry
        for _ in range(200):
            a = n.ast
            nxt: Node | None = None
            try:
                if n.kind == "test":
                    lab = "T" if self.truth(a, env, order) else "F"  # type: ignore[arg-type]
                    s = self.cfg.succ(n, lab)
                    if len(s) != 1:
                        raise _Unmodelled("branch without a successor")
                    nxt = s[0]
                elif n.kind == "stmt" and isinstance(a, ast.Return):
                    if a.value is None:
                        raise _Unmodelled("bare return")
                    return self.ev(a.value, env, order)
                elif n.kind == "stmt" and isinstance(a, (ast.Assign, ast.AnnAssign)):
                    tgts = a.targets if isinstance(a, ast.Assign) else [a.target]
                    if a.value is None:
                        pass
                    elif all(isinstance(x, ast.Name) for x in tgts):
                        v = self.ev(a.value, env, order)
                        for x in tgts:
                            env[x.id] = v  # type: ignore[union-attr]
                    elif len(tgts) == 1 and isinstance(tgts[0], ast.Tuple) and isinstance(a.value, ast.Tuple) and len(tgts[0].elts) == len(a.value.elts) \
                            and all(isinstance(x, ast.Name) for x in tgts[0].elts):
                        vs = [self.ev(x, env, order) for x in a.value.elts]
                        for x, v in zip(tgts[0].elts, vs):
                            env[x.id] = v  # type: ignore[attr-defined]
                    else:
                        raise _Unmodelled(f"`{norm(a)}`")
                elif n.kind == "loop" and isinstance(a, ast.For) and isinstance(a.target, ast.Name) and not a.orelse:
                    # a loop over a literal collection is unrolled
                    key = f"#loop{n.id}"
                    if key not in env:
                        env[key] = self._seq(a.iter, env, order)
                    if env[key]:
                        env[a.target.id] = env[key].pop(0)
                        lab = "T"
                    else:
                        del env[key]
                        lab = "F"
                    s = self.cfg.succ(n, lab)
                    if len(s) != 1:
                        raise _Unmodelled("loop without a successor")
                    nxt = s[0]
                elif n.kind == "stmt" and isinstance(a, ast.Expr) and isinstance(a.value, ast.Call) and isinstance(a.value.func, ast.Attribute) \
                        and a.value.func.attr == "append" and isinstance(a.value.func.value, ast.Name) and len(a.value.args) == 1 and not a.value.keywords:
                    name = a.value.func.value.id
                    cur = env.get(name)
                    if not (isinstance(cur, tuple) and cur[0] == "seq"):
                        raise _Unmodelled(f"`{norm(a)}`")
                    item = self.ev(a.value.args[0], env, order)  # may raise: then nothing is appended
                    env[name] = ("seq", cur[1] + (item,))
                elif n.kind == "stmt" and isinstance(a, (ast.Pass, ast.Continue, ast.Break)):
                    pass
                elif n.kind == "join":
                    pass
                elif n.kind == "stmt" and isinstance(a, ast.Expr) and isinstance(a.value, ast.Constant):
                    pass  # docstring
                elif n.kind in ("entry", "handler"):
                    pass
                else:
                    raise _Unmodelled(f"`{n.text()}`")
            except _Raises as r:
                nxt = self._handler_for(n, r.exc)
                if nxt is None:
                    raise _Unmodelled(f"{r.exc} escapes when a byte is absent")
            if nxt is None:
                s = [x for x, lab in n.succs if lab not in ("exc", "raise")]
                if len(s) != 1 or s[0] is self.cfg.exit:
                    raise _Unmodelled("falls off the end")
                nxt = s[0]
            n = nxt
        raise _Unmodelled("loop")


def anchor_summary(fi: FuncInfo) -> tuple[str, list[tuple[str, int]]] | None:
    cached = getattr(fi, "_c01_anchor_summary", "?")
    if cached == "?":
        cached = _anchor_summary(fi)
        fi._c01_anchor_summary = cached  # type: ignore[attr-defined]
    return cached


def _anchor_summary(fi: FuncInfo) -> tuple[str, list[tuple[str, int]]] | None:
    """what a hold-back anchor function computes: ("min"|"max"|"one", [(absent-value, byte), ...]) or None when not modelled.

    Each term is the last index of one byte in the (only) parameter with a fallback for an argument without that
    byte: "end" = len(argument), "-1" = -1.  The function is run abstractly for every order type of its argument; the
    summary is the one combination of min/max and fallbacks that gives the same result for all of them."""
    import itertools

    try:
        ae = AnchorEval(fi)
        results = {}
        for r in range(len(ae.bytes) + 1):
            for order in itertools.permutations(ae.bytes, r):
                v = ae.run(order)
                if ae.rank(v, order) is None:
                    return None
                results[order] = v
    except _Unmodelled:
        return None
    found = []
    for comb in (("one",) if len(ae.bytes) == 1 else ("min", "max")):
        for fbs in itertools.product((A_LEN, A_NEG1), repeat=len(ae.bytes)):
            def predicted(order):
                terms = [("last", b) if b in order else fb for b, fb in zip(ae.bytes, fbs)]
                pick = max if comb == "max" else min
                return pick(terms, key=lambda v: ae.rank(v, order))
            if all(ae.rank(predicted(o), o) == ae.rank(v, o) for o, v in results.items()):
                found.append((comb, [("end" if fb == A_LEN else "-1", b) for b, fb in zip(ae.bytes, fbs)]))
    return found[0] if len(found) == 1 else None


# ---------------------------------------------------------------------------
# evaluation of a small pure helper on a table of constants
#
# Two clauses (R1.10: where the hold-back anchor cuts; R1.11: what the header stage does with a
# left-over line-break byte) are statements about a *pure function of bytes*.  They are decided by
# binding the function's parameter to every constant of a small table and propagating constants
# through its statements with a closed set of pure builtins (the statement-level analogue of
# wzsa/fold.py): nothing of werkzeug is imported or run, only its syntax tree is read; helpers of
# the package are followed (bounded depth); a construct outside the subset ends in _Unmodelled
# (-> ANALYSIS-ERROR), never in a verdict.  The spelling of the function is irrelevant to the
# result: index arithmetic, slices, byte tests, rfind / rindex + except / rpartition, backward
# scans, loops, comprehensions, generators, early returns all evaluate to the same table.

import builtins as _builtins


class _PyRaise(Exception):
    """an exception of the evaluated program"""

    def __init__(self, names: t.Sequence[str]):
        self.names = list(names)


class _Ret(Exception):
    def __init__(self, value: t.Any):
        self.value = value


class _Brk(Exception):
    pass


class _Cont(Exception):
    pass


class SelfRef:
    """the receiver of a method that is being evaluated (no instance state is modelled)"""

    def __init__(self, cls: ClassInfo | None):
        self.cls = cls


class ClassRef:
    def __init__(self, cls: ClassInfo):
        self.cls = cls


class Opaque:
    """an object of a package class that is only built and filled: constructor arguments and the calls made on it, in order"""

    def __init__(self, cls: str, args: tuple, kwargs: tuple):
        self.cls, self.args, self.kwargs = cls, args, kwargs
        self.log: list = []

    def __eq__(self, other: object) -> bool:
        return isinstance(other, Opaque) and (self.cls, self.args, self.kwargs, self.log) == (other.cls, other.args, other.kwargs, other.log)

    __hash__ = None  # type: ignore[assignment]

    def __repr__(self) -> str:
        inner = ", ".join([repr(a) for a in self.args] + [f"{k}={v!r}" for k, v in self.kwargs])
        return f"{self.cls}({inner})" + "".join(f".{m}({', '.join(map(repr, a))})" for m, a, _ in self.log)


class RxVal:
    """a pattern compiled at module level (folded from the source)"""

    def __init__(self, rc: RegexConst):
        self.rx = re.compile(rc.pattern, rc.flags)


_PURE_METHODS: dict[type, set[str]] = {
    bytes: {"rfind", "rindex", "find", "index", "endswith", "startswith", "count", "strip", "lstrip", "rstrip", "splitlines", "split", "rsplit", "partition",
            "rpartition", "decode", "lower", "upper", "title", "replace", "join", "isspace", "removeprefix", "removesuffix", "isalpha", "isdigit"},
    str: {"rfind", "rindex", "find", "index", "endswith", "startswith", "count", "strip", "lstrip", "rstrip", "splitlines", "split", "rsplit", "partition",
          "rpartition", "encode", "lower", "upper", "title", "casefold", "replace", "join", "isspace", "removeprefix", "removesuffix", "isalpha", "isdigit"},
    list: {"append", "extend", "insert", "pop", "index", "count", "copy", "reverse"},
    tuple: {"index", "count"},
    dict: {"get", "items", "keys", "values", "setdefault"},
    re.Match: {"start", "end", "span", "group", "groups"},
}
_PURE_METHODS[bytearray] = _PURE_METHODS[bytes] | {"extend", "append"}
_RX_METHODS = {"sub", "subn", "split", "search", "match", "fullmatch", "findall"}
_PURE_BUILTINS: dict[str, t.Any] = {
    "len": len, "min": min, "max": max, "range": range, "reversed": lambda x: list(reversed(x)), "enumerate": lambda *a: list(enumerate(*a)),
    "zip": lambda *a: list(zip(*a)), "bytes": bytes, "bytearray": bytearray, "memoryview": bytes, "int": int, "bool": bool, "str": str, "list": list, "tuple": tuple,
    "sorted": sorted, "any": any, "all": all, "abs": abs, "sum": sum,
}
_PROGRAM_ERRORS = (ValueError, IndexError, KeyError, ZeroDivisionError, StopIteration)
_DATA = (int, bool, bytes, bytearray, str, type(None), list, tuple, dict, set, frozenset, range)


class MiniEval:
    def __init__(self, repo, folder: Folder | None = None, max_depth: int = 4, budget: int = 40000):
        self.repo = repo
        self.folder = folder or Folder(repo)
        self.max_depth = max_depth
        self.budget = budget
        self.steps = 0

    # -- entry ---------------------------------------------------------------------
    def call(self, fi: FuncInfo, args: t.Sequence[t.Any], kwargs: dict[str, t.Any] | None = None, depth: int = 0) -> t.Any:
        """value the function returns for these arguments (receiver not counted); _PyRaise when it raises"""
        if depth > self.max_depth:
            raise _Unmodelled("helpers nested too deep")
        node = fi.node
        if isinstance(node, ast.AsyncFunctionDef):
            raise _Unmodelled("async function")
        a = node.args  # type: ignore[attr-defined]
        pos = [x.arg for x in a.posonlyargs + a.args]
        decs = {d.rsplit(".", 1)[-1] for d in fi.decorators}
        if decs - {"staticmethod", "classmethod"}:
            raise _Unmodelled(f"decorated function {fi.qualname}")
        env: dict[str, t.Any] = {}
        if fi.cls is not None and "staticmethod" not in decs and pos:
            env[pos[0]] = ClassRef(fi.cls) if "classmethod" in decs else SelfRef(fi.cls)
            pos = pos[1:]
        args = list(args)
        kwargs = dict(kwargs or {})
        if len(args) > len(pos):
            if a.vararg is None:
                raise _Unmodelled(f"too many arguments for {fi.qualname}")
            env[a.vararg.arg] = tuple(args[len(pos):])
            args = args[:len(pos)]
        elif a.vararg is not None:
            env[a.vararg.arg] = ()
        for p, v in zip(pos, args):
            env[p] = v
        names = set(pos) | {x.arg for x in a.kwonlyargs}
        for k, v in kwargs.items():
            if k not in names or k in env:
                raise _Unmodelled(f"keyword `{k}` for {fi.qualname}")
            env[k] = v
        defaults = dict(zip(reversed(pos), reversed(a.defaults)))
        for x, d in zip(a.kwonlyargs, a.kw_defaults):
            if d is not None:
                defaults[x.arg] = d
        for name in names:
            if name not in env:
                if name not in defaults:
                    raise _Unmodelled(f"argument `{name}` of {fi.qualname} is missing")
                env[name] = self.ev(defaults[name], {}, fi, depth)
        if a.kwarg is not None:
            raise _Unmodelled("**kwargs")
        is_gen = any(isinstance(x, (ast.Yield, ast.YieldFrom)) for x in walk_no_nested(node))
        if is_gen:
            env["#yield"] = []
        try:
            self.block(node.body, env, fi, depth)  # type: ignore[attr-defined]
        except _Ret as r:
            return env["#yield"] if is_gen else r.value
        except (_Brk, _Cont):
            raise _Unmodelled("break / continue outside a loop")
        return env["#yield"] if is_gen else None

    def _tick(self) -> None:
        self.steps += 1
        if self.steps > self.budget:
            raise _Unmodelled("evaluation does not finish within the step budget")

    # -- statements ------------------------------------------------------------------
    def block(self, body: t.Sequence[ast.stmt], env: dict[str, t.Any], fi: FuncInfo, depth: int) -> None:
        for st in body:
            self.stmt(st, env, fi, depth)

    def _bind(self, tg: ast.AST, v: t.Any, env: dict[str, t.Any], fi: FuncInfo, depth: int) -> None:
        if isinstance(tg, ast.Name):
            env[tg.id] = v
        elif isinstance(tg, (ast.Tuple, ast.List)) and not any(isinstance(x, ast.Starred) for x in tg.elts):
            try:
                vals = list(v)
            except TypeError:
                raise _Unmodelled(f"unpacking of `{norm(tg)}`")
            if len(vals) != len(tg.elts):
                raise _PyRaise(["ValueError", "Exception", "BaseException"])
            for x, y in zip(tg.elts, vals):
                self._bind(x, y, env, fi, depth)
        elif isinstance(tg, ast.Subscript) and not isinstance(tg.slice, ast.Slice):
            obj = self.ev(tg.value, env, fi, depth)
            if not isinstance(obj, (list, dict)):
                raise _Unmodelled(f"store into `{norm(tg)}`")
            key = self.ev(tg.slice, env, fi, depth)
            try:
                obj[key] = v
            except _PROGRAM_ERRORS as e:
                raise _PyRaise([c.__name__ for c in type(e).__mro__])
            except TypeError:
                raise _Unmodelled(f"store into `{norm(tg)}`")
        else:
            raise _Unmodelled(f"assignment to `{norm(tg)}`")

    def _matches(self, h: ast.ExceptHandler, r: _PyRaise, fi: FuncInfo) -> bool:
        if h.type is None:
            return True
        names = [dotted(x) or "?" for x in (h.type.elts if isinstance(h.type, ast.Tuple) else [h.type])]
        return any(n.rsplit(".", 1)[-1] in r.names for n in names)

    def stmt(self, st: ast.stmt, env: dict[str, t.Any], fi: FuncInfo, depth: int) -> None:
        self._tick()
        if isinstance(st, ast.Expr):
            v = st.value
            if isinstance(v, ast.Constant):
                return
            if isinstance(v, ast.Yield):
                env["#yield"].append(self.ev(v.value, env, fi, depth) if v.value is not None else None)
                return
            if isinstance(v, ast.YieldFrom):
                env["#yield"].extend(self._iter(self.ev(v.value, env, fi, depth), v))
                return
            if isinstance(v, ast.Call) and isinstance(v.func, ast.Attribute) and isinstance(v.func.value, ast.Name) and isinstance(env.get(v.func.value.id), Opaque):
                args, kwargs = self._args(v, env, fi, depth)  # `headers.add(name, value)`: recorded, in order
                env[v.func.value.id].log.append((v.func.attr, tuple(args), tuple(sorted(kwargs.items()))))
                return
            self.ev(v, env, fi, depth)
        elif isinstance(st, ast.Assign):
            v = self.ev(st.value, env, fi, depth)
            for tg in st.targets:
                self._bind(tg, v, env, fi, depth)
        elif isinstance(st, ast.AnnAssign):
            if st.value is not None:
                self._bind(st.target, self.ev(st.value, env, fi, depth), env, fi, depth)
        elif isinstance(st, ast.AugAssign):
            load = ast.copy_location(ast.parse(ast.unparse(st.target), mode="eval").body, st.target)
            cur = self.ev(load, env, fi, depth)
            rhs = self.ev(st.value, env, fi, depth)
            if isinstance(cur, list) and isinstance(st.op, ast.Add):
                cur.extend(self._iter(rhs, st))  # in place, as in Python
                return
            self._bind(st.target, self._binop(st.op, cur, rhs, st), env, fi, depth)
        elif isinstance(st, ast.Return):
            raise _Ret(self.ev(st.value, env, fi, depth) if st.value is not None else None)
        elif isinstance(st, ast.If):
            self.block(st.body if self.truth(self.ev(st.test, env, fi, depth)) else st.orelse, env, fi, depth)
        elif isinstance(st, ast.While):
            broke = False
            while self.truth(self.ev(st.test, env, fi, depth)):
                self._tick()
                try:
                    self.block(st.body, env, fi, depth)
                except _Brk:
                    broke = True
                    break
                except _Cont:
                    continue
            if not broke:
                self.block(st.orelse, env, fi, depth)
        elif isinstance(st, ast.For):
            broke = False
            for item in self._iter(self.ev(st.iter, env, fi, depth), st):
                self._tick()
                self._bind(st.target, item, env, fi, depth)
                try:
                    self.block(st.body, env, fi, depth)
                except _Brk:
                    broke = True
                    break
                except _Cont:
                    continue
            if not broke:
                self.block(st.orelse, env, fi, depth)
        elif isinstance(st, ast.Try):
            try:
                try:
                    self.block(st.body, env, fi, depth)
                except _PyRaise as r:
                    h = next((h for h in st.handlers if self._matches(h, r, fi)), None)
                    if h is None:
                        raise
                    if h.name:
                        env[h.name] = Opaque(r.names[0], (), ())
                    self.block(h.body, env, fi, depth)
                else:
                    self.block(st.orelse, env, fi, depth)
            finally:
                if st.finalbody:
                    self.block(st.finalbody, env, fi, depth)
        elif isinstance(st, ast.Raise):
            exc = st.exc.func if isinstance(st.exc, ast.Call) else st.exc
            name = (dotted(exc) or "Exception").rsplit(".", 1)[-1] if exc is not None else "Exception"
            real = getattr(_builtins, name, None)
            raise _PyRaise([c.__name__ for c in real.__mro__] if isinstance(real, type) and issubclass(real, BaseException) else [name, "Exception", "BaseException"])
        elif isinstance(st, ast.Pass):
            return
        elif isinstance(st, ast.Break):
            raise _Brk()
        elif isinstance(st, ast.Continue):
            raise _Cont()
        elif isinstance(st, ast.Assert):
            if not self.truth(self.ev(st.test, env, fi, depth)):
                raise _PyRaise(["AssertionError", "Exception", "BaseException"])
        else:
            raise _Unmodelled(f"statement `{norm(st)[:60]}`")

    # -- expressions --------------------------------------------------------------------
    @staticmethod
    def truth(v: t.Any) -> bool:
        if isinstance(v, (SelfRef, ClassRef, Opaque, RxVal)):
            raise _Unmodelled("truth value of an object")
        return bool(v)

    def _iter(self, v: t.Any, where: ast.AST) -> list:
        if isinstance(v, (list, tuple, bytes, bytearray, str, range, dict, set, frozenset)):
            return list(v)
        raise _Unmodelled(f"iteration in `{norm(where)[:60]}`")

    def _binop(self, op: ast.operator, a: t.Any, b: t.Any, where: ast.AST) -> t.Any:
        if not (isinstance(a, _DATA) and isinstance(b, _DATA)):
            raise _Unmodelled(f"`{norm(where)[:60]}`")
        try:
            if isinstance(op, ast.Add):
                return a + b
            if isinstance(op, ast.Sub):
                return a - b
            if isinstance(op, ast.Mult):
                return a * b
            if isinstance(op, ast.FloorDiv):
                return a // b
            if isinstance(op, ast.Mod):
                return a % b
            if isinstance(op, ast.BitOr):
                return a | b
            if isinstance(op, ast.BitAnd):
                return a & b
        except _PROGRAM_ERRORS as e:
            raise _PyRaise([c.__name__ for c in type(e).__mro__])
        except TypeError:
            pass
        raise _Unmodelled(f"`{norm(where)[:60]}`")

    def _name(self, name: str, env: dict[str, t.Any], fi: FuncInfo) -> t.Any:
        if name in env:
            return env[name]
        m = fi.module
        if name in m.classes:
            return ClassRef(m.classes[name])
        if name in m.assigns or (name in m.imports and m.imports[name].startswith("werkzeug")):
            fq = self.repo.resolve(m, name)
            c = self.repo.try_cls(fq) if fq else None
            if c is not None:
                return ClassRef(c)
            try:
                v = self.folder.name(m, name)
            except AnalysisError as e:
                raise _Unmodelled(f"module constant `{name}` ({e})")
            return RxVal(v) if isinstance(v, RegexConst) else v
        raise _Unmodelled(f"name `{name}`")

    def _cmp(self, op: ast.cmpop, a: t.Any, b: t.Any, where: ast.AST) -> bool:
        try:
            if isinstance(op, ast.Eq):
                return a == b
            if isinstance(op, ast.NotEq):
                return a != b
            if isinstance(op, ast.Is):
                if a is None or b is None or isinstance(a, bool) or isinstance(b, bool):
                    return a is b
                raise _Unmodelled(f"identity test `{norm(where)[:60]}`")
            if isinstance(op, ast.IsNot):
                if a is None or b is None or isinstance(a, bool) or isinstance(b, bool):
                    return a is not b
                raise _Unmodelled(f"identity test `{norm(where)[:60]}`")
            if not (isinstance(a, _DATA) and isinstance(b, _DATA)):
                raise _Unmodelled(f"`{norm(where)[:60]}`")
            if isinstance(op, ast.Lt):
                return a < b
            if isinstance(op, ast.LtE):
                return a <= b
            if isinstance(op, ast.Gt):
                return a > b
            if isinstance(op, ast.GtE):
                return a >= b
            if isinstance(op, ast.In):
                return a in b
            if isinstance(op, ast.NotIn):
                return a not in b
        except TypeError:
            pass
        raise _Unmodelled(f"`{norm(where)[:60]}`")

    def _comp(self, e: ast.AST, gens: list, i: int, env: dict[str, t.Any], fi: FuncInfo, depth: int, emit: t.Callable[[dict], None]) -> None:
        if i == len(gens):
            emit(env)
            return
        g = gens[i]
        if g.is_async:
            raise _Unmodelled("async comprehension")
        for item in self._iter(self.ev(g.iter, env, fi, depth), e):
            self._tick()
            self._bind(g.target, item, env, fi, depth)
            if all(self.truth(self.ev(c, env, fi, depth)) for c in g.ifs):
                self._comp(e, gens, i + 1, env, fi, depth, emit)

    def ev(self, e: ast.AST | None, env: dict[str, t.Any], fi: FuncInfo, depth: int) -> t.Any:
        self._tick()
        if e is None:
            return None
        if isinstance(e, ast.Constant):
            if isinstance(e.value, (int, bool, bytes, str, type(None))):
                return e.value
            raise _Unmodelled(f"constant `{norm(e)}`")
        if isinstance(e, ast.Name):
            return self._name(e.id, env, fi)
        if isinstance(e, (ast.Tuple, ast.List, ast.Set)):
            items: list = []
            for x in e.elts:
                if isinstance(x, ast.Starred):
                    items.extend(self._iter(self.ev(x.value, env, fi, depth), e))
                else:
                    items.append(self.ev(x, env, fi, depth))
            try:
                return {ast.Tuple: tuple, ast.List: list, ast.Set: set}[type(e)](items)
            except TypeError:
                raise _Unmodelled(f"`{norm(e)[:60]}`")
        if isinstance(e, ast.Dict):
            if any(k is None for k in e.keys):
                raise _Unmodelled("dict unpacking")
            try:
                return {self.ev(k, env, fi, depth): self.ev(v, env, fi, depth) for k, v in zip(e.keys, e.values)}
            except TypeError:
                raise _Unmodelled(f"`{norm(e)[:60]}`")
        if isinstance(e, ast.BinOp):
            return self._binop(e.op, self.ev(e.left, env, fi, depth), self.ev(e.right, env, fi, depth), e)
        if isinstance(e, ast.UnaryOp):
            v = self.ev(e.operand, env, fi, depth)
            if isinstance(e.op, ast.Not):
                return not self.truth(v)
            if isinstance(e.op, ast.USub) and isinstance(v, int):
                return -v
            if isinstance(e.op, ast.UAdd) and isinstance(v, int):
                return v
            raise _Unmodelled(f"`{norm(e)[:60]}`")
        if isinstance(e, ast.BoolOp):
            v = None
            for x in e.values:
                v = self.ev(x, env, fi, depth)
                if self.truth(v) != isinstance(e.op, ast.And):
                    break
            return v
        if isinstance(e, ast.Compare):
            left = self.ev(e.left, env, fi, depth)
            for op, c in zip(e.ops, e.comparators):
                right = self.ev(c, env, fi, depth)
                if not self._cmp(op, left, right, e):
                    return False
                left = right
            return True
        if isinstance(e, ast.IfExp):
            return self.ev(e.body if self.truth(self.ev(e.test, env, fi, depth)) else e.orelse, env, fi, depth)
        if isinstance(e, ast.NamedExpr):
            v = self.ev(e.value, env, fi, depth)
            env[e.target.id] = v
            return v
        if isinstance(e, ast.Subscript):
            v = self.ev(e.value, env, fi, depth)
            if not isinstance(v, (bytes, bytearray, str, list, tuple, dict, range)):
                raise _Unmodelled(f"`{norm(e)[:60]}`")
            try:
                if isinstance(e.slice, ast.Slice):
                    if isinstance(v, dict):
                        raise _Unmodelled(f"`{norm(e)[:60]}`")
                    lo, hi, stp = (self.ev(x, env, fi, depth) if x is not None else None for x in (e.slice.lower, e.slice.upper, e.slice.step))
                    return v[lo:hi:stp]
                return v[self.ev(e.slice, env, fi, depth)]
            except _PROGRAM_ERRORS as ex:
                raise _PyRaise([c.__name__ for c in type(ex).__mro__])
            except TypeError:
                raise _Unmodelled(f"`{norm(e)[:60]}`")
        if isinstance(e, (ast.ListComp, ast.GeneratorExp, ast.SetComp)):
            out: list = []
            inner = dict(env)
            self._comp(e, e.generators, 0, inner, fi, depth, lambda env2: out.append(self.ev(e.elt, env2, fi, depth)))  # type: ignore[union-attr]
            for k, v in inner.items():  # a walrus inside binds in the enclosing scope; the loop variables do not leak
                if k in env:
                    env[k] = v
            if isinstance(e, ast.SetComp):
                try:
                    return set(out)
                except TypeError:
                    raise _Unmodelled(f"`{norm(e)[:60]}`")
            return out
        if isinstance(e, ast.DictComp):
            outd: dict = {}
            inner = dict(env)

            def put(env2: dict) -> None:
                outd[self.ev(e.key, env2, fi, depth)] = self.ev(e.value, env2, fi, depth)  # type: ignore[union-attr]

            self._comp(e, e.generators, 0, inner, fi, depth, put)
            return outd
        if isinstance(e, ast.JoinedStr):
            s = ""
            for v in e.values:
                if isinstance(v, ast.Constant):
                    s += str(v.value)
                elif isinstance(v, ast.FormattedValue) and v.format_spec is None and v.conversion in (-1, 115, 114):
                    val = self.ev(v.value, env, fi, depth)
                    if not isinstance(val, _DATA):
                        raise _Unmodelled("formatted object")
                    s += repr(val) if v.conversion == 114 else str(val)
                else:
                    raise _Unmodelled("format spec")
            return s
        if isinstance(e, ast.Attribute):
            d = dotted(e)
            if d and isinstance(e.value, ast.Name) and e.value.id not in env and e.value.id not in fi.module.classes:
                fq = self.repo.resolve(fi.module, d)
                if fq and fq.startswith("werkzeug."):
                    mn, _, nm = fq.rpartition(".")
                    if mn in self.repo.modules:
                        return self._module_attr(mn, nm)
                raise _Unmodelled(f"attribute `{norm(e)[:60]}`")
            recv = self.ev(e.value, env, fi, depth)
            if isinstance(recv, (SelfRef, ClassRef)) and recv.cls is not None:
                owner, what = self.repo.lookup(recv.cls, e.attr)  # a constant defined in the class body
                if isinstance(what, ast.AST) and isinstance(owner, ClassInfo):
                    try:
                        v = self.folder.expr(owner.module, what)
                    except AnalysisError as ex:
                        raise _Unmodelled(f"class constant `{norm(e)}` ({ex})")
                    return RxVal(v) if isinstance(v, RegexConst) else v
            raise _Unmodelled(f"attribute `{norm(e)[:60]}`")
        if isinstance(e, ast.Call):
            return self.ev_call(e, env, fi, depth)
        raise _Unmodelled(f"`{norm(e)[:60]}`")

    def _module_attr(self, mn: str, nm: str) -> t.Any:
        try:
            v = self.folder.name(self.repo.modules[mn], nm)
        except AnalysisError as e:
            raise _Unmodelled(f"module constant `{mn}.{nm}` ({e})")
        return RxVal(v) if isinstance(v, RegexConst) else v

    def _args(self, c: ast.Call, env: dict[str, t.Any], fi: FuncInfo, depth: int) -> tuple[list, dict]:
        args: list = []
        for a in c.args:
            if isinstance(a, ast.Starred):
                args.extend(self._iter(self.ev(a.value, env, fi, depth), c))
            else:
                args.append(self.ev(a, env, fi, depth))
        kwargs = {}
        for k in c.keywords:
            if k.arg is None:
                raise _Unmodelled("**kwargs in a call")
            kwargs[k.arg] = self.ev(k.value, env, fi, depth)
        return args, kwargs

    def _apply(self, f: t.Callable, args: list, kwargs: dict, where: ast.AST) -> t.Any:
        try:
            return f(*args, **kwargs)
        except _PROGRAM_ERRORS as e:
            raise _PyRaise([c.__name__ for c in type(e).__mro__])
        except (TypeError, AttributeError, re.error, OverflowError, MemoryError):
            raise _Unmodelled(f"`{norm(where)[:60]}`")

    def _construct(self, cls: ClassInfo, c: ast.Call, env: dict[str, t.Any], fi: FuncInfo, depth: int) -> Opaque:
        args, kwargs = self._args(c, env, fi, depth)
        return Opaque(cls.name, tuple(args), tuple(sorted(kwargs.items())))

    def call_method(self, recv: t.Any, c: ast.Call, env: dict[str, t.Any], fi: FuncInfo, depth: int) -> t.Any:
        attr = c.func.attr  # type: ignore[attr-defined]
        if isinstance(recv, (SelfRef, ClassRef)):
            if recv.cls is None:
                raise _Unmodelled(f"`{norm(c)[:60]}`")
            _, what = self.repo.lookup(recv.cls, attr)
            if not isinstance(what, FuncInfo):
                raise _Unmodelled(f"`{norm(c)[:60]}` is not a method of the package")
            args, kwargs = self._args(c, env, fi, depth)
            return self.call(what, args, kwargs, depth + 1)
        args, kwargs = self._args(c, env, fi, depth)
        if isinstance(recv, RxVal):
            if attr not in _RX_METHODS or not all(isinstance(a, (bytes, bytearray, str, int)) for a in list(args) + list(kwargs.values())):
                raise _Unmodelled(f"`{norm(c)[:60]}`")
            return self._apply(getattr(recv.rx, attr), args, kwargs, c)
        for ty, names in _PURE_METHODS.items():
            if type(recv) is ty:
                if attr not in names or not all(isinstance(a, _DATA) for a in list(args) + list(kwargs.values())):
                    break
                return self._apply(getattr(recv, attr), args, kwargs, c)
        raise _Unmodelled(f"`{norm(c)[:60]}`")

    def ev_call(self, c: ast.Call, env: dict[str, t.Any], fi: FuncInfo, depth: int) -> t.Any:
        f = c.func
        d = dotted(f)
        if d and d.rsplit(".", 1)[-1] == "cast" and len(c.args) == 2 and not c.keywords and d.split(".")[0] not in env:
            return self.ev(c.args[1], env, fi, depth)
        if isinstance(f, ast.Name):
            if f.id in env:
                raise _Unmodelled(f"call of a local `{f.id}`")
            m = fi.module
            if f.id in m.functions:
                args, kwargs = self._args(c, env, fi, depth)
                return self.call(m.functions[f.id], args, kwargs, depth + 1)
            if f.id in m.classes:
                return self._construct(m.classes[f.id], c, env, fi, depth)
            if f.id in m.imports:
                fq = self.repo.resolve(m, f.id)
                if fq and fq.startswith("werkzeug."):
                    callee = self.repo.try_func(fq)
                    if callee is not None:
                        args, kwargs = self._args(c, env, fi, depth)
                        return self.call(callee, args, kwargs, depth + 1)
                    cls = self.repo.try_cls(fq)
                    if cls is not None:
                        return self._construct(cls, c, env, fi, depth)
                raise _Unmodelled(f"`{norm(c)[:60]}`")
            if f.id in m.assigns:
                raise _Unmodelled(f"`{norm(c)[:60]}`")
            if f.id == "isinstance" and len(c.args) == 2 and not c.keywords:
                names = [dotted(x) for x in (c.args[1].elts if isinstance(c.args[1], ast.Tuple) else [c.args[1]])]
                types = {"bytes": bytes, "bytearray": bytearray, "str": str, "int": int, "bool": bool, "list": list, "tuple": tuple, "dict": dict}
                v = self.ev(c.args[0], env, fi, depth)
                if all(n in types for n in names) and isinstance(v, _DATA):
                    return isinstance(v, tuple(types[n] for n in names))  # type: ignore[index]
                raise _Unmodelled(f"`{norm(c)[:60]}`")
            if f.id == "filter" and len(c.args) == 2 and not c.keywords and isinstance(c.args[0], ast.Constant) and c.args[0].value is None:
                return [x for x in self._iter(self.ev(c.args[1], env, fi, depth), c) if self.truth(x)]
            fn = _PURE_BUILTINS.get(f.id)
            if fn is None:
                raise _Unmodelled(f"`{norm(c)[:60]}`")
            args, kwargs = self._args(c, env, fi, depth)
            if f.id in ("min", "max", "sorted") and set(kwargs) - ({"default"} if f.id != "sorted" else {"reverse"}):
                raise _Unmodelled(f"`{norm(c)[:60]}`")  # a `key=` callable is not modelled
            if not all(isinstance(a, _DATA) for a in list(args) + list(kwargs.values())):
                raise _Unmodelled(f"`{norm(c)[:60]}`")
            return self._apply(fn, args, kwargs, c)
        if isinstance(f, ast.Attribute):
            if d and isinstance(f.value, ast.Name) and f.value.id not in env and f.value.id not in fi.module.classes and f.value.id not in fi.module.assigns:
                fq = self.repo.resolve(fi.module, d)  # `module.function(...)`
                if fq and fq.startswith("werkzeug."):
                    callee = self.repo.try_func(fq)
                    if callee is not None:
                        args, kwargs = self._args(c, env, fi, depth)
                        return self.call(callee, args, kwargs, depth + 1)
                    cls = self.repo.try_cls(fq)
                    if cls is not None:
                        return self._construct(cls, c, env, fi, depth)
                raise _Unmodelled(f"`{norm(c)[:60]}`")
            recv = self.ev(f.value, env, fi, depth)
            if isinstance(recv, Opaque):
                raise _Unmodelled(f"the result of `{norm(c)[:60]}` is used")
            return self.call_method(recv, c, env, fi, depth)
        raise _Unmodelled(f"`{norm(c)[:60]}`")


# ---------------------------------------------------------------------------
# the hold-back anchor as a table: its result on every argument made of line-break bytes and one other byte


class AnchorTable:
    """results of a hold-back anchor helper for every argument over `letters` (CR, LF, the bytes the helper names, one filler that
    stands for every other byte) up to a length that covers every order and adjacency of the last line-break bytes"""

    start_param: str | None = None  # the parameter that names the start of the scanned region, when the anchor takes one

    def __init__(self, fi: FuncInfo, letters: list[int], filler: int, results: dict[bytes, int]):
        self.fi, self.letters, self.filler, self.results = fi, letters, filler, results
        self.lower = min(results.values())

    def end_when_no_break(self, breaks: t.Iterable[int]) -> bool:
        """an argument without a line-break byte gives its length (nothing is held back)"""
        br = set(breaks)
        return all(r == len(s) for s, r in self.results.items() if not (set(s) & br))


def line_break_words(lang: Lang) -> set[bytes]:
    """the line breaks a word of the delimiter language can begin with (leading run of the bytes the words start with)"""
    br = lang.first_bytes()
    out = set()
    for w in lang.words:
        i = 0
        while i < len(w) and w[i] in br:
            i += 1
        out.add(w[:i])
    return out


def delimiter_start(s: bytes, lbw: set[bytes], breaks: set[int]) -> int:
    """where a delimiter that is not complete yet can begin at the end of s: the start of the longest suffix made of a line break
    of the delimiter's line-break class followed by bytes that are not line breaks, or of a proper beginning of such a line break
    at the very end; len(s) when s has no such suffix"""
    for i in range(len(s)):
        u = s[i:]
        j = 0
        while j < len(u) and u[j] in breaks:
            j += 1
        if j == 0 or any(b in breaks for b in u[j:]):
            continue
        h = u[:j]
        if h in lbw or (j == len(u) and any(w.startswith(h) for w in lbw)):
            return i
    return len(s)


def anchor_table(fi: FuncInfo) -> AnchorTable | None:
    cached = getattr(fi, "_c01_anchor_table", "?")
    if cached == "?":
        cached = _anchor_table(fi)
        fi._c01_anchor_table = cached  # type: ignore[attr-defined]
    return cached


def _anchor_table(fi: FuncInfo) -> AnchorTable | None:
    """None = not a hold-back anchor the table can decide: more than one parameter, a construct outside the evaluated subset, a
    numeric threshold the table's lengths do not cover, a result that is not a position in the argument (-1 .. len) or that does not
    depend on the argument's content"""
    import itertools

    a = fi.node.args  # type: ignore[attr-defined]
    decs = {d.rsplit(".", 1)[-1] for d in fi.decorators}
    pos = [x.arg for x in a.posonlyargs + a.args]
    if fi.cls is not None and "staticmethod" not in decs and pos:
        pos = pos[1:]
    # a second parameter (positional or keyword-only) may name where the scanned region starts: `anchor(data, start)` instead of
    # `anchor(data[start:]) + start`.  It is accepted when the table confirms exactly that reading (see below).
    start_param: str | None = None
    if len(pos) == 2 and not a.kwonlyargs:
        start_param = pos[1]
    elif len(pos) == 1 and len(a.kwonlyargs) == 1:
        start_param = a.kwonlyargs[0].arg
    if len(pos) not in (1, 2) or (len(pos) == 2 and a.kwonlyargs) or len(a.kwonlyargs) > 1 or a.vararg or a.kwarg or isinstance(fi.node, ast.AsyncFunctionDef):
        return None
    named: set[int] = set()
    for x in ast.walk(fi.node):
        if isinstance(x, ast.Constant):
            if isinstance(x.value, bytes):
                named |= set(x.value)
            elif isinstance(x.value, int) and not isinstance(x.value, bool) and abs(x.value) > 2:
                if x.value not in (0x0A, 0x0D):  # the code of a line-break byte; any other number may be a threshold the table's lengths do not reach
                    return None
    letters = sorted({0x0A, 0x0D} | named)
    filler = next(b for b in (0x78, 0x79, 0x7A, 0x77, 0x76) if b not in letters)
    letters.append(filler)
    if len(letters) > 4:
        return None
    maxlen = 6 if len(letters) <= 3 else 5
    me = MiniEval(fi.module.repo)
    results: dict[bytes, int] = {}
    try:
        for n in range(maxlen + 1):
            for tup in itertools.product(letters, repeat=n):
                s = bytes(tup)
                me.steps = 0
                v = me.call(fi, [s], {start_param: 0} if start_param else None)
                if not isinstance(v, int) or isinstance(v, bool) or not -1 <= v <= len(s):
                    return None
                results[s] = v
        if start_param:
            # anchor(data, k) == anchor(data[k:], 0) + k for every table argument and every k: the function of the region alone
            for s, v in list(results.items()):
                for k in range(1, len(s) + 1):
                    me.steps = 0
                    if me.call(fi, [s], {start_param: k}) != results[s[k:]] + k:
                        return None
    except (_Unmodelled, _PyRaise):
        return None
    by_len: dict[int, set[int]] = {}
    for s, v in results.items():
        by_len.setdefault(len(s), set()).add(v)
    if all(len(vs) == 1 for vs in by_len.values()):
        return None  # a function of the length alone: not an anchor
    tab = AnchorTable(fi, letters, filler, results)
    tab.start_param = start_param
    return tab


# ---------------------------------------------------------------------------
# feeding and draining the decoder: which class can the last value returned by
# next_event() have when the next chunk is fed / when the function returns?
#
# Abstract interpretation of the function that owns the decoder (and of the package
# helpers it hands the decoder to) over facts
#     (locals holding the last event, its class, murky, boolean locals computed from it)
# Every test is evaluated on its *meaning* for the class of the event: isinstance with a
# class / tuple / union, `type(e) is C`, `e is CONSTANT`, flags computed earlier
# (`done = isinstance(...)`), predicates extracted into a helper, and/or/not, walrus.
# The loop shape does not matter (while-cond, while True + break, prime-and-refetch,
# generator helper, bound-method alias).

EV_START = "<nothing fed yet>"
EV_NOFETCH = "<fed, next_event not called since>"
_BOTH = frozenset({True, False})


class EvFact(t.NamedTuple):
    names: frozenset  # locals that hold the value next_event() returned last
    cls: str  # its class (a name of the universe), EV_START or EV_NOFETCH
    murky: bool  # something on the path that may depend on the event's class was not understood
    env: frozenset  # (local, bool): boolean locals whose value on this path is known
    ret: bool = False  # exit facts: the function returns the event itself


class FlowResult:
    def __init__(self) -> None:
        self.exit: set[EvFact] = set()
        self.yields: set[tuple[EvFact, bool]] = set()  # (fact, the yielded value is the event)
        self.ret_truth: set[bool] = set()
        self.ret_murky = False


def _uncast(v: ast.AST | None) -> ast.AST | None:
    while isinstance(v, ast.Call) and (dotted(v.func) or "").endswith("cast") and len(v.args) == 2:
        v = v.args[1]
    return v


class EventFlow:
    def __init__(self, repo, dec_cls: ClassInfo, fetch: str = "next_event", feed: str = "receive_data"):
        self.repo, self.dec_cls, self.fetch, self.feed = repo, dec_cls, fetch, feed
        fi = dec_cls.methods.get(fetch)
        if fi is None:
            raise AnalysisError(f"{dec_cls.name}.{fetch} not found")
        base = None
        ann = getattr(fi.node, "returns", None)
        if ann is not None and dotted(ann):
            fq = repo.resolve(fi.module, dotted(ann))
            base = repo.try_cls(fq) if fq else None
        if base is None:
            raise AnalysisError(f"{fi.loc()}: the return annotation of {fetch} does not name a class of the package: the set of event classes is not known")
        self.base = base
        self.universe: dict[str, set[str]] = {}  # class name -> names of the classes in its MRO
        for c in base.module.classes.values():
            names = {k.name for k in repo.mro(c)}
            if base.name in names:
                self.universe[c.name] = names
        self.module = base.module
        self.feed_arrivals: dict[tuple[str, int], tuple[FuncInfo, ast.Call, set[EvFact]]] = {}
        self.fetch_sites: dict[int, tuple[FuncInfo, ast.Call]] = {}
        self._memo: dict[tuple, FlowResult] = {}
        self._busy: set[tuple] = set()
        self._rds: dict[str, ReachingDefs] = {}
        self._bodies: dict[tuple[str, int], set[int]] = {}
        self._nested: dict[tuple[str, str], FuncInfo] = {}

    # -- small lookups ----------------------------------------------------------------
    def rd_of(self, fi: FuncInfo) -> ReachingDefs:
        rd = self._rds.get(fi.fq)
        if rd is None:
            rd = self._rds[fi.fq] = ReachingDefs(cfg_of(fi), fi.params)
        return rd

    def locals_of(self, fi: FuncInfo) -> set[str]:
        out = set(fi.params)
        for ds in self.rd_of(fi).gen.values():
            out |= {d.name for d in ds}
        return out

    def callee(self, fi: FuncInfo, call: ast.Call) -> FuncInfo | None:
        """the package function a call runs: ``self.m(...)`` / ``cls.m(...)`` / ``Class.m(...)`` of the function's class, or a module-level function"""
        f = call.func
        if isinstance(f, ast.Attribute) and isinstance(f.value, ast.Name) and fi.cls is not None and f.value.id in ("self", "cls", fi.cls.name):
            _, what = self.repo.lookup(fi.cls, f.attr)
            return what if isinstance(what, FuncInfo) else None
        d = dotted(f)
        if d and d.split(".")[0] not in self.locals_of(fi):
            fq = self.repo.resolve(fi.module, d)
            return self.repo.try_func(fq) if fq and fq.startswith("werkzeug") else None
        if isinstance(f, ast.Name):  # a function defined inside this one (it sees the same decoder through its closure)
            defs = [x for ds in self.rd_of(fi).gen.values() for x in ds if x.name == f.id]
            if len(defs) == 1 and defs[0].kind == "def" and f.id not in fi.params:
                key = (fi.fq, f.id)
                if key not in self._nested:
                    self._nested[key] = FuncInfo(fi.module, defs[0].stmt, f"{fi.qualname}.<locals>.{f.id}", fi.cls)  # type: ignore[arg-type]
                return self._nested[key]
        return None

    def is_dec(self, e: ast.AST | None, dec: str | None) -> bool:
        return dec is not None and e is not None and isinstance(e, (ast.Name, ast.Attribute)) and norm(e) == dec

    def dec_method(self, fi: FuncInfo, call: ast.Call, node: Node, dec: str | None) -> str | None:
        """``dec.m(...)`` or ``m(...)`` with ``m = dec.m`` -> "m" """
        f = call.func
        if isinstance(f, ast.Attribute) and self.is_dec(f.value, dec):
            return f.attr
        if isinstance(f, ast.Name):
            defs = self.rd_of(fi).reaching(node, f.id)
            if len(defs) == 1:
                d = next(iter(defs))
                v = _uncast(d.value)
                if d.kind == "assign" and d.index is None and isinstance(v, ast.Attribute) and self.is_dec(v.value, dec):
                    return v.attr
        return None

    def check_dec_stable(self, fi: FuncInfo, dec: str | None) -> None:
        if dec is None or "." in dec:
            return
        defs = [d for ds in self.rd_of(fi).gen.values() for d in ds if d.name == dec]
        if len(defs) + (1 if dec in fi.params else 0) > 1 or (not defs and dec not in fi.params and "<locals>" not in fi.qualname):
            raise AnalysisError(f"{fi.loc()}: `{dec}` (the decoder) is bound more than once in {fi.qualname}: not modelled")

    def classes_of(self, fi: FuncInfo, e: ast.AST, _depth: int = 0, module=None) -> list[str] | None:
        """class / tuple of classes / union of classes / module constant naming such a tuple -> names
        (None when one of them is not an event class).  ``module``: read the expression as written at the top of that module."""
        mod = module or fi.module
        if isinstance(e, (ast.Tuple, ast.List, ast.Set)):
            parts = [self.classes_of(fi, x, _depth, module) for x in e.elts]
        elif isinstance(e, ast.BinOp) and isinstance(e.op, ast.BitOr):
            parts = [self.classes_of(fi, e.left, _depth, module), self.classes_of(fi, e.right, _depth, module)]
        else:
            d = dotted(e)
            if not d or (module is None and d.split(".")[0] in self.locals_of(fi)):
                return None
            fq = self.repo.resolve(mod, d)
            c = self.repo.try_cls(fq) if fq else None
            if c is None and fq and fq.startswith("werkzeug") and _depth < 3:
                # a module-level constant that names the classes: `_TERMINAL = (Epilogue, NeedData)`
                mn, _, name = fq.rpartition(".")
                m = self.repo.modules.get(mn)
                vs = m.assigns.get(name) if m is not None else None
                if vs and len(vs) == 1:
                    return self.classes_of(fi, vs[0], _depth + 1, m)
            return [c.name] if c is not None and c.module is self.module and c.name in self.universe else None
        out: list[str] = []
        for p in parts:
            if p is None:
                return None
            out += p
        return out

    def const_class(self, fi: FuncInfo, e: ast.AST) -> str | None:
        """a module-level constant bound to ``C()`` with C an event class (``NEED_DATA``) -> C"""
        d = dotted(e)
        if not d or d.split(".")[0] in self.locals_of(fi):
            return None
        fq = self.repo.resolve(fi.module, d)
        if not fq or not fq.startswith("werkzeug"):
            return None
        mn, _, name = fq.rpartition(".")
        m = self.repo.modules.get(mn)
        vs = m.assigns.get(name) if m is not None else None
        v = vs[0] if vs and len(vs) == 1 else None
        if isinstance(v, ast.Call) and not v.args and not v.keywords:
            dd = dotted(v.func)
            fq2 = self.repo.resolve(m, dd) if dd else None
            c = self.repo.try_cls(fq2) if fq2 else None
            if c is not None and c.name in self.universe:
                return c.name
        return None

    @staticmethod
    def subject(e: ast.AST | None) -> str | None:
        e = _uncast(e)
        if isinstance(e, ast.NamedExpr):
            return e.target.id
        return e.id if isinstance(e, ast.Name) else None

    # -- truth of a condition for one fact ----------------------------------------------------------
    def truth(self, fi: FuncInfo, e: ast.AST, f: EvFact, depth: int = 0) -> tuple[frozenset, bool]:
        """(possible truth values, murky).  Conditions that do not talk about the event are (both, False)."""
        if isinstance(e, ast.BoolOp):
            is_and = isinstance(e.op, ast.And)
            acc, murky = frozenset({is_and}), False
            for v in e.values:
                vals, m = self.truth(fi, v, f, depth)
                acc = frozenset((a and b) if is_and else (a or b) for a in acc for b in vals)
                murky = murky or m
            return acc, murky and len(acc) > 1
        if isinstance(e, ast.UnaryOp) and isinstance(e.op, ast.Not):
            vals, m = self.truth(fi, e.operand, f, depth)
            return frozenset(not v for v in vals), m
        if isinstance(e, ast.Constant):
            return frozenset({bool(e.value)}), False
        if isinstance(e, ast.NamedExpr):
            return self.truth(fi, e.value, f, depth)
        if isinstance(e, ast.IfExp):
            tv, tm = self.truth(fi, e.test, f, depth)
            vals: set[bool] = set()
            murky = tm
            for b in tv:
                v2, m2 = self.truth(fi, e.body if b else e.orelse, f, depth)
                vals |= v2
                murky = murky or m2
            return frozenset(vals), murky and len(vals) > 1
        if isinstance(e, ast.Name):
            for k, v in f.env:
                if k == e.id:
                    return frozenset({v}), False
            return _BOTH, False
        names = f.names
        if isinstance(e, ast.Call):
            fn = e.func
            if isinstance(fn, ast.Name) and fn.id == "isinstance" and len(e.args) == 2 and not e.keywords and "isinstance" not in self.locals_of(fi):
                if self.subject(e.args[0]) in names:
                    cs = self.classes_of(fi, e.args[1])
                    if cs is None or f.cls not in self.universe:
                        return _BOTH, True
                    return frozenset({any(c in self.universe[f.cls] for c in cs)}), False
                return _BOTH, False
            about = [i for i, a in enumerate(e.args) if self.subject(a) in names] + [k.arg for k in e.keywords if self.subject(k.value) in names]
            if about:
                callee = self.callee(fi, e)
                binding = bind_args(callee, e) if callee is not None else None
                if callee is None or binding is None or depth > 3:
                    return _BOTH, True
                params = frozenset(p for p, a in binding.items() if self.subject(a) in names)
                res = self.flow(callee, None, frozenset({EvFact(params, f.cls, False, frozenset())}), depth + 1)
                if not res.ret_truth:
                    return _BOTH, True
                return frozenset(res.ret_truth), res.ret_murky and len(res.ret_truth) > 1
            return _BOTH, False
        if isinstance(e, ast.Compare) and len(e.ops) == 1:
            op, lhs, rhs = e.ops[0], _uncast(e.left), _uncast(e.comparators[0])
            neg = isinstance(op, (ast.IsNot, ast.NotEq, ast.NotIn))

            def type_of_subject(x: ast.AST | None) -> bool:
                if isinstance(x, ast.Call) and isinstance(x.func, ast.Name) and x.func.id == "type" and len(x.args) == 1 and self.subject(x.args[0]) in names:
                    return True
                return isinstance(x, ast.Attribute) and x.attr == "__class__" and self.subject(x.value) in names

            if isinstance(op, (ast.Is, ast.IsNot, ast.Eq, ast.NotEq)):
                for a, b in ((lhs, rhs), (rhs, lhs)):
                    if type_of_subject(a):
                        cs = self.classes_of(fi, b) if not isinstance(b, (ast.Tuple, ast.List, ast.Set)) else None
                        if cs is None or f.cls not in self.universe:
                            return _BOTH, True
                        return frozenset({(f.cls in cs) != neg}), False
                    if self.subject(a) in names:
                        c = self.const_class(fi, b)
                        if c is None or f.cls not in self.universe:
                            return _BOTH, True
                        # the constant is an instance of c: an event of another class is not it; one of that class may be
                        return (_BOTH, False) if c in self.universe[f.cls] else (frozenset({neg}), False)
            if isinstance(op, (ast.In, ast.NotIn)) and isinstance(rhs, (ast.Tuple, ast.List, ast.Set)):
                if type_of_subject(lhs):
                    cs = self.classes_of(fi, rhs)
                    if cs is None or f.cls not in self.universe:
                        return _BOTH, True
                    return frozenset({(f.cls in cs) != neg}), False
                if self.subject(lhs) in names:
                    cs2 = [self.const_class(fi, x) for x in rhs.elts]
                    if not all(cs2) or f.cls not in self.universe:
                        return _BOTH, True
                    return (_BOTH, False) if any(c in self.universe[f.cls] for c in cs2) else (frozenset({neg}), False)  # type: ignore[operator]
            if self.subject(lhs) in names or self.subject(rhs) in names or type_of_subject(lhs) or type_of_subject(rhs):
                return _BOTH, True
        if isinstance(e, ast.Attribute) and self.subject(e.value) in names:
            kind, const = self.attr_kind(f.cls, e.attr)
            if kind == "const":
                return frozenset({bool(const)}), False
            return _BOTH, kind != "field"
        # anything else: attributes of the event that are instance data do not depend on its class; other uses are not understood
        for x in ast.walk(e):
            if isinstance(x, ast.Attribute) and self.subject(x.value) in names and self.attr_kind(f.cls, x.attr)[0] != "field":
                return _BOTH, True
        return _BOTH, False

    def attr_kind(self, cls: str, attr: str) -> tuple[str, t.Any]:
        """what `event.<attr>` is for an event of class cls: ("field", None) instance data declared by an annotation,
        ("const", value) a class-level constant, ("other", None) a property / method / unknown"""
        c = self.module.classes.get(cls)
        if c is None:
            return "other", None
        for k in self.repo.mro(c):
            if not isinstance(k, ClassInfo):
                continue
            for st in k.node.body:
                if isinstance(st, ast.AnnAssign) and isinstance(st.target, ast.Name) and st.target.id == attr:
                    return "field", None
                if isinstance(st, ast.Assign) and any(isinstance(tg, ast.Name) and tg.id == attr for tg in st.targets):
                    return ("const", st.value.value) if isinstance(st.value, ast.Constant) else ("other", None)
                if isinstance(st, (ast.FunctionDef, ast.AsyncFunctionDef)) and st.name == attr:
                    return "other", None
        return "other", None

    # -- one node -----------------------------------------------------------------------------
    def _roots(self, n: Node) -> list[ast.AST]:
        a = n.ast
        if a is None or n.kind not in ("stmt", "test", "loop", "with") or isinstance(a, (ast.FunctionDef, ast.AsyncFunctionDef, ast.ClassDef)):
            return []
        if n.kind == "loop":
            return [a.iter]  # type: ignore[attr-defined]
        if n.kind == "with":
            return [it.context_expr for it in a.items]  # type: ignore[attr-defined]
        return [a]

    def _loop_body_ids(self, fi: FuncInfo, loop: ast.AST) -> set[int]:
        key = (fi.fq, id(loop))
        if key not in self._bodies:
            cfg = cfg_of(fi)
            ids: set[int] = set()
            for st in loop.body:  # type: ignore[attr-defined]
                for x in ast.walk(st):
                    for nn in cfg.by_ast.get(id(x), []):
                        ids.add(nn.id)
            self._bodies[key] = ids
        return self._bodies[key]

    def generator_call(self, fi: FuncInfo, n: Node, dec: str | None) -> tuple[FuncInfo, str | None, ast.Call] | None:
        """the loop node iterates over a package generator that is handed the decoder"""
        if n.kind != "loop":
            return None
        it = _uncast(n.ast.iter)  # type: ignore[union-attr]
        if isinstance(it, ast.Name):
            defs = self.rd_of(fi).reaching(n, it.id)
            if len(defs) == 1 and next(iter(defs)).kind == "assign" and next(iter(defs)).index is None:
                it = _uncast(next(iter(defs)).value)
        if not isinstance(it, ast.Call):
            return None
        callee = self.callee(fi, it)
        if callee is None or not any(isinstance(x, (ast.Yield, ast.YieldFrom)) for x in walk_no_nested(callee.node)):
            return None
        p = self.dec_param(fi, callee, it, dec)
        if p is None:
            return None
        return callee, p, it

    def sentinel_fetch(self, fi: FuncInfo, n: Node, dec: str | None) -> str | None:
        """loop over ``iter(dec.next_event, CONSTANT)`` -> class of the constant"""
        it = _uncast(n.ast.iter) if n.kind == "loop" else None  # type: ignore[union-attr]
        if isinstance(it, ast.Call) and isinstance(it.func, ast.Name) and it.func.id == "iter" and len(it.args) == 2 and not it.keywords and "iter" not in self.locals_of(fi):
            m, stop = it.args
            if isinstance(m, ast.Attribute) and m.attr == self.fetch and self.is_dec(m.value, dec):
                return self.const_class(fi, stop)
        return None

    def dec_param(self, fi: FuncInfo, callee: FuncInfo, call: ast.Call, dec: str | None) -> str | None:
        """name under which the callee knows the decoder (None: it is not handed the decoder)"""
        if dec is None:
            return None
        binding = bind_args(callee, call)
        if binding is not None:
            ps = [p for p, a in binding.items() if self.is_dec(a, dec)]
            if len(ps) == 1:
                return ps[0]
        if "<locals>" in callee.qualname and callee.qualname.startswith(fi.qualname + ".") and dec not in callee.params:
            if any(isinstance(x, (ast.Name, ast.Attribute)) and norm(x) == dec for x in walk_no_nested(callee.node)):
                return dec  # closure over the same variable
        if dec.startswith("self.") and callee.cls is not None and fi.cls is not None and isinstance(call.func, ast.Attribute) and isinstance(call.func.value, ast.Name) and call.func.value.id == "self":
            if any(isinstance(x, ast.Attribute) and norm(x) == dec for x in walk_no_nested(callee.node)):
                return dec
        return None

    def transfer(self, fi: FuncInfo, n: Node, facts: frozenset, dec: str | None, res: FlowResult, depth: int) -> frozenset:
        roots = self._roots(n)
        if not roots:
            return facts
        rd = self.rd_of(fi)
        calls = [c for root in roots for c in [root, *walk_no_nested(root)] if isinstance(c, ast.Call)]
        calls.sort(key=lambda c: (getattr(c, "end_lineno", 0), getattr(c, "end_col_offset", 0)))
        produced: set[int] = set()  # calls whose value is the event
        handled: set[int] = set()  # mentions of the decoder that are understood
        gen = self.generator_call(fi, n, dec)
        if self.sentinel_fetch(fi, n, dec) is not None:
            handled.add(id(n.ast.iter.args[0]))  # type: ignore[union-attr]
            self.fetch_sites[id(n.ast.iter)] = (fi, n.ast.iter)  # type: ignore[union-attr]
        for c in calls:
            m = self.dec_method(fi, c, n, dec)
            if m is not None and isinstance(c.func, ast.Attribute):
                handled.add(id(c.func.value))
            if m == self.fetch:
                self.fetch_sites[id(c)] = (fi, c)
                envs = {f.env for f in facts}
                facts = frozenset(EvFact(frozenset(), k, False, env) for k in self.universe for env in envs)
                produced.add(id(c))
                continue
            if m == self.feed:
                key = (fi.fq, id(c))
                self.feed_arrivals.setdefault(key, (fi, c, set()))[2].update(facts)
                facts = frozenset(EvFact(frozenset(), EV_NOFETCH, False, f.env) for f in facts)
                continue
            if m is not None:
                continue  # another method of the decoder: no effect on what next_event returned last
            if gen is not None and c is gen[2]:
                for a in [*c.args, *[k.value for k in c.keywords]]:
                    if self.is_dec(a, dec):
                        handled.add(id(a))
                continue  # handled on the loop edges
            callee = self.callee(fi, c)
            if callee is None:
                continue
            p = self.dec_param(fi, callee, c, dec)
            if p is None:
                continue
            for a in [*c.args, *[k.value for k in c.keywords]]:
                if self.is_dec(a, dec):
                    handled.add(id(a))
            if any(isinstance(x, (ast.Yield, ast.YieldFrom)) for x in walk_no_nested(callee.node)):
                facts = frozenset(f._replace(murky=True) for f in facts)  # a generator driven by hand: not modelled
                continue
            sub = self.flow(callee, p, frozenset(f._replace(names=frozenset(), env=frozenset()) for f in facts), depth + 1)
            facts = frozenset(f._replace(names=frozenset(), env=frozenset()) for f in sub.exit)
            if any(f.ret for f in facts):
                produced.add(id(c))
        # the decoder used in a way that is not understood (stored, passed to code outside the package, ...)
        if dec is not None:
            for root in roots:
                for x in [root, *walk_no_nested(root)]:
                    if self.is_dec(x, dec) and isinstance(getattr(x, "ctx", None), ast.Load) and id(x) not in handled:
                        par = getattr(x, "_parent", None)
                        if isinstance(par, ast.Attribute) and par.value is x:
                            gp = getattr(par, "_parent", None)
                            if par.attr in (self.fetch, self.feed) and not (isinstance(gp, ast.Call) and gp.func is par) and id(par) not in handled \
                                    and not (isinstance(gp, (ast.Assign, ast.AnnAssign)) and gp.value is par):
                                facts = frozenset(f._replace(murky=True) for f in facts)  # the bound method escapes (iter(), map(), partial())
                            continue  # attribute read / method call on the decoder
                        facts = frozenset(f._replace(murky=True) for f in facts)
        # bindings
        fetched_here = bool(produced)
        bound = False
        for d in rd.gen[n.id]:
            v = _uncast(d.value)
            if d.kind in ("assign", "walrus") and d.index is None and v is not None and id(v) in produced:
                facts = frozenset(
                    f._replace(names=(f.names | {d.name}) if (f.ret or id(v) in self.fetch_sites) else f.names - {d.name}, ret=False,
                               env=frozenset(kv for kv in f.env if kv[0] != d.name)) for f in facts)
                bound = True
                continue
            out = set()
            for f in facts:
                if d.kind == "assign" and d.index is None and isinstance(v, ast.Name) and v.id in f.names:
                    out.add(f._replace(names=f.names | {d.name}))  # a copy of the event
                    continue
                f = f._replace(names=f.names - {d.name}, env=frozenset(kv for kv in f.env if kv[0] != d.name))
                about = v is not None and d.kind in ("assign", "walrus") and d.index is None and (
                    (isinstance(v, ast.Constant) and isinstance(v.value, bool))
                    or any(isinstance(x, ast.Name) and (x.id in f.names or any(k == x.id for k, _ in f.env)) for x in [v, *ast.walk(v)]))
                if about:
                    vals, mk = self.truth(fi, v, f, depth)  # type: ignore[arg-type]
                    if len(vals) == 1:  # an undetermined flag takes both edges of its tests anyway
                        f = f._replace(env=f.env | {(d.name, next(iter(vals)))})
                    elif mk:
                        f = f._replace(murky=True)
                out.add(f)
            facts = frozenset(out)
        facts = frozenset(f._replace(ret=False) for f in facts)
        a = n.ast
        if produced and isinstance(a, ast.Assign) and id(_uncast(a.value)) in produced and any(not isinstance(tg, ast.Name) for tg in a.targets):
            facts = frozenset(f._replace(murky=True) for f in facts)  # the event is also stored where tests on it are not followed
        if isinstance(a, ast.Return) or (isinstance(a, ast.Expr) and isinstance(a.value, (ast.Yield, ast.YieldFrom))):
            val = _uncast(a.value if isinstance(a, ast.Return) else a.value.value)  # type: ignore[union-attr]
            direct = val is not None and id(val) in produced
            if isinstance(a, ast.Return):
                out2 = set()
                for f in facts:
                    is_ev = direct or (val is not None and self.subject(val) in f.names)
                    if val is not None:
                        vals, mk = self.truth(fi, val, f, depth)
                        res.ret_truth |= set(vals)
                        res.ret_murky = res.ret_murky or mk
                    else:
                        res.ret_truth.add(False)
                    out2.add(f._replace(ret=is_ev))
                facts = frozenset(out2)
                bound = bound or direct
            elif isinstance(a.value, ast.Yield):  # type: ignore[union-attr]
                for f in facts:
                    res.yields.add((f, direct or (val is not None and self.subject(val) in f.names)))
                bound = bound or direct
            else:
                facts = frozenset(f._replace(murky=True) for f in facts)
        elif any(isinstance(x, (ast.Yield, ast.YieldFrom)) for root in roots for x in [root, *walk_no_nested(root)]):
            facts = frozenset(f._replace(murky=True) for f in facts)  # a yield inside a larger expression: not modelled
        if fetched_here and not bound:
            # the value is not bound to a local (used in place, stored elsewhere): tests on it cannot be followed afterwards
            facts = frozenset(f._replace(murky=True) if not f.names else f for f in facts)
        return facts

    # -- one function -----------------------------------------------------------------------------
    def flow(self, fi: FuncInfo, dec: str | None, entry: frozenset, depth: int = 0) -> FlowResult:
        mk = (fi.fq, dec, entry)
        if mk in self._memo:
            return self._memo[mk]
        if depth > 4 or (fi.fq, dec) in self._busy:
            raise AnalysisError(f"{fi.loc()}: helper chain around the decoder is recursive or too deep: not modelled")
        self._busy.add((fi.fq, dec))
        try:
            self.check_dec_stable(fi, dec)
            cfg = cfg_of(fi)
            res = FlowResult()
            inn: dict[int, frozenset] = {n.id: frozenset() for n in cfg.nodes}
            inn[cfg.entry.id] = entry
            work = [cfg.entry]
            steps = 0
            while work:
                steps += 1
                if steps > 20000:
                    raise AnalysisError(f"{fi.loc()}: event-class flow did not converge")
                n = work.pop()
                before = inn[n.id]
                facts = self.transfer(fi, n, before, dec, res, depth)
                edge: dict[str | None, frozenset] = {}
                gen = self.generator_call(fi, n, dec)
                if gen is not None:
                    callee, p, call = gen
                    sub = self.flow(callee, p, frozenset(f._replace(names=frozenset(), env=frozenset()) for f in facts), depth + 1)
                    tgt = n.ast.target  # type: ignore[union-attr]
                    tname = frozenset({tgt.id}) if isinstance(tgt, ast.Name) else frozenset()
                    touched = any(self.is_dec(x, dec) for st in n.ast.body for x in ast.walk(st))  # type: ignore[union-attr]
                    edge["T"] = frozenset(f._replace(names=tname if is_ev else frozenset(), env=frozenset(), murky=f.murky or touched or not is_ev or not tname, ret=False) for f, is_ev in sub.yields)
                    edge["F"] = frozenset(f._replace(names=frozenset(), env=frozenset(), murky=f.murky or touched, ret=False) for f in sub.exit)
                elif n.kind == "loop" and self.sentinel_fetch(fi, n, dec) is not None:
                    # `for e in iter(dec.next_event, CONSTANT)`: one call per iteration, the loop ends when the constant comes back
                    stop_cls = self.sentinel_fetch(fi, n, dec)
                    tgt = n.ast.target  # type: ignore[union-attr]
                    tname = frozenset({tgt.id}) if isinstance(tgt, ast.Name) else frozenset()
                    envs = {f.env for f in facts} or {frozenset()}
                    edge["T"] = frozenset(EvFact(tname, k, not tname, env) for k in self.universe for env in envs) if facts else frozenset()
                    edge["F"] = frozenset(EvFact(frozenset(), stop_cls, False, env) for env in envs) if facts else frozenset()
                elif n.kind == "test":
                    yes, no = set(), set()
                    for f in facts:
                        vals, mky = self.truth(fi, n.ast, f, depth)  # type: ignore[arg-type]
                        g = f._replace(murky=f.murky or mky)
                        # a flag tested by name is known on each edge afterwards
                        if True in vals:
                            yes.add(g)
                        if False in vals:
                            no.add(g)
                    edge["T"], edge["F"] = frozenset(yes), frozenset(no)
                for s, l in n.succs:
                    if l == "raise":
                        continue
                    if l in edge:
                        f = edge[l]
                    elif l == "exc":
                        f = before | facts
                    else:
                        f = facts
                    if s.kind == "loop" and self.generator_call(fi, s, dec) is not None and n.id in self._loop_body_ids(fi, s.ast):  # type: ignore[arg-type]
                        continue  # the body of a loop over a generator ended: the generator resumes (followed inside the generator)
                    if not f <= inn[s.id]:
                        inn[s.id] = inn[s.id] | f
                        work.append(s)
            res.exit = set(inn[cfg.exit.id])
            if any(not (p.kind == "stmt" and isinstance(p.ast, ast.Return)) for p, _ in cfg.exit.preds):
                res.ret_truth.add(False)  # falls off the end: returns None
        finally:
            self._busy.discard((fi.fq, dec))
        self._memo[mk] = res
        return res


# ---------------------------------------------------------------------------
# the chunk reader: what has happened to the result of the last read when the next read is
# made / when the generator ends?
#
# facts: (locals holding the last read result, status, boolean locals computed from it) with status
#   "none"     nothing read yet
#   "empty"    the last read returned no bytes
#   "pending"  the last read returned bytes that have not been yielded (unmodified) yet
#   "yielded"  the last read returned bytes and they were yielded unmodified
# A read is a call through a parameter of the generator (the read function itself, a method of the
# stream, a local alias of either), also as the callable of `iter(callable, b"")`.

RD_NONE, RD_EMPTY, RD_PENDING, RD_YIELDED = "none", "empty", "pending", "yielded"


class RdFact(t.NamedTuple):
    names: frozenset
    status: str
    env: frozenset


class ReadFlow:
    def __init__(self, fi: FuncInfo):
        self.fi = fi
        self.cfg = cfg_of(fi)
        self.rd = ReachingDefs(self.cfg, fi.params)
        self.locals = set(fi.params)
        for ds in self.rd.gen.values():
            self.locals |= {d.name for d in ds}
        self.reads: dict[int, ast.AST] = {}  # read sites
        self.data_yields: dict[int, ast.AST] = {}  # yields of the unmodified read result
        self.other_yields: dict[int, ast.AST] = {}  # yields of something else that is not None
        self.end_yields: dict[int, ast.AST] = {}  # yield None
        self.dropped: dict[int, tuple[ast.AST, str]] = {}  # where a pending (non-empty, not yielded) read result is lost
        self.exit_status: set[str] = set()
        self.tests: dict[int, str] = {}  # emptiness tests understood
        self.other_tests: dict[int, str] = {}
        self._run()

    # -- reads ----------------------------------------------------------------------------------
    def _through_param(self, f: ast.AST, node: Node, depth: int = 0) -> bool:
        """is the callable a parameter, a method of a parameter, or a local alias of one?"""
        if isinstance(f, ast.Attribute):
            return isinstance(f.value, ast.Name) and self._is_param(f.value.id, node)
        if isinstance(f, ast.Name):
            if self._is_param(f.id, node):
                return True
            defs = self.rd.reaching(node, f.id)
            if len(defs) == 1 and depth < 3:
                d = next(iter(defs))
                if d.kind == "assign" and d.index is None and d.value is not None and d.node is not None and isinstance(d.value, (ast.Name, ast.Attribute)):
                    return self._through_param(d.value, d.node, depth + 1)
        return False

    def _is_param(self, name: str, node: Node) -> bool:
        defs = self.rd.reaching(node, name)
        return name in self.fi.params and bool(defs) and all(d.kind == "param" for d in defs)

    def is_read(self, c: ast.AST, node: Node) -> bool:
        return isinstance(c, ast.Call) and self._through_param(c.func, node)

    def sentinel_reads(self, e: ast.AST | None, node: Node) -> bool:
        """``iter(<callable that performs one read>, b"")``"""
        if not (isinstance(e, ast.Call) and isinstance(e.func, ast.Name) and e.func.id == "iter" and "iter" not in self.locals and len(e.args) == 2 and not e.keywords):
            return False
        fn, stop = e.args
        if not (isinstance(stop, ast.Constant) and stop.value == b""):
            return False
        if isinstance(fn, ast.Lambda) and not fn.args.args and not fn.args.vararg and not fn.args.kwarg:
            return self.is_read(fn.body, node)
        if isinstance(fn, ast.Call) and (dotted(fn.func) or "").rsplit(".", 1)[-1] == "partial" and fn.args:
            return self._through_param(fn.args[0], node)
        return False

    # -- conditions -------------------------------------------------------------------------------
    @staticmethod
    def _subject(e: ast.AST | None) -> str | None:
        e = _uncast(e)
        while isinstance(e, ast.Call) and isinstance(e.func, ast.Name) and e.func.id in ("bytes", "bytearray", "memoryview") and len(e.args) == 1:
            e = e.args[0]
        if isinstance(e, ast.NamedExpr):
            return e.target.id
        return e.id if isinstance(e, ast.Name) else None

    def truth(self, e: ast.AST, f: RdFact) -> tuple[frozenset, bool]:
        """(possible truth values, the condition is an emptiness test of the read result)"""
        if isinstance(e, ast.BoolOp):
            is_and = isinstance(e.op, ast.And)
            acc, und = frozenset({is_and}), False
            for v in e.values:
                vals, u = self.truth(v, f)
                acc = frozenset((a and b) if is_and else (a or b) for a in acc for b in vals)
                und = und or u
            return acc, und
        if isinstance(e, ast.UnaryOp) and isinstance(e.op, ast.Not):
            vals, u = self.truth(e.operand, f)
            return frozenset(not v for v in vals), u
        if isinstance(e, ast.Constant):
            return frozenset({bool(e.value)}), False
        if isinstance(e, ast.Name) and e.id not in f.names:
            for k, v in f.env:
                if k == e.id:
                    return frozenset({v}), True
            return _BOTH, False
        if f.status in (RD_NONE,):
            return _BOTH, False
        empty = f.status == RD_EMPTY
        if self._subject(e) in f.names:  # truthiness of the bytes read
            return frozenset({not empty}), True
        if isinstance(e, ast.Compare) and len(e.ops) == 1:
            lhs, op, rhs = _uncast(e.left), type(e.ops[0]), _uncast(e.comparators[0])
            flip = {ast.Gt: ast.Lt, ast.Lt: ast.Gt, ast.GtE: ast.LtE, ast.LtE: ast.GtE}
            if isinstance(lhs, ast.Constant):
                lhs, rhs, op = rhs, lhs, flip.get(op, op)
            c = rhs.value if isinstance(rhs, ast.Constant) else None
            if isinstance(lhs, ast.Call) and isinstance(lhs.func, ast.Name) and lhs.func.id == "len" and len(lhs.args) == 1 and self._subject(lhs.args[0]) in f.names \
                    and isinstance(c, int) and not isinstance(c, bool):
                lo, hi = (0, 0) if empty else (1, None)  # range of len(result)
                table = {
                    ast.Eq: lambda x: x == c, ast.NotEq: lambda x: x != c, ast.Lt: lambda x: x < c,
                    ast.LtE: lambda x: x <= c, ast.Gt: lambda x: x > c, ast.GtE: lambda x: x >= c,
                }
                if op in table:
                    samples = [0] if empty else [1, max(c, 1), max(c, 1) + 1, max(c, 1) + 2]
                    vals = frozenset(bool(table[op](x)) for x in samples)
                    return vals, True
            if self._subject(lhs) in f.names and isinstance(c, (bytes, bytearray)) and len(c) == 0 and op in (ast.Eq, ast.NotEq):
                return frozenset({empty == (op is ast.Eq)}), True
        return _BOTH, False

    # -- the run ----------------------------------------------------------------------------------
    def _mentions(self, e: ast.AST, f: RdFact) -> bool:
        return any(isinstance(x, ast.Name) and (x.id in f.names or any(k == x.id for k, _ in f.env)) for x in ast.walk(e))

    def _roots(self, n: Node) -> list[ast.AST]:
        a = n.ast
        if a is None or n.kind not in ("stmt", "test", "loop", "with") or isinstance(a, (ast.FunctionDef, ast.AsyncFunctionDef, ast.ClassDef)):
            return []
        if n.kind == "loop":
            return [a.iter]  # type: ignore[attr-defined]
        if n.kind == "with":
            return [it.context_expr for it in a.items]  # type: ignore[attr-defined]
        return [a]

    def _lose(self, facts: frozenset, where: ast.AST, why: str) -> None:
        if any(f.status == RD_PENDING for f in facts):
            self.dropped.setdefault(id(where), (where, why))

    def transfer(self, n: Node, facts: frozenset) -> frozenset:
        roots = self._roots(n)
        if not roots:
            return facts
        sentinel_loop = n.kind == "loop" and self.sentinel_reads(n.ast.iter, n)  # type: ignore[union-attr]
        inner = [x for root in roots for x in [root, *walk_no_nested(root)]]
        calls = [c for c in inner if isinstance(c, ast.Call)]
        calls.sort(key=lambda c: (getattr(c, "end_lineno", 0), getattr(c, "end_col_offset", 0)))
        produced: set[int] = set()
        for c in calls:
            if not sentinel_loop and self.is_read(c, n):
                self.reads[id(c)] = c
                self._lose(facts, c, "read again before the bytes of the previous read were yielded")
                envs = {f.env for f in facts} or {frozenset()}
                facts = frozenset(RdFact(frozenset(), st, env) for st in (RD_EMPTY, RD_PENDING) for env in envs)
                produced.add(id(c))
        # bindings
        for d in self.rd.gen[n.id]:
            v = _uncast(d.value)
            if d.kind in ("assign", "walrus") and d.index is None and v is not None and id(v) in produced:
                facts = frozenset(f._replace(names=f.names | {d.name}, env=frozenset(kv for kv in f.env if kv[0] != d.name)) for f in facts)
                continue
            out = set()
            for f in facts:
                if d.kind == "assign" and d.index is None and self._subject(v) in f.names and self._subject(v) is not None and not isinstance(v, ast.NamedExpr):
                    out.add(f._replace(names=f.names | {d.name}))
                    continue
                f = f._replace(names=f.names - {d.name}, env=frozenset(kv for kv in f.env if kv[0] != d.name))
                if v is not None and d.kind in ("assign", "walrus") and d.index is None and ((isinstance(v, ast.Constant) and isinstance(v.value, bool)) or self._mentions(v, f)):
                    vals, und = self.truth(v, f)
                    if len(vals) == 1 and (und or isinstance(v, ast.Constant)):
                        f = f._replace(env=f.env | {(d.name, next(iter(vals)))})
                out.add(f)
            facts = frozenset(out)
        # yields
        for y in inner:
            if isinstance(y, ast.YieldFrom):
                if self.sentinel_reads(_uncast(y.value), n):
                    self.reads[id(y.value)] = y.value
                    self._lose(facts, y, "read again before the bytes of the previous read were yielded")
                    self.data_yields[id(y)] = y
                    facts = frozenset(RdFact(frozenset(), RD_EMPTY, f.env) for f in facts)
                else:
                    self.other_yields[id(y)] = y
            elif isinstance(y, ast.Yield):
                val = y.value
                if val is None or (isinstance(val, ast.Constant) and val.value is None):
                    self.end_yields[id(y)] = y
                    continue
                direct = id(_uncast(val)) in produced
                if direct or any(self._subject(val) in f.names for f in facts if self._subject(val) is not None):
                    self.data_yields[id(y)] = y
                    facts = frozenset(f._replace(status=RD_YIELDED) if f.status == RD_PENDING and (direct or self._subject(val) in f.names) else f for f in facts)
                else:
                    self.other_yields[id(y)] = y
        return facts

    def _run(self) -> None:
        cfg = self.cfg
        inn: dict[int, frozenset] = {n.id: frozenset() for n in cfg.nodes}
        inn[cfg.entry.id] = frozenset({RdFact(frozenset(), RD_NONE, frozenset())})
        work = [cfg.entry]
        steps = 0
        while work:
            steps += 1
            if steps > 20000:
                raise AnalysisError(f"{self.fi.loc()}: read-status flow did not converge")
            n = work.pop()
            before = inn[n.id]
            facts = self.transfer(n, before)
            edge: dict[str | None, frozenset] = {}
            if n.kind == "loop" and self.sentinel_reads(n.ast.iter, n):  # type: ignore[union-attr]
                it = n.ast.iter  # type: ignore[union-attr]
                self.reads[id(it)] = it
                self._lose(facts, it, "read again before the bytes of the previous read were yielded")
                tgt = n.ast.target  # type: ignore[union-attr]
                tname = frozenset({tgt.id}) if isinstance(tgt, ast.Name) else frozenset()
                envs = {f.env for f in facts}
                edge["T"] = frozenset(RdFact(tname, RD_PENDING, env) for env in envs)
                edge["F"] = frozenset(RdFact(frozenset(), RD_EMPTY, env) for env in envs)
                self.tests[id(it)] = norm(it)
            elif n.kind == "test":
                yes, no = set(), set()
                for f in facts:
                    vals, und = self.truth(n.ast, f)  # type: ignore[arg-type]
                    if und:
                        self.tests[id(n.ast)] = norm(n.ast)  # type: ignore[arg-type]
                    elif self._mentions(n.ast, f):  # type: ignore[arg-type]
                        self.other_tests[id(n.ast)] = norm(n.ast)  # type: ignore[arg-type]
                    if True in vals:
                        yes.add(f)
                    if False in vals:
                        no.add(f)
                edge["T"], edge["F"] = frozenset(yes), frozenset(no)
            for s, l in n.succs:
                if l == "raise":
                    continue
                f = edge[l] if l in edge else (before | facts) if l == "exc" else facts
                if not f <= inn[s.id]:
                    inn[s.id] = inn[s.id] | f
                    work.append(s)
        end = inn[cfg.exit.id]
        self.exit_status = {f.status for f in end}
        self._lose(end, self.fi.node, "the generator ends before the bytes of the last read were yielded")


# ---------------------------------------------------------------------------
# R1.8: path executor.  The entry method is run from every protocol state with the helpers that touch the
# state / the buffer inlined; along a path the protocol state is concrete, locals hold symbolic values (pure
# boolean structure over opaque tokens - one token per binding site of a value that is not understood), and
# every condition that is pure over tokens is decided once per path (so `more = m is None` ... `if m is not
# None` ... `if more` agree).  Conditions that read attributes or call something are followed both ways.


class PathState:
    __slots__ = ("state", "val", "events")

    def __init__(self, state: str, val: dict[str, bool] | None = None, events: tuple = ()):
        self.state = state
        self.val = dict(val or {})
        self.events = events

    def copy(self) -> "PathState":
        return PathState(self.state, self.val, self.events)


class PathExec:
    MAX_VISITS = 4

    def __init__(self, repo, roles: Roles, ts: Typestate, splitter: FuncInfo, lower_of: dict[int, ast.AST | None], limit: int = 60000):
        self.repo, self.r, self.ts, self.splitter, self.lower_of = repo, roles, ts, splitter, lower_of
        self.limit = limit
        self.steps = 0
        self.origin: dict[str, ast.AST] = {}

    # -- symbolic values ----------------------------------------------------------------------------------
    def _member_attr(self, m: str) -> ast.AST:
        return ast.Attribute(value=ast.Name(id=self.r.enum, ctx=ast.Load()), attr=m, ctx=ast.Load())

    def _is_member(self, e: ast.AST) -> str | None:
        if isinstance(e, ast.Attribute) and isinstance(e.value, ast.Name) and e.value.id == self.r.enum and e.attr in self.r.members:
            return e.attr
        return None

    def pure(self, e: ast.AST | None) -> bool:
        if e is None or isinstance(e, (ast.Constant, ast.Name)):
            return True
        if isinstance(e, ast.Attribute):
            return self._is_member(e) is not None
        if isinstance(e, ast.Compare):
            return self.pure(e.left) and all(self.pure(c) for c in e.comparators)
        if isinstance(e, ast.BoolOp):
            return all(self.pure(v) for v in e.values)
        if isinstance(e, ast.UnaryOp):
            return self.pure(e.operand)
        if isinstance(e, ast.IfExp):
            return self.pure(e.test) and self.pure(e.body) and self.pure(e.orelse)
        if isinstance(e, (ast.Tuple, ast.List, ast.Set)):
            return all(self.pure(x) for x in e.elts)
        if self._bool_call(e) is not None:
            return self.pure(self._bool_call(e))
        return False

    @staticmethod
    def _bool_call(e: ast.AST | None) -> ast.AST | None:
        """``bool(x)`` -> x"""
        if isinstance(e, ast.Call) and isinstance(e.func, ast.Name) and e.func.id == "bool" and len(e.args) == 1 and not e.keywords:
            return e.args[0]
        return None

    @staticmethod
    def _boolean_shaped(e: ast.AST) -> bool:
        return isinstance(e, (ast.Compare, ast.BoolOp)) or (isinstance(e, ast.UnaryOp) and isinstance(e.op, ast.Not)) or PathExec._bool_call(e) is not None \
            or (isinstance(e, ast.Constant) and isinstance(e.value, bool))

    def token(self, name: str, fi: FuncInfo, site: ast.AST | None, value: ast.AST | None, tag: str = "") -> ast.AST:
        tid = f"{name}@{fi.name}:{getattr(site, 'lineno', 0)}{tag}"
        if value is not None:
            self.origin[tid] = value
        return ast.Name(id=tid, ctx=ast.Load())

    def storable(self, v: ast.AST, name: str, fi: FuncInfo, site: ast.AST | None, tag: str = "") -> ast.AST:
        if self.pure(v):
            return v
        if isinstance(v, ast.Tuple) and not any(isinstance(x, ast.Starred) for x in v.elts):  # a tuple stays a tuple of values
            return ast.Tuple(elts=[self.storable(x, name, fi, site, f"{tag}[{i}]") for i, x in enumerate(v.elts)], ctx=ast.Load())
        return self.token(name, fi, site, v, tag)

    def expand(self, e: ast.AST | None, fi: FuncInfo, env: dict[str, ast.AST], cv: dict[int, ast.AST], ps: PathState) -> ast.AST | None:
        """the expression with locals replaced by their symbolic values, the protocol state by its current member, inlined
        calls by what they returned on this path, casts removed"""
        if e is None:
            return None
        if isinstance(e, ast.Name):
            return env.get(e.id, e) if isinstance(e.ctx, ast.Load) else e
        if isinstance(e, ast.Constant):
            return e
        if isinstance(e, ast.Call):
            if id(e) in cv:
                return cv[id(e)]
            if (dotted(e.func) or "").endswith("cast") and len(e.args) == 2 and not e.keywords:
                return self.expand(e.args[1], fi, env, cv, ps)
        if is_self_attr(e, self.r.state) and isinstance(e.ctx, ast.Load):  # type: ignore[attr-defined]
            return self._member_attr(ps.state)
        if isinstance(e, ast.NamedExpr):
            v = self.expand(e.value, fi, env, cv, ps)
            assert v is not None
            v = self.storable(v, e.target.id, fi, e)
            env[e.target.id] = v
            return v
        if isinstance(e, (ast.Lambda, ast.ListComp, ast.SetComp, ast.DictComp, ast.GeneratorExp)):
            return e
        if isinstance(e, ast.Subscript) and isinstance(e.ctx, ast.Load) and not isinstance(e.slice, (ast.Slice, ast.Constant)):
            # `TABLE[self.state]` with TABLE a literal dict keyed by the members (written in place, or a constant of the module / class):
            # the entry of the current state
            m = self._is_member(self.expand(e.slice, fi, env, cv, ps))  # type: ignore[arg-type]
            table: ast.AST | None = e.value
            if isinstance(table, ast.Name) and table.id not in env and table.id not in fi.params \
                    and not any(isinstance(x, ast.Name) and x.id == table.id and isinstance(x.ctx, ast.Store) for x in walk_no_nested(fi.node)):  # type: ignore[union-attr]
                vs = fi.module.assigns.get(table.id)
                table = vs[0] if vs and len(vs) == 1 else None
            elif isinstance(table, ast.Attribute) and isinstance(table.value, ast.Name) and table.value.id in ("self", "cls", self.r.cls.name) and table.attr in self.r.cls.attrs \
                    and not any(is_self_attr(x, table.attr) and isinstance(x.ctx, ast.Store) for f in self.r.cls.methods.values() for x in walk_no_nested(f.node)):  # type: ignore[attr-defined]
                table = self.r.cls.attrs[table.attr]
            if m is not None and isinstance(table, ast.Dict) and all(k is not None and self._is_member(k) is not None for k in table.keys):
                hits = [v for k, v in zip(table.keys, table.values) if self._is_member(k) == m]  # type: ignore[arg-type]
                if len(hits) == 1 and (isinstance(hits[0], ast.Constant) or self._is_member(hits[0]) is not None):
                    return hits[0]
        if isinstance(e, ast.Subscript) and isinstance(e.ctx, ast.Load) and isinstance(e.slice, ast.Constant) and isinstance(e.slice.value, int):
            base = self.expand(e.value, fi, env, cv, ps)
            if isinstance(base, ast.Tuple) and -len(base.elts) <= e.slice.value < len(base.elts) and not any(isinstance(x, ast.Starred) for x in base.elts):
                return base.elts[e.slice.value]  # `res = helper(...)` ... `res[2]`
            return ast.Subscript(value=base, slice=e.slice, ctx=e.ctx)
        if isinstance(e, ast.Attribute) and isinstance(e.ctx, ast.Load) and isinstance(e.value, ast.Name) and e.value.id in env:
            base = env[e.value.id]
            made = self.origin.get(base.id) if isinstance(base, ast.Name) else None
            if isinstance(made, ast.Call) and not any(isinstance(a, ast.Starred) for a in made.args) and all(k.arg for k in made.keywords):
                d = dotted(made.func)
                fq = self.repo.resolve(fi.module, d) if d else None
                c = self.repo.try_cls(fq) if fq else None
                if c is not None and c.module is self.r.cls.module and "dataclass" in " ".join(norm(x) for x in c.node.decorator_list):
                    fields = [st.target.id for k in reversed(self.repo.mro(c)) if isinstance(k, ClassInfo) for st in k.node.body if isinstance(st, ast.AnnAssign) and isinstance(st.target, ast.Name)]
                    given = dict(zip(fields, made.args))
                    given.update({k.arg: k.value for k in made.keywords})  # type: ignore[misc]
                    if e.attr in given:
                        return given[e.attr]  # a field of an event built on this path, as it was given to the constructor
        kw: dict[str, t.Any] = {}
        for f, v in ast.iter_fields(e):
            if isinstance(v, list):
                kw[f] = [self.expand(x, fi, env, cv, ps) if isinstance(x, ast.AST) else x for x in v]
            elif isinstance(v, ast.AST) and not isinstance(v, (ast.expr_context, ast.operator, ast.boolop, ast.unaryop, ast.cmpop)):
                kw[f] = self.expand(v, fi, env, cv, ps)
            else:
                kw[f] = v
        return type(e)(**kw)

    # -- truth ---------------------------------------------------------------------------------------------
    def _members_of(self, e: ast.AST, fi: FuncInfo) -> list[str] | None:
        if isinstance(e, ast.Name):
            vs = fi.module.assigns.get(e.id)
            if vs and len(vs) == 1:
                e = vs[0]
        elif isinstance(e, ast.Attribute) and isinstance(e.value, ast.Name) and e.value.id in ("self", "cls", self.r.cls.name) and e.attr in self.r.cls.attrs \
                and not any(is_self_attr(x, e.attr) and isinstance(x.ctx, ast.Store) for f in self.r.cls.methods.values() for x in walk_no_nested(f.node)):  # type: ignore[attr-defined]
            e = self.r.cls.attrs[e.attr]
        return enum_members(e, self.r.enum, self.r.members)

    def truth(self, e: ast.AST, fi: FuncInfo, ps: PathState) -> list[tuple[bool, PathState]]:
        """possible truth values of an expanded condition, each with the path state that records the decision"""
        self._tick()
        if isinstance(e, ast.Constant):
            return [(bool(e.value), ps)]
        if isinstance(e, ast.UnaryOp) and isinstance(e.op, ast.Not):
            return [(not b, p) for b, p in self.truth(e.operand, fi, ps)]
        if isinstance(e, ast.BoolOp):
            is_and = isinstance(e.op, ast.And)
            done: list[tuple[bool, PathState]] = []
            cur = [ps]
            for v in e.values:
                nxt = []
                for p in cur:
                    for b, p2 in self.truth(v, fi, p):
                        if b != is_and:
                            done.append((b, p2))  # short circuit
                        else:
                            nxt.append(p2)
                cur = nxt
            return done + [(is_and, p) for p in cur]
        if isinstance(e, ast.IfExp):
            out = []
            for b, p in self.truth(e.test, fi, ps):
                out += self.truth(e.body if b else e.orelse, fi, p)
            return out
        if self._bool_call(e) is not None:
            return self.truth(self._bool_call(e), fi, ps)  # type: ignore[arg-type]
        if isinstance(e, ast.Compare) and len(e.ops) == 1:
            op, lhs, rhs = e.ops[0], e.left, e.comparators[0]
            neg = isinstance(op, (ast.NotEq, ast.IsNot, ast.NotIn))
            if isinstance(op, (ast.Eq, ast.Is, ast.NotEq, ast.IsNot)):
                for x, y in ((lhs, rhs), (rhs, lhs)):  # `flag is True` / `flag == False` with flag a condition
                    if isinstance(y, ast.Constant) and isinstance(y.value, bool) and self._boolean_shaped(x) and not isinstance(x, ast.Constant):
                        return [((b == y.value) != neg, p) for b, p in self.truth(x, fi, ps)]
                a, b = self._is_member(lhs), self._is_member(rhs)
                if a is not None and b is not None:
                    return [((a == b) != neg, ps)]
                if isinstance(lhs, ast.Constant) and isinstance(rhs, ast.Constant):
                    same = (lhs.value is rhs.value) if isinstance(op, (ast.Is, ast.IsNot)) else (lhs.value == rhs.value and type(lhs.value) is type(rhs.value))
                    return [(same != neg, ps)]
                if (a is not None and isinstance(rhs, ast.Constant)) or (b is not None and isinstance(lhs, ast.Constant)):
                    return [(neg, ps)]  # a member is not a literal
            if isinstance(op, (ast.In, ast.NotIn)):
                a = self._is_member(lhs)
                ms = self._members_of(rhs, fi)
                if a is not None and ms is not None:
                    return [((a in ms) != neg, ps)]
        if self.pure(e):
            k, pos = canon(e)
            if k in ps.val:
                return [(ps.val[k] == pos, ps)]
            out = []
            for b in (True, False):
                p = ps.copy()
                p.val[k] = (b == pos)
                out.append((b, p))
            return out
        return [(True, ps.copy()), (False, ps.copy())]

    def decided(self, e: ast.AST, fi: FuncInfo, ps: PathState) -> ast.AST:
        """a conditional expression whose test is already decided on this path -> the arm it selects"""
        while isinstance(e, ast.IfExp):
            if not self.pure(e.test):
                break
            probe = self.truth(e.test, fi, ps.copy())
            if len(probe) != 1:
                break
            e = e.body if probe[0][0] else e.orelse
        return e

    def _tick(self) -> None:
        self.steps += 1
        if self.steps > self.limit:
            raise AnalysisError(f"{self.r.entry.qualname}: more than {self.limit} steps while following the paths through the protocol states: not modelled")

    # -- calls that are followed ------------------------------------------------------------------------------
    def _inlined(self, fi: FuncInfo, c: ast.Call) -> FuncInfo | None:
        callee = self.ts._callee(fi, c)
        if callee is None or callee.module is not self.r.cls.module or not self.ts.relevant(callee):
            return None  # (helpers of other modules do not see the decoder)
        if any(isinstance(x, (ast.Yield, ast.YieldFrom)) for x in walk_no_nested(callee.node)):
            return None
        return callee

    def _run_calls(self, fi: FuncInfo, n: Node, roots: list[ast.AST], env: dict[str, ast.AST], ps: PathState, stack: tuple) -> list[tuple[dict[int, ast.AST], PathState]]:
        calls = [c for root in roots for c in [root, *walk_no_nested(root)] if isinstance(c, ast.Call) and self._inlined(fi, c) is not None]
        calls.sort(key=lambda c: (getattr(c, "end_lineno", 0), getattr(c, "end_col_offset", 0)))
        states: list[tuple[dict[int, ast.AST], PathState]] = [({}, ps)]
        for c in calls:
            callee = self._inlined(fi, c)
            assert callee is not None
            cur = getattr(c, "_parent", None)
            while cur is not None and not isinstance(cur, ast.stmt) and all(cur is not r for r in roots):
                if isinstance(cur, (ast.IfExp, ast.BoolOp, ast.ListComp, ast.SetComp, ast.DictComp, ast.GeneratorExp, ast.Lambda)):
                    raise AnalysisError(f"{fi.loc(c)}: `{norm(c)}` changes the decoder's state inside a conditional expression / comprehension: not modelled")
                cur = getattr(cur, "_parent", None)
            if len(stack) > 6 or any(f is callee for f, _, _ in stack) or callee is fi:
                raise AnalysisError(f"{fi.loc(c)}: recursive / too deeply nested helper `{callee.qualname}`: not modelled")
            binding = bind_args(callee, c)
            if binding is None:
                raise AnalysisError(f"{fi.loc(c)}: arguments of `{norm(c)}` cannot be bound to the parameters of {callee.qualname}")
            new: list[tuple[dict[int, ast.AST], PathState]] = []
            for cv, p in states:
                cenv: dict[str, ast.AST] = {}
                for prm, arg in binding.items():
                    v = self.expand(arg, fi, env, cv, p)
                    assert v is not None
                    cenv[prm] = self.storable(v, prm, callee, callee.node, ":arg")
                p2 = p.copy()
                if callee is self.splitter:
                    p2.events += (("call", id(c), fi, c),)
                for rv, p3 in self.run_func(callee, cenv, p2, stack + ((fi, c, n),)):
                    cv2 = dict(cv)
                    cv2[id(c)] = rv if rv is not None else ast.Constant(value=None)
                    new.append((cv2, p3))
            states = new
        return states

    # -- one function -----------------------------------------------------------------------------------------
    def _in_loop(self, fi: FuncInfo, n: Node, what: str) -> None:
        """the body of a `for` loop is followed once: an effect on the decoder in there is not modelled (a `while` loop is unrolled
        with the protocol state concrete, up to a bound)"""
        cur = getattr(n.ast, "_parent", None)
        while cur is not None and cur is not fi.node:
            if isinstance(cur, (ast.For, ast.AsyncFor)):
                raise AnalysisError(f"{fi.loc(n.ast)}: {what} inside a for loop: not modelled")
            cur = getattr(cur, "_parent", None)

    def run_func(self, fi: FuncInfo, env: dict[str, ast.AST], ps: PathState, stack: tuple = ()) -> list[tuple[ast.AST | None, PathState]]:
        """all normal exits: (returned value, path state)"""
        cfg = cfg_of(fi)
        results: list[tuple[ast.AST | None, PathState]] = []
        work: list[tuple[Node, dict[str, ast.AST], PathState, dict[int, int], ast.AST | None]] = [(cfg.entry, env, ps, {}, None)]
        while work:
            n, env, ps, visits, rv = work.pop()
            self._tick()
            if n is cfg.exit:
                results.append((rv, ps))
                continue
            if n is cfg.raise_exit:
                continue
            seen = visits.get(n.id, 0)
            if seen >= self.MAX_VISITS:
                raise AnalysisError(f"{fi.loc(n.ast)}: a loop of {fi.qualname} is run more than {self.MAX_VISITS - 1} times on a path through the protocol states: not modelled")
            visits = dict(visits)
            visits[n.id] = seen + 1
            for s, l in n.succs:
                if l == "exc":
                    work.append((s, dict(env), ps.copy(), visits, rv))
            for labels, env2, ps2, rv2 in self._step(fi, n, env, ps, stack, seen):
                for s, l in n.succs:
                    if l in ("exc", "raise"):
                        continue
                    if labels is None or l in labels:
                        work.append((s, dict(env2), ps2.copy(), visits, rv2 if rv2 is not None else rv))
        return results

    def _step(self, fi: FuncInfo, n: Node, env: dict[str, ast.AST], ps: PathState, stack: tuple, seen: int):
        a = n.ast
        if a is None or n.kind in ("entry", "join", "handler") or isinstance(a, (ast.FunctionDef, ast.AsyncFunctionDef, ast.ClassDef)):
            return [(None, env, ps, None)]
        if n.kind == "loop":
            out = []
            for cv, p in self._run_calls(fi, n, [a.iter], env, ps, stack):  # type: ignore[attr-defined]
                e2 = dict(env)
                for x in ast.walk(a.target):  # type: ignore[attr-defined]
                    if isinstance(x, ast.Name):
                        e2[x.id] = self.token(x.id, fi, a, None, ":for")
                out.append((("T", "F") if seen == 0 else ("F",), e2, p, None))
            return out
        if n.kind == "with":
            out = []
            for cv, p in self._run_calls(fi, n, [it.context_expr for it in a.items], env, ps, stack):  # type: ignore[attr-defined]
                e2 = dict(env)
                for it in a.items:  # type: ignore[attr-defined]
                    if it.optional_vars is not None:
                        for x in ast.walk(it.optional_vars):
                            if isinstance(x, ast.Name):
                                e2[x.id] = self.token(x.id, fi, a, None, ":with")
                out.append((None, e2, p, None))
            return out
        if n.kind == "test":
            out = []
            for cv, p in self._run_calls(fi, n, [a], env, ps, stack):
                e2 = dict(env)
                cond = self.expand(a, fi, e2, cv, p)
                assert cond is not None
                for b, p2 in self.truth(cond, fi, p):
                    out.append((("T",) if b else ("F",), e2, p2, None))
            return out
        # simple statement
        out = []
        for cv, p in self._run_calls(fi, n, [a], env, ps, stack):
            out += self._effect(fi, n, a, dict(env), cv, p, stack)
        return out

    def _assign_state(self, fi: FuncInfo, n: Node, a: ast.AST, value: ast.AST, env, cv, p: PathState, stack: tuple) -> list[PathState]:
        self._in_loop(fi, n, "assignment to the protocol state")
        v = self.expand(value, fi, env, cv, p)
        assert v is not None
        outs: list[PathState] = []

        def settle(x: ast.AST, q: PathState) -> None:
            m = self._is_member(x)
            if m is not None:
                q2 = q.copy()
                q2.state = m
                q2.events += (("state", m),)
                outs.append(q2)
            elif isinstance(x, ast.IfExp):
                for b, q2 in self.truth(x.test, fi, q):
                    settle(x.body if b else x.orelse, q2)
            else:
                vals = self.ts.state_values(fi, value, n, tuple(stack), keep_at=n)
                if not vals:
                    raise AnalysisError(f"{fi.loc(a)}: `{norm(a)}` assigns something other than a {self.r.enum} member")
                for m2 in sorted(vals):
                    q2 = q.copy()
                    if m2 != KEEP_STATE:
                        q2.state = m2
                        q2.events += (("state", m2),)
                    outs.append(q2)

        settle(v, p)
        return outs

    def _effect(self, fi: FuncInfo, n: Node, a: ast.AST, env: dict[str, ast.AST], cv: dict[int, ast.AST], p: PathState, stack: tuple):
        tgts: list[ast.AST] = []
        value: ast.AST | None = None
        if isinstance(a, ast.Assign):
            tgts, value = list(a.targets), a.value
        elif isinstance(a, ast.AnnAssign) and a.value is not None:
            tgts, value = [a.target], a.value
        elif isinstance(a, ast.AugAssign):
            if is_self_attr(a.target, self.r.state):
                raise AnalysisError(f"{fi.loc(a)}: augmented assignment to the protocol state is not modelled")
            if isinstance(a.target, ast.Name):
                env[a.target.id] = self.token(a.target.id, fi, a, None, ":aug")
        states: list[tuple[dict[str, ast.AST], PathState]] = [(env, p)]
        if value is not None:
            v = self.expand(value, fi, env, cv, p)
            assert v is not None
            states = []
            for x, q in [(self.decided(v, fi, p), p)]:
                e2 = dict(env)
                qs = [q]
                for tg in tgts:
                    if isinstance(tg, ast.Name):
                        e2[tg.id] = self.storable(x, tg.id, fi, a)
                    elif isinstance(tg, (ast.Tuple, ast.List)):
                        if any(is_self_attr(y, self.r.state) for y in ast.walk(tg)):
                            raise AnalysisError(f"{fi.loc(a)}: tuple assignment to the protocol state is not modelled")
                        flat = [y for y in tg.elts]
                        for i, y in enumerate(flat):
                            if isinstance(y, ast.Starred):
                                y = y.value
                            if isinstance(y, ast.Name):
                                if isinstance(x, (ast.Tuple, ast.List)) and len(x.elts) == len(flat) and not any(isinstance(z, ast.Starred) for z in x.elts + flat):
                                    e2[y.id] = self.storable(x.elts[i], y.id, fi, a, f":{i}")
                                else:
                                    e2[y.id] = self.token(y.id, fi, a, None, f":{i}")
                            else:
                                for z in ast.walk(y):
                                    if isinstance(z, ast.Name) and isinstance(z.ctx, ast.Store):
                                        e2[z.id] = self.token(z.id, fi, a, None, f":{i}")
                    elif is_self_attr(tg, self.r.state):
                        qs = [q3 for q2 in qs for q3 in self._assign_state(fi, n, a, value, env, cv, q2, stack)]
                states += [(e2, q2) for q2 in qs]
        out = []
        for e2, q in states:
            rv = None
            if isinstance(a, ast.Return):
                rv = self.expand(a.value, fi, e2, cv, q) if a.value is not None else ast.Constant(value=None)
                if fi is self.splitter:
                    if id(a) not in self.lower_of:
                        raise AnalysisError(f"{fi.loc(a)}: `{norm(a)}`: a return of {fi.qualname} whose payload is not understood")
                    lo = self.lower_of[id(a)]
                    lo = self.expand(lo, fi, e2, cv, q) if lo is not None else None
                    lo = self.decided(lo, fi, q) if lo is not None else None

                    def is_zero(x: ast.AST | None) -> bool:
                        return x is None or (isinstance(x, ast.Constant) and x.value == 0 and not isinstance(x.value, bool))

                    def arms_of(x: ast.AST | None) -> list[ast.AST | None]:
                        return arms_of(x.body) + arms_of(x.orelse) if isinstance(x, ast.IfExp) else [x]

                    zeros = {is_zero(x) for x in arms_of(lo)}
                    if len(zeros) > 1:
                        raise AnalysisError(f"{fi.loc(a)}: whether the payload starts behind a skipped line break (`{norm(lo)}`) depends on a condition that is open on this path: not modelled")
                    q3 = q.copy()
                    q3.events += (("ret", not zeros.pop(), norm(lo) if lo is not None else "0"),)
                    out.append((None, e2, q3, rv))
                    continue
            elif isinstance(a, ast.Expr):
                self.expand(a.value, fi, e2, cv, q)  # walrus bindings
            # buffer deletions
            if not isinstance(a, (ast.FunctionDef, ast.AsyncFunctionDef, ast.ClassDef)):
                for x in walk_no_nested(a):
                    if self.ts.is_buf(x, fi) and self.ts._buffer_effect_node(x) == "shift":
                        self._in_loop(fi, n, "deletion from the buffer")
                        amount: ast.AST | None = None
                        par = getattr(x, "_parent", None)
                        if isinstance(a, ast.Delete) and isinstance(par, ast.Subscript) and isinstance(par.slice, ast.Slice) and par.slice.step is None and par.slice.upper is not None \
                                and (par.slice.lower is None or (isinstance(par.slice.lower, ast.Constant) and par.slice.lower.value == 0)):
                            amount = self.expand(par.slice.upper, fi, e2, cv, q)
                        q = q.copy()
                        q.events += (("del", amount, fi, a),)
                        break
            out.append((None, e2, q, rv))
        return out

    # -- the entry method from one protocol state ---------------------------------------------------------------
    def paths_from(self, state: str) -> list[PathState]:
        return [p for _, p in self.run_func(self.r.entry, {}, PathState(state))]

    def deleted_nothing(self, amount: ast.AST | None, p: PathState) -> bool:
        """the deleted length is known to be 0 on this path"""
        if amount is None:
            return False
        if isinstance(amount, ast.Constant):
            return amount.value == 0
        if self.pure(amount):
            k, pos = canon(amount)
            return k in p.val and (p.val[k] == pos) is False
        return False


# ---------------------------------------------------------------------------
# R1.9: what the form parser does with the payload of a Data event.  A field's value must be a function of the
# concatenation of its payloads; the payload boundaries follow the read buffer size.  So every payload has to be
# collected as received (or through a byte-wise map), and the collected list may only be joined with an empty
# separator, element by element as they are.


class FieldFlow:
    ACC = {"append", "write", "extend"}
    IDENT = {"bytes", "bytearray", "memoryview"}
    BYTEWISE = {"upper", "lower", "swapcase", "translate", "hex"}  # c(a + b) == c(a) + c(b): not chunk dependent
    COPY = {"tobytes", "copy", "__bytes__", "toreadonly"}  # the same bytes again
    QUERY = {"startswith", "endswith", "find", "rfind", "index", "rindex", "count", "isascii", "isalnum", "isalpha", "isdigit", "isspace", "islower", "isupper", "istitle", "__len__"}

    def __init__(self, repo, flow: "EventFlow", owners: list[tuple[FuncInfo, str]]):
        self.repo, self.flow = repo, flow
        self.owners = owners
        self.cls_name, self.attr = self._payload_field()
        self.reads: list[dict[str, t.Any]] = []
        self.scope: list[FuncInfo] = []
        self._seen: set[tuple[str, frozenset]] = set()
        self._used: set[tuple[int, tuple]] = set()
        self.callsites: dict[str, list[tuple[FuncInfo, ast.Call]]] = {}
        todo: list[tuple[FuncInfo, str | None, frozenset]] = [(fi, d, frozenset()) for fi, d in owners]
        while todo:
            fi, dec, evp = todo.pop(0)
            if (fi.fq, evp) in self._seen or len(self._seen) > 40:
                continue
            self._seen.add((fi.fq, evp))
            if all(fi is not x for x in self.scope):
                self.scope.append(fi)
            todo += self._scan(fi, dec, evp)

    # -- which attribute of which event class is the payload -------------------------------------------------
    def _payload_field(self) -> tuple[str, str]:
        cands = []
        for name in sorted(self.flow.universe):
            c = self.flow.module.classes.get(name)
            if c is None:
                continue
            fields = [(st.target.id, norm(st.annotation)) for st in c.node.body if isinstance(st, ast.AnnAssign) and isinstance(st.target, ast.Name)]
            flags = [f for f, a in fields if a == "bool"]
            blobs = [f for f, a in fields if a in ("bytes", "bytearray", "memoryview")]
            if flags and len(blobs) == 1:
                cands.append((name, blobs[0]))
        if len(cands) != 1:
            raise AnalysisError(f"{self.flow.module.relpath}: expected one event class with a bytes payload and a `more data` flag, found {cands}")
        return cands[0]

    # -- which names hold an event ---------------------------------------------------------------------------
    def is_event(self, fi: FuncInfo, x: ast.AST, n: Node, dec: str | None, evp: frozenset, depth: int = 0) -> bool:
        x = _uncast(x)  # type: ignore[assignment]
        if isinstance(x, ast.NamedExpr):
            return self.is_event(fi, x.value, n, dec, evp, depth)
        if isinstance(x, ast.Call):
            if self.flow.dec_method(fi, x, n, dec) == self.flow.fetch:
                return True
            # a helper that is handed the decoder (argument, closure, attribute of self) and returns what next_event returned
            callee = self.flow.callee(fi, x) if depth <= 4 else None
            p = self.flow.dec_param(fi, callee, x, dec) if callee is not None else None
            if callee is None or p is None or any(isinstance(y, (ast.Yield, ast.YieldFrom)) for y in walk_no_nested(callee.node)):
                return False
            rets = [r for r in walk_no_nested(callee.node) if isinstance(r, ast.Return) and r.value is not None]
            ccfg = cfg_of(callee)
            return bool(rets) and all(ccfg.node_of(r) is not None and self.is_event(callee, r.value, ccfg.node_of(r), p, frozenset(), depth + 1) for r in rets)  # type: ignore[arg-type]
        if not isinstance(x, ast.Name) or depth > 4:
            return False
        # the name is known to hold a payload event: an isinstance test with the payload class dominates the read
        for tn, lab in cfg_of(fi).guards(n):
            a = tn.ast
            if tn.kind == "test" and lab == "T" and isinstance(a, ast.Call) and isinstance(a.func, ast.Name) and a.func.id == "isinstance" and len(a.args) == 2 \
                    and isinstance(_uncast(a.args[0]), ast.Name) and _uncast(a.args[0]).id == x.id:  # type: ignore[union-attr]
                cs = self.flow.classes_of(fi, a.args[1])
                if cs is not None and cs == [self.cls_name] and self.flow.rd_of(fi).reaching(tn, x.id) == self.flow.rd_of(fi).reaching(n, x.id):
                    return True
        for d in self.flow.rd_of(fi).reaching(n, x.id):
            if d.kind == "param" and x.id in evp:
                return True
            if d.kind in ("assign", "walrus") and d.index is None and d.value is not None and d.node is not None and self.is_event(fi, d.value, d.node, dec, evp, depth + 1):
                return True
            if d.kind == "for" and d.node is not None and d.index is None and (self.flow.sentinel_fetch(fi, d.node, dec) is not None or self.flow.generator_call(fi, d.node, dec) is not None):
                return True
        return False

    def _scan(self, fi: FuncInfo, dec: str | None, evp: frozenset) -> list[tuple[FuncInfo, str | None, frozenset]]:
        cfg = cfg_of(fi)
        more: list[tuple[FuncInfo, str | None, frozenset]] = []
        for x in walk_no_nested(fi.node):
            if isinstance(x, ast.Attribute) and x.attr == self.attr and isinstance(x.ctx, ast.Load) and isinstance(_uncast(x.value), (ast.Name, ast.NamedExpr)):
                n = cfg.node_of(x)
                if n is not None and self.is_event(fi, x.value, n, dec, evp):
                    rec = {"fi": fi, "node": x, "sinks": [], "neutral": [], "unknown": []}
                    self.reads.append(rec)
                    self.use(fi, x, (), rec, 0)
            if isinstance(x, ast.Call):
                n = cfg.node_of(x)
                callee = self.flow.callee(fi, x)
                if n is None or callee is None:
                    continue
                binding = bind_args(callee, x)
                if binding is None:
                    continue
                ps = frozenset(p for p, a in binding.items() if isinstance(_uncast(a), ast.Name) and self.is_event(fi, a, n, dec, evp))
                if ps:
                    more.append((callee, self.flow.dec_param(fi, callee, x, dec), ps))
                    self.callsites.setdefault(callee.fq, []).append((fi, x))
        return more

    def collectors(self, fi: FuncInfo, f: ast.AST, n: Node | None, depth: int = 0) -> list[tuple[FuncInfo, str]] | None:
        """the callable is a bound `append` / `write` / `extend` of something -> what it collects into.  Followed through a local
        that holds the bound method and through a parameter (read at every call site of the helper)"""
        f = _uncast(f)  # type: ignore[assignment]
        if isinstance(f, ast.Attribute) and f.attr in self.ACC:
            return [(fi, norm(_uncast(f.value)))]  # type: ignore[arg-type]
        if not isinstance(f, ast.Name) or n is None or depth > 3:
            return None
        defs = self.flow.rd_of(fi).reaching(n, f.id)
        out: list[tuple[FuncInfo, str]] = []
        for d in defs:
            got = None
            if d.kind == "assign" and d.index is None and d.value is not None:
                got = self.collectors(fi, d.value, d.node, depth + 1)
            elif d.kind == "param":
                got = []
                for cfi, call in self.callsites.get(fi.fq, []):
                    binding = bind_args(fi, call)
                    one = self.collectors(cfi, binding[f.id], cfg_of(cfi).node_of(call), depth + 1) if binding is not None and f.id in binding else None
                    if one is None:
                        got = None
                        break
                    got += one
                got = got or None
            if got is None:
                return None
            out += [g for g in got if all(g[0] is not o[0] or g[1] != o[1] for o in out)]
        return sorted(out, key=lambda g: (g[0].fq, g[1])) or None

    # -- what happens to a value that is (derived from) the payload ---------------------------------------------
    def use(self, fi: FuncInfo, e: ast.AST, via: tuple, rec: dict[str, t.Any], depth: int) -> None:
        key = (id(e), via)
        if key in self._used or depth > 12:
            return
        self._used.add(key)
        par = getattr(e, "_parent", None)
        cfg = cfg_of(fi)

        def sink(receiver: str | list[tuple[FuncInfo, str]], node: ast.AST) -> None:
            homes = [(fi, receiver)] if isinstance(receiver, str) else receiver
            rec["sinks"].append({"fi": fi, "node": node, "via": via, "receiver": " / ".join(sorted({r for _, r in homes})), "homes": homes})

        def unknown(why: str, node: ast.AST | None = None) -> None:
            rec["unknown"].append((fi, node or par or e, why))

        call = par
        if isinstance(par, ast.keyword):
            call = getattr(par, "_parent", None)
        if isinstance(call, ast.Call) and (any(e is a for a in call.args) or par is not call):
            f = call.func
            d = dotted(f) or ""
            n = cfg.node_of(call)
            if d == "len" or d == "isinstance" or d == "bool":
                rec["neutral"].append(norm(call))
            elif d in self.IDENT and len(call.args) == 1 and not call.keywords:
                self.use(fi, call, via, rec, depth + 1)
            elif d.endswith("cast") and len(call.args) == 2 and e is call.args[1]:
                self.use(fi, call, via, rec, depth + 1)
            elif d == "str" and (len(call.args) > 1 or call.keywords):
                self.use(fi, call, via + ("str(..., encoding)",), rec, depth + 1)
            elif d in ("codecs.decode",):
                self.use(fi, call, via + ("codecs.decode",), rec, depth + 1)
            elif self.collectors(fi, f, n) is not None:
                sink(self.collectors(fi, f, n) or [], call)
            else:
                callee = self.flow.callee(fi, call)
                binding = bind_args(callee, call) if callee is not None else None
                if callee is None or binding is None:
                    unknown(f"passed to `{norm(f)}`", call)
                    return
                ps = [p for p, a in binding.items() if a is e]
                self.callsites.setdefault(callee.fq, [])
                if all(call is not c for _, c in self.callsites[callee.fq]):
                    self.callsites[callee.fq].append((fi, call))
                rd2 = self.flow.rd_of(callee)
                ccfg = cfg_of(callee)
                for p in ps:
                    for x in walk_no_nested(callee.node):
                        if isinstance(x, ast.Name) and x.id == p and isinstance(x.ctx, ast.Load):
                            xn = ccfg.node_of(x)
                            if xn is not None and any(dd.kind == "param" for dd in rd2.reaching(xn, p)):
                                self.use(callee, x, via, rec, depth + 1)
                if all(callee is not s for s in self.scope):
                    self.scope.append(callee)
            return
        if isinstance(par, ast.Attribute) and par.value is e:
            gp = getattr(par, "_parent", None)
            if isinstance(gp, ast.Call) and gp.func is par:
                if par.attr in self.BYTEWISE or (par.attr in self.COPY and not gp.args and not gp.keywords):
                    self.use(fi, gp, via, rec, depth + 1)
                elif par.attr in self.QUERY:
                    rec["neutral"].append(norm(gp))
                else:
                    self.use(fi, gp, via + (par.attr,), rec, depth + 1)
            else:
                unknown(f"attribute `{par.attr}` of the payload is read")
            return
        if isinstance(par, ast.Subscript) and par.value is e:
            sl = par.slice
            full = isinstance(sl, ast.Slice) and sl.lower is None and sl.upper is None and sl.step is None
            self.use(fi, par, via if full else via + (f"[{norm(sl)}]",), rec, depth + 1)
            return
        if isinstance(par, ast.NamedExpr) and par.value is e:
            self._follow(fi, par.target.id, par, via, rec, depth)
            self.use(fi, par, via, rec, depth + 1)
            return
        if isinstance(par, (ast.Assign, ast.AnnAssign)) and par.value is e:
            tgts = par.targets if isinstance(par, ast.Assign) else [par.target]
            for tg in tgts:
                if isinstance(tg, ast.Name):
                    self._follow(fi, tg.id, par, via, rec, depth)
                elif isinstance(tg, (ast.Attribute, ast.Subscript)):
                    sink(norm(tg), par)
                else:
                    unknown("unpacked")
            return
        if isinstance(par, ast.AugAssign) and par.value is e:
            if isinstance(par.op, ast.Add):
                sink(norm(par.target), par)
            else:
                unknown(f"`{norm(par)}`")
            return
        if isinstance(par, ast.BinOp) and isinstance(par.op, ast.Add):
            other = par.right if par.left is e else par.left
            gp = getattr(par, "_parent", None)
            if isinstance(gp, ast.Assign) and len(gp.targets) == 1 and isinstance(gp.targets[0], (ast.Name, ast.Attribute)) and norm(gp.targets[0]) == norm(other) and par.left is other:
                sink(norm(other), gp)  # acc = acc + payload
            else:
                unknown(f"concatenated with other material: `{norm(par)}`")
            return
        if isinstance(par, ast.IfExp) and par.test is not e:
            self.use(fi, par, via, rec, depth + 1)
            return
        if isinstance(par, (ast.Compare, ast.BoolOp, ast.If, ast.While, ast.Assert, ast.Expr, ast.IfExp)) or (isinstance(par, ast.UnaryOp) and isinstance(par.op, ast.Not)):
            rec["neutral"].append(norm(par)[:60])
            return
        if isinstance(par, ast.FormattedValue):
            unknown("formatted into a string")
            return
        unknown(f"used in `{norm(par)[:80] if par is not None else '?'}`")

    def _follow(self, fi: FuncInfo, name: str, stmt: ast.AST, via: tuple, rec: dict[str, t.Any], depth: int) -> None:
        cfg = cfg_of(fi)
        rd = self.flow.rd_of(fi)
        sn = cfg.node_of(stmt)
        for x in walk_no_nested(fi.node):
            if isinstance(x, ast.Name) and x.id == name and isinstance(x.ctx, ast.Load):
                xn = cfg.node_of(x)
                if xn is not None and any(d.node is sn for d in rd.reaching(xn, name)):
                    self.use(fi, x, via, rec, depth + 1)

    # -- joins over the lists the payloads are collected in -------------------------------------------------------
    def list_receivers(self) -> dict[str, tuple[FuncInfo, ast.AST]]:
        """receivers of payload sinks that are locals bound to an empty list somewhere in their function"""
        out: dict[str, tuple[FuncInfo, ast.AST]] = {}
        for rec in self.reads:
            for s in rec["sinks"]:
                for fi, r in s["homes"]:
                    for d in [x for ds in self.flow.rd_of(fi).gen.values() for x in ds if x.name == r]:
                        v = _uncast(d.value)
                        if d.kind == "assign" and d.index is None and ((isinstance(v, ast.List) and not v.elts) or (isinstance(v, ast.Call) and dotted(v.func) == "list" and not v.args)):
                            out[f"{fi.fq}:{r}"] = (fi, d.stmt or v)
        return out

    def list_holders(self, fi0: FuncInfo, r0: str) -> list[tuple[FuncInfo, str]]:
        """the (function, name) pairs under which the collecting list is known: the local itself, a plain copy of it (`pieces = container`,
        casts looked through), the parameter of a package helper / nested function it is passed as (at any depth, also by keyword), and the
        same name inside a nested function that reads it through its closure"""
        out: list[tuple[FuncInfo, str]] = [(fi0, r0)]
        i = 0
        while i < len(out) and i < 24:
            fi, r = out[i]
            i += 1

            def add(f2: FuncInfo, name: str) -> None:
                if all(f2.fq != o[0].fq or name != o[1] for o in out):
                    out.append((f2, name))

            def is_r(x: ast.AST | None) -> bool:
                x = _uncast(x)
                while isinstance(x, ast.NamedExpr):
                    x = _uncast(x.value)
                return isinstance(x, ast.Name) and x.id == r

            for x in walk_no_nested(fi.node):
                if isinstance(x, (ast.Assign, ast.AnnAssign)) and x.value is not None and is_r(x.value):
                    for tg in (x.targets if isinstance(x, ast.Assign) else [x.target]):
                        if isinstance(tg, ast.Name):
                            add(fi, tg.id)
                elif isinstance(x, ast.NamedExpr) and is_r(x.value):
                    add(fi, x.target.id)
                elif isinstance(x, ast.Call):
                    callee = self.flow.callee(fi, x)
                    if callee is None:
                        continue
                    binding = bind_args(callee, x) or {}
                    for p, a in binding.items():
                        if is_r(a) and p in callee.params:
                            add(callee, p)
                    if "<locals>" in callee.qualname and r not in callee.params:
                        stored = {y.id for y in walk_no_nested(callee.node) if isinstance(y, ast.Name) and isinstance(y.ctx, (ast.Store, ast.Del))}
                        if r not in stored and any(isinstance(y, ast.Name) and y.id == r for y in walk_no_nested(callee.node)):
                            add(callee, r)
        return out

    def joins(self) -> list[dict[str, t.Any]]:
        """the `.join(...)` calls that consume a list the payloads are collected in, wherever the list has travelled to (see list_holders)"""
        recv = self.list_receivers()
        out: list[dict[str, t.Any]] = []
        done: set[int] = set()
        for key, (fi0, _) in sorted(recv.items()):
            r0 = key.rsplit(":", 1)[1]
            for fi, r in self.list_holders(fi0, r0):
                for c in walk_no_nested(fi.node):
                    if id(c) in done or not (isinstance(c, ast.Call) and isinstance(c.func, ast.Attribute) and c.func.attr == "join" and len(c.args) == 1 and not c.keywords):
                        continue
                    arg = _uncast(c.args[0])
                    if not any(isinstance(x, ast.Name) and x.id == r for x in [arg, *ast.walk(arg)]):  # type: ignore[arg-type]
                        continue
                    done.add(id(c))
                    if all(fi is not s_ for s_ in self.scope):
                        self.scope.append(fi)
                    out.append(self._join_record(fi, c, arg, r, r0))  # type: ignore[arg-type]
        return out

    def _join_record(self, fi: FuncInfo, c: ast.Call, arg: ast.AST, r: str, label: str) -> dict[str, t.Any]:
        sep = c.func.value  # type: ignore[attr-defined]
        if isinstance(sep, ast.Name) and sep.id not in self.flow.locals_of(fi):
            vs = fi.module.assigns.get(sep.id)
            if vs and len(vs) == 1:
                sep = vs[0]
        if isinstance(sep, ast.Constant) and isinstance(sep.value, (bytes, str)):
            sep_ok: bool | None = len(sep.value) == 0
        elif isinstance(sep, ast.Call) and dotted(sep.func) in ("bytes", "str", "bytearray") and not sep.args and not sep.keywords:
            sep_ok = True
        else:
            sep_ok = None
        elem: str | None = ""  # "" = the elements as they are, text = the transformation, None = not understood

        def unwrap(x: ast.AST | None) -> ast.AST | None:
            """copies that keep the elements and their order: tuple(x) / list(x) / iter(x), casts"""
            x = _uncast(x)
            while isinstance(x, ast.Call) and dotted(x.func) in ("tuple", "list", "iter") and len(x.args) == 1 and not x.keywords:
                x = _uncast(x.args[0])
            return x

        def piece(elt: ast.AST | None, var: str) -> str | None:
            """what is done to one element: "" = nothing (copies, byte-wise maps), text = a method / slice of the piece, None = not understood"""
            elt = _uncast(elt)
            while True:
                if isinstance(elt, ast.Call) and dotted(elt.func) in self.IDENT and len(elt.args) == 1 and not elt.keywords:
                    elt = _uncast(elt.args[0])
                elif isinstance(elt, ast.Call) and isinstance(elt.func, ast.Attribute) and elt.func.attr in self.BYTEWISE | self.COPY:
                    elt = _uncast(elt.func.value)
                else:
                    break
            if isinstance(elt, ast.Name) and elt.id == var:
                return ""
            x = elt
            while isinstance(x, (ast.Call, ast.Attribute, ast.Subscript)):  # a chain of methods / slices that starts at the piece
                x = _uncast(x.func if isinstance(x, ast.Call) else x.value)
            if isinstance(x, ast.Name) and x.id == var and isinstance(elt, (ast.Call, ast.Subscript)) and \
                    (isinstance(elt, ast.Subscript) or (isinstance(elt.func, ast.Attribute) and elt.func.attr not in self.QUERY)):
                return norm(elt)
            return None

        arg = unwrap(arg)  # type: ignore[assignment]
        if isinstance(arg, ast.Name):
            elem = ""
        elif isinstance(arg, ast.Call) and dotted(arg.func) == "map" and len(arg.args) == 2 and not arg.keywords \
                and isinstance(unwrap(arg.args[1]), ast.Name) and unwrap(arg.args[1]).id == r:  # type: ignore[union-attr]
            f = dotted(arg.args[0]) or ""
            if f in self.IDENT or (f.split(".")[0] in ("bytes", "bytearray") and f.split(".")[-1] in self.BYTEWISE):
                elem = ""
            elif f.split(".")[0] in ("bytes", "bytearray") and "." in f and f.split(".")[-1] not in self.QUERY:
                elem = f"{f}(piece)"  # map(bytes.strip, pieces)
            else:
                elem = None
        elif isinstance(arg, (ast.GeneratorExp, ast.ListComp)) and len(arg.generators) == 1 and isinstance(arg.generators[0].target, ast.Name) \
                and isinstance(unwrap(arg.generators[0].iter), ast.Name) and unwrap(arg.generators[0].iter).id == r:  # type: ignore[union-attr]
            g = arg.generators[0]
            var = g.target.id  # type: ignore[union-attr]
            elem = piece(arg.elt, var)
            for cond in g.ifs:
                q = _uncast(cond)
                if isinstance(q, ast.Call) and dotted(q.func) in ("len", "bool") and len(q.args) == 1:
                    q = _uncast(q.args[0])
                if isinstance(q, ast.Compare) and len(q.ops) == 1 and isinstance(q.ops[0], (ast.NotEq, ast.Gt)) and isinstance(q.comparators[0], ast.Constant) and q.comparators[0].value in (b"", 0):
                    q = _uncast(q.left)
                    if isinstance(q, ast.Call) and dotted(q.func) == "len" and len(q.args) == 1:
                        q = _uncast(q.args[0])
                if not (isinstance(q, ast.Name) and q.id == var):
                    elem = None  # a filter other than "drop the empty pieces" (which changes nothing when nothing is put in between)
        else:
            elem = None
        return {"fi": fi, "call": c, "receiver": label, "sep": sep, "sep_ok": sep_ok, "elem": elem}
