"""C01 helpers: finite regex languages with a symbolic boundary, affine folding of
length expressions, and a small typestate interpreter over the CFGs of a class.

Nothing here executes werkzeug.  The ``re`` engine is only run on a pattern folded
from the source against strings enumerated from that same pattern's syntax tree.
"""

from __future__ import annotations

import ast
import re
import typing as t

from ..cfg import CFG, Node, cfg_of
from ..dataflow import ReachingDefs
from ..fold import Folder, RegexConst, Unfoldable, class_of_items, sre_c, sre_parse
from ..loader import AnalysisError, ClassInfo, FuncInfo, dotted, is_self_attr, norm, walk_no_nested

# ---------------------------------------------------------------------------
# symbolic boundary: patterns are folded for a few concrete placeholder lengths
# and every derived quantity must be affine in that length

SAMPLE_N = (3, 7, 12)
PLACEHOLDER = b"Q"  # one byte that is neither a dash, a line break nor a blank
BLANKS = frozenset(b" \t\f\v")  # horizontal blanks: whitespace other than CR / LF


class Lin(t.NamedTuple):
    """a*n + c  (n = length of the boundary, n >= 1)"""

    a: int
    c: int

    def __str__(self) -> str:
        if self.a == 0:
            return str(self.c)
        s = "n" if self.a == 1 else f"{self.a}n"
        return s if self.c == 0 else f"{s}{self.c:+d}"

    def ge(self, other: "Lin") -> bool:
        """self(n) >= other(n) for every n >= 1"""
        return self.a >= other.a and self.a + self.c >= other.a + other.c

    def minus(self, k: int) -> "Lin":
        return Lin(self.a, self.c - k)


def fit(values: t.Sequence[int], what: str) -> Lin:
    (n0, n1, n2), (v0, v1, v2) = SAMPLE_N, values
    if (v1 - v0) % (n1 - n0):
        raise Unfoldable(f"{what} is not affine in the boundary length: {values}")
    a = (v1 - v0) // (n1 - n0)
    c = v0 - a * n0
    if a * n2 + c != v2:
        raise Unfoldable(f"{what} is not affine in the boundary length: {values}")
    return Lin(a, c)


# ---------------------------------------------------------------------------
# finite language of a folded bytes pattern (unbounded blank runs taken as empty)


class Lang:
    def __init__(self, rx: RegexConst, cap: int = 4096):
        if not isinstance(rx.pattern, bytes):
            raise Unfoldable("delimiter pattern is not a bytes pattern")
        self.rx = rx
        self.cap = cap
        self.blank_runs = 0
        self.parsed = rx.parsed()
        items = list(self.parsed)
        # leading items that may match empty (an optional line break before the first delimiter)
        i = 0
        while i < len(items) and b"" in self._item(*items[i]):
            i += 1
        self.opt = self._seq(items[:i])
        self.rest = self._seq(items[i:])
        self.words = {o + r for o in self.opt for r in self.rest}
        if len(self.words) > cap:
            raise Unfoldable("delimiter language too large")
        self.compiled = re.compile(rx.pattern, rx.flags)

    def _cls(self, av) -> set[int]:
        return class_of_items(av, self.rx.flags, True, 256)

    def _item(self, op, av) -> set[bytes]:
        if op is sre_c.LITERAL:
            return {bytes([av])}
        if op is sre_c.IN:
            members = self._cls(av)
            if len(members) > 8:
                raise Unfoldable("wide character class in a delimiter pattern")
            return {bytes([m]) for m in members}
        if op is sre_c.BRANCH:
            out: set[bytes] = set()
            for b in av[1]:
                out |= self._seq(list(b))
            return out
        if op is sre_c.SUBPATTERN:
            return self._seq(list(av[3]))
        if op in (sre_c.MAX_REPEAT, sre_c.MIN_REPEAT):
            lo, hi, sub = av
            if hi is sre_c.MAXREPEAT:
                items = list(sub)
                if lo == 0 and len(items) == 1 and items[0][0] is sre_c.IN and self._cls(items[0][1]) <= BLANKS | {0x1C, 0x1D, 0x1E, 0x1F, 0x85, 0xA0}:
                    # [^\S\n\r]* : optional run of horizontal blanks, outside the property's domain -> empty
                    self.blank_runs += 1
                    return {b""}
                raise Unfoldable("unbounded repeat other than an optional blank run in a delimiter pattern")
            base = self._seq(list(sub))
            out = set()
            cur = {b""}
            for k in range(0, int(hi) + 1):
                if k >= lo:
                    out |= cur
                cur = {x + y for x in cur for y in base}
                if len(cur) > self.cap:
                    raise Unfoldable("delimiter language too large")
            return out
        raise Unfoldable(f"regex construct {op} in a delimiter pattern")

    def _seq(self, items) -> set[bytes]:
        cur = {b""}
        for op, av in items:
            nxt = self._item(op, av)
            cur = {x + y for x in cur for y in nxt}
            if len(cur) > self.cap:
                raise Unfoldable("delimiter language too large")
        return cur

    # -- derived quantities ------------------------------------------------
    def max_width(self) -> int:
        return max(len(w) for w in self.words)

    def leading_optional(self) -> int:
        """max width of the leading items that may match empty."""
        return max(len(o) for o in self.opt)

    def window_need(self, skip_optional: bool) -> tuple[int, bytes]:
        """how many trailing bytes a failed search must keep so that the next search, started
        inside the kept tail, still finds a match that began in the old buffer: the longest
        proper prefix of a word in which the pattern does not match yet.  With skip_optional the
        optional leading part of that word need not be kept (starting inside or after it finds
        the same remainder: same end, same groups; only the match start moves)."""
        best, arg = 0, b""
        for o in self.opt:
            for r in self.rest:
                w = o + r
                for i in range(1, len(w)):
                    val = i - (min(len(o), i) if skip_optional else 0)
                    if val <= best:
                        continue
                    if self.compiled.search(w[:i]) is not None:
                        continue
                    best, arg = val, w[:i]
        return best, arg

    def first_bytes(self) -> set[int]:
        return {w[0] for w in self.words if w}

    def pending(self, must_contain: bytes | None = None, must_not_contain: bytes | None = None) -> tuple[int, bytes]:
        """longest proper, non-empty prefix of a word in which the pattern does not
        match yet (what may sit at the end of the buffer when the search failed),
        restricted by a fact known about the buffer."""
        best, arg = 0, b""
        for w in self.words:
            for i in range(1, len(w)):
                p = w[:i]
                if len(p) <= best:
                    continue
                if must_contain is not None and must_contain not in p:
                    continue
                if must_not_contain is not None and must_not_contain in p:
                    continue
                if self.compiled.search(p) is not None:
                    continue
                best, arg = len(p), p
        return best, arg


# ---------------------------------------------------------------------------
# affine expressions over symbols


class Aff:
    """sum(coef[s] * s) + const; symbols: "D" (len of the buffer), "n" (len of the
    boundary), "name:<local>" and "op:<text>" (opaque sub-expressions)."""

    def __init__(self, coef: dict[str, int] | None = None, const: int = 0):
        self.coef = {k: v for k, v in (coef or {}).items() if v}
        self.const = const

    def __add__(self, o: "Aff") -> "Aff":
        c = dict(self.coef)
        for k, v in o.coef.items():
            c[k] = c.get(k, 0) + v
        return Aff(c, self.const + o.const)

    def scale(self, k: int) -> "Aff":
        return Aff({s: v * k for s, v in self.coef.items()}, self.const * k)

    def __sub__(self, o: "Aff") -> "Aff":
        return self + o.scale(-1)

    def only(self, syms: t.Iterable[str]) -> bool:
        return set(self.coef) <= set(syms)

    def subst(self, sym: str, other: "Aff") -> "Aff":
        k = self.coef.get(sym, 0)
        rest = {s: v for s, v in self.coef.items() if s != sym}
        return Aff(rest, self.const) + other.scale(k)

    def lin(self) -> Lin:
        if not self.only({"n"}):
            raise NotAffine(f"{self} has symbols beyond the boundary length")
        return Lin(self.coef.get("n", 0), self.const)

    def __str__(self) -> str:
        parts = [f"{v:+d}*{k}" for k, v in sorted(self.coef.items())]
        return " ".join(parts + [f"{self.const:+d}"])


class NotAffine(Exception):
    pass


class AffEval:
    """fold integer expressions of one function into :class:`Aff`."""

    def __init__(self, fi: FuncInfo, folder: Folder, buffers: set[str], nattr: str, stop: set[str] = frozenset()):
        self.fi = fi
        self.folder = folder
        self.cfg = cfg_of(fi)
        self.rd = ReachingDefs(self.cfg, fi.params)
        self.buffers = buffers  # normalised texts that denote the receive buffer
        self.nattr = nattr  # self.<nattr> is the boundary
        self.stop = set(stop)  # locals kept symbolic
        self.opaque: dict[str, ast.AST] = {}

    # -- names ---------------------------------------------------------
    def single_def(self, name: str, node: Node):
        """the one assignment of local ``name`` visible at node, if its value means
        the same at node as where it was assigned."""
        defs = self.rd.reaching(node, name)
        if len(defs) != 1:
            return None
        d = next(iter(defs))
        if d.kind != "assign" or d.value is None or d.index is not None or d.node is None:
            return None
        for x in ast.walk(d.value):
            if isinstance(x, ast.Name) and x.id in self.fi_locals():
                if self.rd.reaching(d.node, x.id) != self.rd.reaching(node, x.id) and not (x.id == name):
                    return None
        return d

    def fi_locals(self) -> set[str]:
        c = getattr(self, "_locals", None)
        if c is None:
            c = set(self.fi.params)
            for ds in self.rd.gen.values():
                c |= {d.name for d in ds}
            self._locals = c
        return c

    def module_const(self, name: str):
        m = self.fi.module
        if name in self.fi_locals():
            return None
        if name in m.assigns or (name in m.imports and m.imports[name].startswith("werkzeug")):
            try:
                return self.folder.name(m, name)
            except Unfoldable:
                return None
        return None

    # -- bytes lengths -----------------------------------------------------
    def lenb(self, e: ast.AST, node: Node) -> Aff:
        if isinstance(e, ast.Constant) and isinstance(e.value, bytes):
            return Aff(const=len(e.value))
        if isinstance(e, ast.BinOp) and isinstance(e.op, ast.Add):
            return self.lenb(e.left, node) + self.lenb(e.right, node)
        if is_self_attr(e, self.nattr):
            return Aff({"n": 1})
        if norm(e) in self.buffers:
            return Aff({"D": 1})
        if isinstance(e, ast.Name):
            d = self.single_def(e.id, node)
            if d is not None:
                return self.lenb(d.value, d.node)
            v = self.module_const(e.id)
            if isinstance(v, bytes):
                return Aff(const=len(v))
        if isinstance(e, ast.Call) and dotted(e.func) in ("bytes", "bytearray", "memoryview") and len(e.args) == 1:
            return self.lenb(e.args[0], node)
        raise NotAffine(f"length of `{norm(e)}`")

    def bytes_val(self, e: ast.AST, node: Node, boundary: bytes) -> bytes:
        """constant value of a bytes expression for one placeholder boundary."""
        if isinstance(e, ast.Constant) and isinstance(e.value, bytes):
            return e.value
        if isinstance(e, ast.BinOp) and isinstance(e.op, ast.Add):
            return self.bytes_val(e.left, node, boundary) + self.bytes_val(e.right, node, boundary)
        if is_self_attr(e, self.nattr):
            return boundary
        if isinstance(e, ast.Name):
            d = self.single_def(e.id, node)
            if d is not None:
                return self.bytes_val(d.value, d.node, boundary)
            v = self.module_const(e.id)
            if isinstance(v, bytes):
                return v
        raise NotAffine(f"value of `{norm(e)}`")

    # -- integers ------------------------------------------------------------
    def aff(self, e: ast.AST, node: Node) -> Aff:
        if isinstance(e, ast.Constant) and isinstance(e.value, int) and not isinstance(e.value, bool):
            return Aff(const=e.value)
        if isinstance(e, ast.UnaryOp) and isinstance(e.op, ast.USub):
            return self.aff(e.operand, node).scale(-1)
        if isinstance(e, ast.BinOp):
            if isinstance(e.op, ast.Add):
                return self.aff(e.left, node) + self.aff(e.right, node)
            if isinstance(e.op, ast.Sub):
                return self.aff(e.left, node) - self.aff(e.right, node)
            if isinstance(e.op, ast.Mult):
                l, r = self.aff(e.left, node), self.aff(e.right, node)
                if not l.coef:
                    return r.scale(l.const)
                if not r.coef:
                    return l.scale(r.const)
            raise NotAffine(f"`{norm(e)}`")
        if isinstance(e, ast.Call) and isinstance(e.func, ast.Name) and e.func.id == "len" and len(e.args) == 1 and "len" not in self.fi_locals():
            return self.lenb(e.args[0], node)
        if isinstance(e, ast.Name):
            if e.id in self.stop:
                return Aff({f"name:{e.id}": 1})
            d = self.single_def(e.id, node)
            if d is not None:
                try:
                    return self.aff(d.value, d.node)
                except NotAffine:
                    pass
            v = self.module_const(e.id)
            if isinstance(v, int) and not isinstance(v, bool):
                return Aff(const=v)
            if e.id in self.fi_locals():
                return Aff({f"name:{e.id}": 1})
            raise NotAffine(f"name `{e.id}`")
        if isinstance(e, (ast.Call, ast.Attribute, ast.Subscript)):
            key = "op:" + norm(e)
            self.opaque[key] = e
            return Aff({key: 1})
        raise NotAffine(f"`{norm(e)}`")


def bind_args(fi: FuncInfo, call: ast.Call) -> dict[str, ast.AST] | None:
    """parameter name -> argument expression for a ``self.<method>(...)`` call (None when not a plain binding)."""
    a = fi.node.args  # type: ignore[attr-defined]
    pos = [x.arg for x in a.posonlyargs + a.args]
    if pos and pos[0] == "self":
        pos = pos[1:]
    if any(isinstance(x, ast.Starred) for x in call.args) or any(k.arg is None for k in call.keywords) or len(call.args) > len(pos):
        return None
    out: dict[str, ast.AST] = dict(zip(pos, call.args))
    names = set(pos) | {x.arg for x in a.kwonlyargs}
    for k in call.keywords:
        if k.arg not in names or k.arg in out:
            return None
        out[k.arg] = k.value  # type: ignore[index]
    defaults = dict(zip(reversed(pos), reversed(a.defaults)))
    for x, d in zip(a.kwonlyargs, a.kw_defaults):
        if d is not None:
            defaults[x.arg] = d
    for name, d in defaults.items():
        out.setdefault(name, d)
    return out


def strip_max0(e: ast.AST) -> ast.AST:
    """``max(0, x)`` / ``max(x, 0)`` -> x  (a negative search position is clamped to 0 by ``re`` as well)."""
    if isinstance(e, ast.Call) and isinstance(e.func, ast.Name) and e.func.id == "max" and len(e.args) == 2 and not e.keywords:
        a, b = e.args
        if isinstance(a, ast.Constant) and a.value == 0:
            return b
        if isinstance(b, ast.Constant) and b.value == 0:
            return a
    return e


# ---------------------------------------------------------------------------
# typestate interpreter: (protocol state, validity of the search offset)

ZERO = ("Z",)


class Roles(t.NamedTuple):
    cls: ClassInfo
    entry: FuncInfo
    funcs: list[FuncInfo]  # entry + self-call closure
    buffer: str
    offset: str
    state: str
    enum: str  # name of the Enum class of protocol states
    members: list[str]


class SearchSite(t.NamedTuple):
    fi: FuncInfo
    call: ast.Call
    regex: ast.AST


def self_call_closure(repo, cls: ClassInfo, entry: FuncInfo) -> list[FuncInfo]:
    out = [entry]
    seen = {entry.name}
    i = 0
    while i < len(out):
        for c in walk_no_nested(out[i].node):
            if isinstance(c, ast.Call) and isinstance(c.func, ast.Attribute) and isinstance(c.func.value, ast.Name) and c.func.value.id == "self":
                _, what = repo.lookup(cls, c.func.attr)
                if isinstance(what, FuncInfo) and what.name not in seen:
                    seen.add(what.name)
                    out.append(what)
        i += 1
    return out


def windowed_searches(fi: FuncInfo) -> list[tuple[ast.Call, str, str]]:
    """``RX.search(self.B, self.P)`` -> (call, B, P)"""
    out = []
    for c in walk_no_nested(fi.node):
        if isinstance(c, ast.Call) and isinstance(c.func, ast.Attribute) and c.func.attr == "search" and not c.keywords and len(c.args) >= 2:
            b, p = c.args[0], c.args[1]
            if is_self_attr(b) and is_self_attr(p):
                out.append((c, b.attr, p.attr))  # type: ignore[attr-defined]
    return out


class Typestate:
    """abstract run of the decoder's methods.

    fact = (state member | None, offset) with offset one of
      ("Z",)                      the constant 0
      ("W", key, state, regex)    window left by the failed search `regex` in `state`, still valid
      ("S", key)                  stale: computed against a buffer / pattern that statement `key` replaced
    """

    def __init__(self, repo, roles: Roles, window_of: t.Callable[..., str | None]):
        self.repo = repo
        self.r = roles
        # (fi, value expr, node, key, call stack) -> regex text of the search the window belongs to, or None.
        # The call stack [(caller, call, node of the call), ...] (outermost first) lets the callback read a window that a
        # private helper computes from its arguments in the context of each call site.
        self.window_of = window_of
        self._stack: list[tuple[FuncInfo, ast.Call, Node]] = []
        self.sites: dict[int, SearchSite] = {}
        self.site_arrivals: dict[int, set] = {}
        self.stmts: dict[str, tuple[FuncInfo, ast.AST, str]] = {}  # key -> (fi, stmt, kind)
        self.stmt_arrivals: dict[str, set] = {}
        self._memo: dict[tuple, frozenset] = {}
        self._busy: set[str] = set()
        self._relevant: dict[str, bool] = {}

    # -- which methods matter ---------------------------------------------
    def relevant(self, fi: FuncInfo) -> bool:
        if fi.name in self._relevant:
            return self._relevant[fi.name]
        self._relevant[fi.name] = False  # recursion guard
        r = False
        for n in walk_no_nested(fi.node):
            if isinstance(n, ast.Attribute) and isinstance(n.value, ast.Name) and n.value.id == "self":
                if n.attr in (self.r.state, self.r.offset) and isinstance(n.ctx, (ast.Store, ast.Del)):
                    r = True
                if n.attr == self.r.buffer:
                    r = r or self._buffer_effect_node(n) is not None
            if isinstance(n, ast.Call) and isinstance(n.func, ast.Attribute) and isinstance(n.func.value, ast.Name) and n.func.value.id == "self":
                _, what = self.repo.lookup(self.r.cls, n.func.attr)
                if isinstance(what, FuncInfo) and what.name != fi.name and self.relevant(what):
                    r = True
            if isinstance(n, ast.Call) and isinstance(n.func, ast.Attribute) and n.func.attr == "search":
                r = True
        self._relevant[fi.name] = r
        return r

    def _buffer_effect_node(self, attr_node: ast.AST) -> str | None:
        """effect of the construct around a ``self.<buffer>`` mention: 'shift' or None."""
        p = getattr(attr_node, "_parent", None)
        if isinstance(attr_node, ast.Attribute) and isinstance(attr_node.ctx, ast.Store):
            gp = p
            if isinstance(gp, ast.AugAssign):
                return None if isinstance(gp.op, ast.Add) else "shift"
            return "shift"  # rebinding
        if isinstance(p, ast.Subscript) and p.value is attr_node and isinstance(p.ctx, (ast.Store, ast.Del)):
            return "shift"
        if isinstance(p, ast.Attribute) and p.value is attr_node and isinstance(getattr(p, "_parent", None), ast.Call) and p._parent.func is p:  # type: ignore[attr-defined]
            if p.attr in ("clear", "pop", "remove", "insert", "reverse", "__delitem__", "__setitem__", "__init__"):
                return "shift"
        return None

    # -- keys -----------------------------------------------------------------
    def key(self, fi: FuncInfo, stmt: ast.AST) -> str:
        return f"{fi.qualname}@{getattr(stmt, 'lineno', 0)}:{getattr(stmt, 'col_offset', 0)}"

    # -- transfer ---------------------------------------------------------------
    def _member(self, e: ast.AST) -> str | None:
        if isinstance(e, ast.Attribute) and isinstance(e.value, ast.Name) and e.value.id == self.r.enum and e.attr in self.r.members:
            return e.attr
        return None

    def _filter(self, test: ast.AST, facts: frozenset) -> tuple[frozenset, frozenset]:
        """(facts on the true edge, facts on the false edge)"""
        if isinstance(test, ast.Compare) and len(test.ops) == 1 and is_self_attr(test.left, self.r.state):
            op, rhs = test.ops[0], test.comparators[0]
            want: set[str] | None = None
            if isinstance(op, (ast.Eq, ast.Is, ast.NotEq, ast.IsNot)):
                m = self._member(rhs)
                want = {m} if m else None
            elif isinstance(op, (ast.In, ast.NotIn)) and isinstance(rhs, (ast.Set, ast.Tuple, ast.List)):
                ms = [self._member(x) for x in rhs.elts]
                want = set(ms) if all(ms) else None  # type: ignore[arg-type]
            if want is not None:
                yes = frozenset(f for f in facts if f[0] is None or f[0] in want)
                no = frozenset(f for f in facts if f[0] is None or f[0] not in want)
                if isinstance(op, (ast.NotEq, ast.IsNot, ast.NotIn)):
                    yes, no = no, yes
                return yes, no
        return facts, facts

    def _stale(self, facts: frozenset, key: str, new_state: str | None = None, change_state: bool = False) -> frozenset:
        out = set()
        for st, off in facts:
            st2 = new_state if change_state else st
            if off[0] == "W" and (not change_state or off[2] != new_state):
                off = ("S", key)
            out.add((st2, off))
        return frozenset(out)

    def _own_effect(self, fi: FuncInfo, n: Node, facts: frozenset) -> frozenset:
        a = n.ast
        if n.kind != "stmt" or a is None:
            return facts
        tgts: list[ast.AST] = []
        value: ast.AST | None = None
        if isinstance(a, ast.Assign):
            tgts, value = list(a.targets), a.value
        elif isinstance(a, ast.AnnAssign) and a.value is not None:
            tgts, value = [a.target], a.value
        elif isinstance(a, ast.AugAssign):
            if is_self_attr(a.target, self.r.state) or is_self_attr(a.target, self.r.offset):
                raise AnalysisError(f"{fi.loc(a)}: augmented assignment to the protocol state / search offset is not modelled")
            tgts = []
        for tg in tgts:
            if isinstance(tg, (ast.Tuple, ast.List)):
                if any(is_self_attr(e, self.r.state) or is_self_attr(e, self.r.offset) for e in ast.walk(tg)):
                    raise AnalysisError(f"{fi.loc(a)}: tuple assignment to the protocol state / search offset is not modelled")
                continue
            if is_self_attr(tg, self.r.state):
                arms = [value.body, value.orelse] if isinstance(value, ast.IfExp) else [value]
                ms = [self._member(x) if x is not None else None for x in arms]
                if not all(ms):
                    raise AnalysisError(f"{fi.loc(a)}: `{norm(a)}` assigns something other than a {self.r.enum} member")
                k = self.key(fi, a)
                self.stmts[k] = (fi, a, "state:=" + "|".join(ms))  # type: ignore[arg-type]
                self.stmt_arrivals.setdefault(k, set()).update(facts)
                facts = frozenset().union(*[self._stale(facts, k, m, change_state=True) for m in ms])
            elif is_self_attr(tg, self.r.offset):
                assert value is not None
                k = self.key(fi, a)
                if isinstance(value, ast.Constant) and value.value == 0 and not isinstance(value.value, bool):
                    facts = frozenset((st, ZERO) for st, _ in facts)
                else:
                    if any(is_self_attr(x, self.r.offset) for x in ast.walk(value)):
                        raise AnalysisError(f"{fi.loc(a)}: search offset computed from its previous value is not modelled")
                    # one window per calling context: a helper that stores `len(buffer) - <argument>` keeps a different
                    # tail for each call site
                    k += "".join(f"<{self.key(cf, cc)}" for cf, cc, _ in reversed(self._stack))
                    rx = self.window_of(fi, value, n, k, tuple(self._stack))
                    if rx is None:
                        raise AnalysisError(f"{fi.loc(a)}: `{norm(a)}`: offset value is neither 0 nor `len(buffer) - K` after a search")
                    facts = frozenset((st, ("W", k, st, rx)) for st, _ in facts)
        # buffer effects (anywhere in the statement)
        for x in walk_no_nested(a) if not isinstance(a, (ast.FunctionDef, ast.ClassDef)) else []:
            if is_self_attr(x, self.r.buffer) and self._buffer_effect_node(x) == "shift":
                k = self.key(fi, a)
                self.stmts[k] = (fi, a, "shift")
                self.stmt_arrivals.setdefault(k, set()).update(facts)
                facts = self._stale(facts, k)
                break
        return facts

    def _calls_effect(self, fi: FuncInfo, n: Node, facts: frozenset) -> frozenset:
        a = n.ast
        if a is None or n.kind not in ("stmt", "test", "loop", "with") or isinstance(a, (ast.FunctionDef, ast.AsyncFunctionDef, ast.ClassDef)):
            return facts
        roots: list[ast.AST] = [a]
        if n.kind == "loop":
            roots = [a.iter]  # type: ignore[attr-defined]
        elif n.kind == "with":
            roots = [it.context_expr for it in a.items]  # type: ignore[attr-defined]
        calls = [c for root in roots for c in [root, *walk_no_nested(root)] if isinstance(c, ast.Call)]
        calls.sort(key=lambda c: (getattr(c, "end_lineno", 0), getattr(c, "end_col_offset", 0)))  # inner / earlier first
        for c in calls:
            f = c.func
            if isinstance(f, ast.Attribute) and isinstance(f.value, ast.Name) and f.value.id == "self":
                _, what = self.repo.lookup(self.r.cls, f.attr)
                if isinstance(what, FuncInfo) and self.relevant(what):
                    self._stack.append((fi, c, n))
                    try:
                        facts = self.flow(what, facts)
                    finally:
                        self._stack.pop()
            if isinstance(f, ast.Attribute) and f.attr == "search" and len(c.args) >= 2 and is_self_attr(c.args[0], self.r.buffer) and is_self_attr(c.args[1], self.r.offset):
                self.sites[id(c)] = SearchSite(fi, c, f.value)
                self.site_arrivals.setdefault(id(c), set()).update(facts)
        return facts

    # -- one method -----------------------------------------------------------------
    def flow(self, fi: FuncInfo, entry_facts: t.Iterable) -> frozenset:
        entry_facts = frozenset(entry_facts)
        mk = (fi.qualname, entry_facts, tuple(id(c) for _, c, _ in self._stack))
        if mk in self._memo:
            return self._memo[mk]
        if fi.qualname in self._busy:
            raise AnalysisError(f"recursive method {fi.qualname} is not modelled")
        self._busy.add(fi.qualname)
        try:
            cfg: CFG = cfg_of(fi)
            inn: dict[int, frozenset] = {n.id: frozenset() for n in cfg.nodes}
            inn[cfg.entry.id] = entry_facts
            work = [cfg.entry]
            while work:
                n = work.pop()
                facts = inn[n.id]
                before = facts
                facts = self._calls_effect(fi, n, facts)
                facts = self._own_effect(fi, n, facts)
                if n.kind == "test":
                    yes, no = self._filter(n.ast, facts)  # type: ignore[arg-type]
                for s, l in n.succs:
                    if l == "raise":
                        continue
                    if n.kind == "test" and l == "T":
                        f = yes
                    elif n.kind == "test" and l == "F":
                        f = no
                    elif l == "exc":
                        f = before | facts
                    else:
                        f = facts
                    if not f <= inn[s.id]:
                        inn[s.id] = inn[s.id] | f
                        work.append(s)
            res = inn[cfg.exit.id]
        finally:
            self._busy.discard(fi.qualname)
        self._memo[mk] = res
        return res

    # -- the object's life: __init__, then any sequence of public methods -----------------
    def run(self) -> frozenset:
        init = self.r.cls.methods.get("__init__")
        if init is None:
            raise AnalysisError(f"{self.r.cls.name}.__init__ missing")
        facts = self.flow(init, [(None, ("S", "uninitialised"))])
        if not facts:
            raise AnalysisError("no normal exit of __init__")
        public = [f for name, f in sorted(self.r.cls.methods.items()) if not name.startswith("_") and "." not in name and self.relevant(f)]
        for _ in range(64):
            new = set(facts)
            for f in public:
                new |= self.flow(f, facts)
            if frozenset(new) == facts:
                break
            facts = frozenset(new)
        else:  # pragma: no cover
            raise AnalysisError("typestate fixpoint did not converge")
        # final pass so that arrivals are recorded for the complete fact set
        for f in public:
            self.flow(f, facts)
        return facts


def fmt_off(off) -> str:
    if off[0] == "Z":
        return "0"
    if off[0] == "W":
        return f"window({off[2]})"
    return f"stale[{off[1]}]"


# ---------------------------------------------------------------------------
# hold-back anchor: "last index of a byte, or a fallback when the byte is absent"
#
# The anchor helper is summarised extensionally.  Its CFG is walked once per *order type* of its
# argument (which of the bytes it looks for occur, and in which order their last occurrences
# come) over the values {-1, last index of a byte, len(argument)}; only order comparisons,
# min/max and selection are interpreted, so a function's results over all order types determine
# it on every argument.  The results are then matched against `min|max over (last index of c, or
# len / -1 when c is absent)`.  The spelling of the fallback does not matter: rindex + except
# ValueError, rfind + `== -1` / `< 0` test, conditional expression, walrus, early return,
# comparing two positions instead of calling min().

A_LEN = ("len",)  # len(argument)
A_NEG1 = ("int", -1)


class _Unmodelled(Exception):
    pass


class _Raises(Exception):
    def __init__(self, exc: str):
        self.exc = exc


class AnchorEval:
    def __init__(self, fi: FuncInfo):
        self.fi = fi
        self.cfg = cfg_of(fi)
        params = [p for p in fi.params if p != "self"]
        if len(params) != 1:
            raise _Unmodelled("expected one parameter")
        self.p = params[0]
        self.bytes: list[int] = []
        for c in walk_no_nested(fi.node):
            if isinstance(c, ast.Call) and isinstance(c.func, ast.Attribute) and c.func.attr in ("rindex", "rfind") and norm(c.func.value) == self.p:
                b = self._byte(c)
                if b not in self.bytes:
                    self.bytes.append(b)
        if not self.bytes or len(self.bytes) > 3:
            raise _Unmodelled("no (or too many) last-index-of-byte lookups on the parameter")
        for n in walk_no_nested(fi.node):
            if isinstance(n, ast.Name) and n.id == self.p and isinstance(n.ctx, (ast.Store, ast.Del)):
                raise _Unmodelled("the parameter is rebound")

    def _byte(self, c: ast.Call) -> int:
        if len(c.args) == 1 and not c.keywords and isinstance(c.args[0], ast.Constant) and isinstance(c.args[0].value, bytes) and len(c.args[0].value) == 1:
            return c.args[0].value[0]
        raise _Unmodelled(f"`{norm(c)}` is not a whole-argument lookup of one byte")

    # -- order ---------------------------------------------------------------------
    @staticmethod
    def rank(v, order: tuple[int, ...]) -> int | None:
        """position of a value in the order type: -1 < last occurrences in `order` < len(argument)"""
        if v == A_NEG1:
            return -1
        if v[0] == "last":
            return order.index(v[1])
        if v == A_LEN:
            return len(order)
        return None

    def signs(self, a, b, order: tuple[int, ...]) -> set[int]:
        """possible signs of a - b under the order type"""
        ra, rb = self.rank(a, order), self.rank(b, order)
        if ra is not None and rb is not None:
            return {(ra > rb) - (ra < rb)}
        if a[0] == "int" and b[0] == "int":
            return {(a[1] > b[1]) - (a[1] < b[1])}
        # an index or a length (>= 0) against another integer constant
        for x, y, sgn in ((a, b, 1), (b, a, -1)):
            if y[0] == "int" and x[0] in ("last", "len"):
                return {sgn} if y[1] < 0 else {0, sgn} if y[1] == 0 else {-1, 0, 1}
        raise _Unmodelled(f"comparison of {a} with {b}")

    def compare(self, a, b, order: tuple[int, ...]) -> int:
        s = self.signs(a, b, order)
        if len(s) != 1:
            raise _Unmodelled(f"comparison of {a} with {b} is not decided by the order of the last occurrences")
        return next(iter(s))

    # -- expressions -----------------------------------------------------------
    def ev(self, e: ast.AST, env: dict[str, t.Any], order: tuple[int, ...]):
        if isinstance(e, ast.Constant) and isinstance(e.value, int) and not isinstance(e.value, bool):
            return ("int", e.value)
        if isinstance(e, ast.UnaryOp) and isinstance(e.op, ast.USub) and isinstance(e.operand, ast.Constant) and isinstance(e.operand.value, int):
            return ("int", -e.operand.value)
        if isinstance(e, ast.Name):
            if e.id in env:
                return env[e.id]
            raise _Unmodelled(f"name `{e.id}`")
        if isinstance(e, ast.NamedExpr):
            v = self.ev(e.value, env, order)
            env[e.target.id] = v
            return v
        if isinstance(e, ast.IfExp):
            return self.ev(e.body if self.truth(e.test, env, order) else e.orelse, env, order)
        if isinstance(e, ast.Call):
            f = e.func
            if isinstance(f, ast.Attribute) and f.attr in ("rindex", "rfind") and norm(f.value) == self.p:
                b = self._byte(e)
                if b in order:
                    return ("last", b)
                if f.attr == "rindex":
                    raise _Raises("ValueError")
                return A_NEG1
            if isinstance(f, ast.Name) and f.id == "len" and len(e.args) == 1 and norm(e.args[0]) == self.p and not e.keywords:
                return A_LEN
            if isinstance(f, ast.Name) and f.id in ("min", "max") and not e.keywords and e.args and not any(isinstance(a, ast.Starred) for a in e.args):
                if len(e.args) == 1:
                    if not isinstance(e.args[0], (ast.Tuple, ast.List)) or not e.args[0].elts:
                        raise _Unmodelled(f"`{norm(e)}`")
                    args = list(e.args[0].elts)
                else:
                    args = list(e.args)
                best = self.ev(args[0], env, order)
                for a in args[1:]:
                    v = self.ev(a, env, order)
                    c = self.compare(v, best, order)
                    if (c < 0 and f.id == "min") or (c > 0 and f.id == "max"):
                        best = v
                return best
            if (dotted(f) or "").endswith("cast") and len(e.args) == 2:
                return self.ev(e.args[1], env, order)
        raise _Unmodelled(f"`{norm(e)}`")

    def truth(self, e: ast.AST, env: dict[str, t.Any], order: tuple[int, ...]) -> bool:
        if isinstance(e, ast.BoolOp):
            res = isinstance(e.op, ast.And)
            for v in e.values:  # short circuit, left to right (a walrus in a skipped operand does not bind)
                res = self.truth(v, env, order)
                if res != isinstance(e.op, ast.And):
                    break
            return res
        if isinstance(e, ast.UnaryOp) and isinstance(e.op, ast.Not):
            return not self.truth(e.operand, env, order)
        if isinstance(e, ast.Compare) and len(e.ops) == 1:
            a, b = self.ev(e.left, env, order), self.ev(e.comparators[0], env, order)
            sg = self.signs(a, b, order)
            table = {ast.Eq: {0}, ast.NotEq: {-1, 1}, ast.Lt: {-1}, ast.LtE: {-1, 0}, ast.Gt: {1}, ast.GtE: {0, 1}}
            want = table.get(type(e.ops[0]))
            if want is not None and sg <= want:
                return True
            if want is not None and not (sg & want):
                return False
            raise _Unmodelled(f"test `{norm(e)}` is not decided by the order of the last occurrences")
        raise _Unmodelled(f"test `{norm(e)}`")

    # -- one run ---------------------------------------------------------------------
    def _handler_for(self, n: Node, exc: str) -> Node | None:
        for h, lab in n.succs:
            if lab == "exc" and h.kind == "handler":
                ty = h.ast.type  # type: ignore[union-attr]
                names = [dotted(x) or "?" for x in (ty.elts if isinstance(ty, ast.Tuple) else [ty])] if ty is not None else ["BaseException"]
                if any(x.rsplit(".", 1)[-1] in (exc, "Exception", "BaseException") for x in names):
                    return h
        return None

    def run(self, order: tuple[int, ...]):
        env: dict[str, t.Any] = {}
        n = self.cfg.entry
        for _ in range(200):
            a = n.ast
            nxt: Node | None = None
            try:
                if n.kind == "test":
                    lab = "T" if self.truth(a, env, order) else "F"  # type: ignore[arg-type]
                    s = self.cfg.succ(n, lab)
                    if len(s) != 1:
                        raise _Unmodelled("branch without a successor")
                    nxt = s[0]
                elif n.kind == "stmt" and isinstance(a, ast.Return):
                    if a.value is None:
                        raise _Unmodelled("bare return")
                    return self.ev(a.value, env, order)
                elif n.kind == "stmt" and isinstance(a, (ast.Assign, ast.AnnAssign)):
                    tgts = a.targets if isinstance(a, ast.Assign) else [a.target]
                    if a.value is None:
                        pass
                    elif all(isinstance(x, ast.Name) for x in tgts):
                        v = self.ev(a.value, env, order)
                        for x in tgts:
                            env[x.id] = v  # type: ignore[union-attr]
                    elif len(tgts) == 1 and isinstance(tgts[0], ast.Tuple) and isinstance(a.value, ast.Tuple) and len(tgts[0].elts) == len(a.value.elts) \
                            and all(isinstance(x, ast.Name) for x in tgts[0].elts):
                        vs = [self.ev(x, env, order) for x in a.value.elts]
                        for x, v in zip(tgts[0].elts, vs):
                            env[x.id] = v  # type: ignore[attr-defined]
                    else:
                        raise _Unmodelled(f"`{norm(a)}`")
                elif n.kind == "stmt" and isinstance(a, ast.Pass):
                    pass
                elif n.kind == "stmt" and isinstance(a, ast.Expr) and isinstance(a.value, ast.Constant):
                    pass  # docstring
                elif n.kind in ("entry", "handler"):
                    pass
                else:
                    raise _Unmodelled(f"`{n.text()}`")
            except _Raises as r:
                nxt = self._handler_for(n, r.exc)
                if nxt is None:
                    raise _Unmodelled(f"{r.exc} escapes when a byte is absent")
            if nxt is None:
                s = [x for x, lab in n.succs if lab not in ("exc", "raise")]
                if len(s) != 1 or s[0] is self.cfg.exit:
                    raise _Unmodelled("falls off the end")
                nxt = s[0]
            n = nxt
        raise _Unmodelled("loop")


def anchor_summary(fi: FuncInfo) -> tuple[str, list[tuple[str, int]]] | None:
    """what a hold-back anchor function computes: ("min"|"max"|"one", [(absent-value, byte), ...]) or None when not modelled.

    Each term is the last index of one byte in the (only) parameter with a fallback for an argument without that
    byte: "end" = len(argument), "-1" = -1.  The function is run abstractly for every order type of its argument; the
    summary is the one combination of min/max and fallbacks that gives the same result for all of them."""
    import itertools

    try:
        ae = AnchorEval(fi)
        results = {}
        for r in range(len(ae.bytes) + 1):
            for order in itertools.permutations(ae.bytes, r):
                v = ae.run(order)
                if ae.rank(v, order) is None:
                    return None
                results[order] = v
    except _Unmodelled:
        return None
    found = []
    for comb in (("one",) if len(ae.bytes) == 1 else ("min", "max")):
        for fbs in itertools.product((A_LEN, A_NEG1), repeat=len(ae.bytes)):
            def predicted(order):
                terms = [("last", b) if b in order else fb for b, fb in zip(ae.bytes, fbs)]
                pick = max if comb == "max" else min
                return pick(terms, key=lambda v: ae.rank(v, order))
            if all(ae.rank(predicted(o), o) == ae.rank(v, o) for o, v in results.items()):
                found.append((comb, [("end" if fb == A_LEN else "-1", b) for b, fb in zip(ae.bytes, fbs)]))
    return found[0] if len(found) == 1 else None
