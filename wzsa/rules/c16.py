"""C16 - live views of response headers never drift from the header text (structural clauses)."""

from __future__ import annotations

import ast

from .. import astq
from ..cfg import CFG, cfg_of
from ..classflow import Closure
from ..loader import AnalysisError, BuiltinClass, ClassInfo, FuncInfo, dotted, norm, walk_no_nested
from ..report import Ctx
from ._shared import headerset_insertion_rule, headerset_order_rule, optional_int_rule

LEVEL_TEXT = (
    "Static decision of structural clauses of C16 on /repo's current source: (R16.1) every dict mutator (typeshed table) of "
    "every CallbackDict-derived view resolves, in the class's MRO, to a method that performs the operation and then "
    "notifies on every normally-completing path; (R16.2) every HeaderSet method containing a primitive mutation notifies "
    "after it; (R16.3) ContentRange and WWWAuthenticate notify after every write of their private state and hand their "
    "trigger to the parameter dict; (R16.4) a class overriding __setattr__ delegates to the default for every attribute "
    "that is a property with a setter; (R16.5) each view getter's callback writes / deletes the header it was read from, "
    "is attached on every return path, and writes the view's own serialisation; whole-property setters write the same "
    "header; (R16.6) every typed header_property has a load/dump pair from the reasoned inverse table; (R16.7) every "
    "writer of WWWAuthenticate's scheme applies the constructor's normalisation. It decides these clauses on all "
    "paths; equality of header text and serialisation after arbitrary histories follows from them only together with "
    "C06's pairing and is not itself decided."
)
TRUSTED = ["CPython ast", "typeshed dict / MutableSet mutator tables", "Python descriptor protocol: a property with a setter is a data descriptor and object.__setattr__ invokes it"]
ASSUMPTIONS = ["a view whose on_update is None has nothing to notify", "direct header edits between view reads are outside these clauses"]

PAIRS = {  # reasoned inverse table for typed header properties: (load, dump)
    ("parse_age", "dump_age"), ("int", "str"), ("parse_date", "http_date"), ("parse_set_header", "dump_header"),
    ("lambda value: COOP(value)", "lambda value: value.value"), ("lambda value: COEP(value)", "lambda value: value.value"),
}


def _notify_calls(fn: ast.AST, names=("on_update",), trigger=("_trigger_on_update",)) -> list[ast.Call]:
    out = []
    for c in astq.calls(fn, nested=False):
        f = c.func
        if isinstance(f, ast.Attribute) and f.attr in names and c.args and norm(c.args[0]) == norm(f.value):
            out.append(c)  # x.on_update(x)
        elif isinstance(f, ast.Attribute) and f.attr in trigger and not c.args:
            out.append(c)
        elif isinstance(f, ast.Attribute) and f.attr == "_on_update" and c.args and norm(c.args[0]) == norm(f.value):
            out.append(c)
    return out


def _pruned_edges(fi: FuncInfo, cfg: CFG, mutation_nodes) -> list:
    """false edges that need no notification: `X.on_update is not None`, and
    change flags (local bool set True next to each mutation, or computed from
    a membership test before the mutation)."""
    pruned = []
    for t_ in cfg.tests():
        if t_.kind != "test":
            continue
        txt = norm(t_.ast)
        if txt.endswith(".on_update is not None") or txt.endswith("._on_update is not None"):
            pruned.append((t_, "F"))
            continue
        if txt.endswith(".on_update is None") or txt.endswith("._on_update is None"):
            pruned.append((t_, "T"))
            continue
        if isinstance(t_.ast, ast.Name):
            flag = t_.ast.id
            defs = astq.assigns_to(fi.node, flag)
            if not defs:
                continue
            ok = True
            member = all(v is not None and isinstance(v, ast.Compare) and isinstance(v.ops[0], (ast.In, ast.NotIn)) for _, v in defs)
            if member:
                # defined from a membership test before any mutation. Which membership state means "nothing
                # changed" depends on the operation: setdefault changes nothing when the key IS present;
                # pop / delete / discard / remove change nothing when it is NOT.
                for s, _ in defs:
                    dn = cfg.node_of(s)
                    if dn is None or not all(cfg.node_dominates(dn, m) for m in mutation_nodes):
                        ok = False
                ops = set()
                for m in mutation_nodes:
                    for c_ in astq.calls(m.ast):
                        if isinstance(c_.func, ast.Attribute):
                            ops.add(c_.func.attr)
                if ops and ops <= {"setdefault"}:
                    nochange_member = True
                elif ops and ops <= {"pop", "__delitem__", "remove", "discard", "popitem"}:
                    nochange_member = False
                else:
                    ok = False
                    nochange_member = None
                if ok and len(defs) == 1:
                    v = defs[0][1]
                    present_when_flag_true = isinstance(v.ops[0], ast.In)  # flag = key in self  /  key not in self
                    # flag true  -> membership == present_when_flag_true ; flag false -> the opposite
                    label = "T" if present_when_flag_true == nochange_member else "F"
                    pruned.append((t_, label))
                continue
            else:
                trues = [s for s, v in defs if isinstance(v, ast.Constant) and v.value is True]
                falses = [s for s, v in defs if isinstance(v, ast.Constant) and v.value is False]
                if len(trues) + len(falses) != len(defs) or not trues:
                    ok = False
                else:
                    for m in mutation_nodes:
                        parent_body = _stmt_list_of(m.ast)
                        if parent_body is None or not any(any(tr is s for s in parent_body) for tr in trues):
                            ok = False
            if ok:
                pruned.append((t_, "F"))
    return pruned


def _stmt_list_of(st: ast.AST | None):
    cur = st
    while cur is not None and not isinstance(cur, ast.stmt):
        cur = astq.parent(cur)
    p = astq.parent(cur) if cur is not None else None
    if p is None:
        return None
    for fld in ("body", "orelse", "finalbody"):
        lst = getattr(p, fld, None)
        if isinstance(lst, list) and any(x is cur for x in lst):
            return lst
    return None


def _notifying_helpers(ctx: Ctx, fi: FuncInfo) -> set[str]:
    """methods of fi's class (MRO) that do nothing but notify on every normal path (`self._notify()` style helpers
    extracted from `if self.on_update is not None: self.on_update(self)`)."""
    out: set[str] = set()
    if fi.cls is None:
        return out
    for k in ctx.repo.mro(fi.cls):
        for name, m in getattr(k, "methods", {}).items():
            if not isinstance(m, FuncInfo) or m is fi or "." in name:
                continue
            direct = _notify_calls(m.node)
            if not direct:
                continue
            c = cfg_of(m)
            nn = [x for x in (c.node_of(d) for d in direct) if x is not None]
            pr = _pruned_edges(m, c, [])
            if c.exit.id not in c.reach(avoid_nodes=nn, avoid_edges=pr):
                out.add(name)
    return out


def notifies_after(ctx: Ctx, fi: FuncInfo, mutation_asts: list[ast.AST]) -> tuple[bool, str]:
    """every path from each mutation to an exit passes a notification (modulo pruned edges)."""
    cfg = cfg_of(fi)
    mnodes = [n for n in (cfg.node_of(a) for a in mutation_asts) if n is not None]
    helpers = _notifying_helpers(ctx, fi)
    selfname = fi.params[0] if fi.params else "self"
    helper_calls = [c for c in astq.calls(fi.node, nested=False) if isinstance(c.func, ast.Attribute) and isinstance(c.func.value, ast.Name) and c.func.value.id == selfname and c.func.attr in helpers]
    notes = [cfg.node_of(c) for c in _notify_calls(fi.node) + helper_calls]
    notes = [n for n in notes if n is not None]
    if not notes:
        return False, "no notification call in the method"
    pruned = _pruned_edges(fi, cfg, mnodes)
    for m in mnodes:
        r = cfg.reach(m, avoid_nodes=notes, avoid_edges=pruned)
        # a notification inside the same statement as the mutation does not count as after
        if cfg.exit.id in r or cfg.raise_exit.id in r:
            p = cfg.path(m, cfg.exit, avoid_nodes=notes, avoid_edges=pruned) or cfg.path(m, cfg.raise_exit, avoid_nodes=notes, avoid_edges=pruned)
            return False, "path from the mutation to an exit without notification: " + (cfg.fmt_path(p) if p else "?")
    return True, f"{len(mnodes)} mutation site(s), each followed by a notification on every path"


def _always_update_ok(ctx: Ctx, repo) -> tuple[bool, str, FuncInfo]:
    fi = repo.func("datastructures.mixins._always_update")
    inner = [n for n in fi.node.body if isinstance(n, ast.FunctionDef)]
    if len(inner) != 1:
        return False, "no single wrapper", fi
    w = inner[0]
    calls_f = [i for i, s in enumerate(w.body) if any(isinstance(c.func, ast.Name) and c.func.id == fi.params[0] for c in astq.calls(s))]
    notif = [i for i, s in enumerate(w.body) if _notify_calls(s)]
    ok = bool(calls_f) and bool(notif) and min(notif) > min(calls_f) and any(isinstance(s, ast.Return) for s in w.body)
    returns_wrapper = any(isinstance(s, ast.Return) and w.name in norm(s) for s in fi.node.body)
    return ok and returns_wrapper, f"wrapper calls f at stmt {calls_f}, notifies at stmt {notif}", fi


def run(ctx: Ctx) -> None:
    repo = ctx.repo
    for rid, text in {
        "R16.1": "every dict mutator of every CallbackDict-derived view resolves (MRO) to a method that performs the super() operation and then notifies on every normal path",
        "R16.2": "every HeaderSet method containing a primitive mutation notifies after it",
        "R16.3": "ContentRange / WWWAuthenticate notify after every write of private state; parameter dicts are built with the trigger",
        "R16.4": "a class that overrides __setattr__ delegates to the default for every property with a setter",
        "R16.5": "each view getter's callback writes/deletes the header it was read from, is attached on every return path, writes the view's serialisation; whole-property setters write the same header",
        "R16.6": "every typed header_property on Response has a load/dump pair from the reasoned inverse table",
        "R16.7": "every writer of WWWAuthenticate's scheme applies the constructor's lower-casing",
    }.items():
        ctx.rule(rid, text)

    # ---------------- R16.1 ----------------------------------------
    au_ok, au_fact, au_fi = _always_update_ok(ctx, repo)
    ctx.ob("R16.1", "_always_update wrapper performs the call, then notifies", au_ok, au_fact, au_fi, au_fi.node, "_always_update wrapper")
    views = [c for c in repo.all_classes() if any(k.name == "UpdateDictMixin" for k in repo.mro(c)) and not any(k.name.startswith("Immutable") for k in repo.mro(c))]
    views = sorted(views, key=lambda c: c.fq)
    ctx.floor("R16.1", "callback dict classes", len(views), 5)
    dict_mut = repo.mutators("dict")
    n = 0
    for c in views:
        for name in sorted(dict_mut):
            owner, what = repo.lookup(c, name)
            n += 1
            if not isinstance(what, FuncInfo):
                ctx.ob("R16.1", f"{c.name}.{name}", False, f"resolves to {owner.name if owner else None}.{name} ({what if isinstance(what, str) else type(what).__name__}): a raw dict mutator, no notification", c.fq, None, f"{c.name}.{name} raw")
                continue
            ctx.saw(what)
            decs = what.decorators
            supers = [cl for cl in astq.calls(what.node, nested=False) if isinstance(cl.func, ast.Attribute) and isinstance(cl.func.value, ast.Call) and dotted(cl.func.value.func) == "super" and cl.func.attr in dict_mut]
            if any(d.endswith("_always_update") for d in decs):
                ok = bool(supers) and au_ok
                ctx.ob("R16.1", f"{c.name}.{name}", ok, f"{owner.name}.{name} is @_always_update and calls super().{supers[0].func.attr if supers else '?'}", what, what.node, f"{c.name}.{name} notifies")
            else:
                if not supers:
                    # may delegate to other notifying methods of the class (self[...] = / self.pop)
                    cl = Closure(repo, c)
                    deleg = [nm for nm, _, _ in cl.self_calls(what)]
                    ok = bool(deleg)
                    ctx.ob("R16.1", f"{c.name}.{name}", ok, f"delegates to {sorted(set(deleg))}", what, what.node, f"{c.name}.{name} notifies")
                else:
                    ok, fact = notifies_after(ctx, what, supers)
                    ctx.ob("R16.1", f"{c.name}.{name}", ok, f"{owner.name}.{name}: {fact}", what, what.node, f"{c.name}.{name} notifies")
    ctx.floor("R16.1", "mutator x class obligations", n, 40)
    # typed property setters mutate only through the dict protocol
    cc = repo.cls("datastructures.cache_control._CacheControl")
    for nm in ("_set_cache_value", "_del_cache_value"):
        fi = cc.methods.get(nm)
        if fi is None:
            raise AnalysisError(f"_CacheControl.{nm} missing")
        cl = Closure(repo, cc)
        prim = cl.prim_sites(fi)
        raw = [c_ for c_ in astq.calls(fi.node) if isinstance(c_.func, ast.Attribute) and isinstance(c_.func.value, ast.Name) and c_.func.value.id == "dict"]
        ctx.ob("R16.1", f"_CacheControl.{nm} mutates only through notifying methods", not prim and not raw, f"direct stores: {[s.desc for s in prim]}, dict.* calls: {len(raw)}", fi, fi.node, f"{nm} via protocol")
    _cache_value_table(ctx, cc)
    csp = repo.cls("datastructures.csp.ContentSecurityPolicy")
    for nm in ("_get_value", "_set_value", "_del_value"):
        fi = csp.methods.get(nm)
        if fi is not None:
            raw = [c_ for c_ in astq.calls(fi.node) if isinstance(c_.func, ast.Attribute) and isinstance(c_.func.value, ast.Name) and c_.func.value.id == "dict"]
            ctx.ob("R16.1", f"ContentSecurityPolicy.{nm} mutates only through notifying methods", not raw, "", fi, fi.node, f"csp {nm} via protocol")
    # CallbackDict stores the callback it is given
    cb = repo.cls("datastructures.structures.CallbackDict")
    init = cb.methods["__init__"]
    ctx.ob("R16.1", "CallbackDict.__init__ stores on_update", any(norm(s) == "self.on_update = on_update" for s in walk_no_nested(init.node) if isinstance(s, ast.Assign)), "", init, init.node, "CallbackDict stores callback")

    # ---------------- R16.2 ----------------------------------------
    hs = repo.cls("datastructures.structures.HeaderSet")
    cl = Closure(repo, hs)
    n = 0
    for name, fi in sorted(hs.methods.items()):
        if name == "__init__":
            continue
        sites = cl.prim_sites(fi)
        if not sites:
            continue
        n += 1
        ok, fact = notifies_after(ctx, fi, [s.node for s in sites if s.node is not None])
        ctx.ob("R16.2", f"HeaderSet.{name} notifies after mutating", ok, fact, fi, fi.node, f"HeaderSet.{name} notifies")
    ctx.floor("R16.2", "HeaderSet mutating methods", n, 5)
    ctx.floor("R16.2", "HeaderSet list growth sites", headerset_insertion_rule(ctx, "R16.2"), 1)
    ctx.floor("R16.2", "HeaderSet methods that drop and add a key", headerset_order_rule(ctx, "R16.2"), 1)
    # MutableSet mixin methods (|=, &=, pop, ...) come from the ABC and go through add/discard: both must be package methods
    for nm in ("add", "discard"):
        o, w = repo.lookup(hs, nm)
        ctx.ob("R16.2", f"HeaderSet.{nm} is defined by the class (ABC mixins route through it)", isinstance(w, FuncInfo), f"owner {o.name if o else None}", w if isinstance(w, FuncInfo) else hs.fq, None, f"HeaderSet.{nm} defined")

    # ---------------- R16.3 ----------------------------------------
    cr = repo.cls("datastructures.range.ContentRange")
    cp = repo.cls("datastructures.range._CallbackProperty")
    fi = cp.methods["__set__"]
    stores = [s for s in walk_no_nested(fi.node) if isinstance(s, ast.Assign) and "__dict__" in norm(s.targets[0])]
    ok, fact = notifies_after(ctx, fi, stores)
    ctx.ob("R16.3", "_CallbackProperty.__set__ stores then notifies", bool(stores) and ok, fact, fi, fi.node, "_CallbackProperty.__set__")
    fi = cr.methods["set"]
    stores = [s for s in walk_no_nested(fi.node) if isinstance(s, (ast.Assign, ast.AnnAssign)) and any(astq.is_self_attr(t_) for t_ in ([s.target] if isinstance(s, ast.AnnAssign) else s.targets))]
    ok, fact = notifies_after(ctx, fi, stores)
    ctx.ob("R16.3", "ContentRange.set stores then notifies", len(stores) >= 4 and ok, fact, fi, fi.node, "ContentRange.set")
    priv = {"_units", "_start", "_stop", "_length"}
    for name, m in cr.methods.items():
        if name in ("set", "__init__"):
            continue
        w = [s for s in walk_no_nested(m.node) if isinstance(s, (ast.Assign, ast.AugAssign, ast.AnnAssign)) and any(astq.is_self_attr(t_) and t_.attr in priv for t_ in ([s.target] if not isinstance(s, ast.Assign) else s.targets))]
        if w:
            ctx.ob("R16.3", f"ContentRange.{name} writes private state only through set()", False, norm(w[0]), m, w[0], f"ContentRange.{name} raw write")
    descs = [k for k, v in cr.attrs.items() if isinstance(v, ast.Call) and dotted(v.func) == "_CallbackProperty"]
    ctx.ob("R16.3", "ContentRange attributes are callback properties", sorted(descs) == ["length", "start", "stop", "units"], f"{sorted(descs)}", cr.fq, None, "ContentRange descriptors")
    unset = cr.methods.get("unset")
    if unset is not None:
        ctx.ob("R16.3", "ContentRange.unset goes through set()", any(isinstance(c_.func, ast.Attribute) and c_.func.attr == "set" for c_ in astq.calls(unset.node)), "", unset, unset.node, "ContentRange.unset")

    ctx.floor("R16.3", "ContentRange methods using optional ints", optional_int_rule(ctx, "R16.3", cr), 2)

    wa = repo.cls("datastructures.auth.WWWAuthenticate")
    wpriv = {"_type", "_token", "_parameters"}
    n = 0
    for name, m in sorted(wa.methods.items()):
        if name == "__init__":
            continue
        muts: list[ast.AST] = []
        for s in walk_no_nested(m.node):
            if isinstance(s, (ast.Assign, ast.AugAssign)):
                tg = s.targets if isinstance(s, ast.Assign) else [s.target]
                for t_ in tg:
                    if astq.is_self_attr(t_) and t_.attr in wpriv:
                        muts.append(s)
                    if isinstance(t_, ast.Subscript) and astq.is_self_attr(t_.value) and t_.value.attr in ("parameters", "_parameters"):
                        muts.append(s)
            if isinstance(s, ast.Delete):
                for t_ in s.targets:
                    if isinstance(t_, ast.Subscript) and astq.is_self_attr(t_.value) and t_.value.attr in ("parameters", "_parameters"):
                        muts.append(s)
        if not muts:
            continue
        n += 1
        ok, fact = notifies_after(ctx, m, muts)
        ctx.ob("R16.3", f"WWWAuthenticate.{name} notifies after writing", ok, fact, m, m.node, f"WWWAuthenticate.{name} notifies")
    ctx.floor("R16.3", "WWWAuthenticate writers", n, 5)
    trig = wa.methods.get("_trigger_on_update")
    ctx.ob("R16.3", "_trigger_on_update calls the callback with the view", trig is not None and any(norm(c_) == "self._on_update(self)" for c_ in astq.calls(trig.node)), "", trig or wa.fq, trig.node if trig else None, "trigger shape")
    ncd = 0
    for name, m in wa.methods.items():
        for c_ in astq.name_calls(m.node, "CallbackDict"):
            ncd += 1
            passes = len(c_.args) >= 2 and "_trigger_on_update" in norm(c_.args[1]) or any(kw.arg == "on_update" and "_trigger_on_update" in norm(kw.value) for kw in c_.keywords)
            ctx.ob("R16.3", f"WWWAuthenticate.{name} builds its parameter dict with the trigger", passes, norm(c_), m, c_, f"CallbackDict in {name}")
    ctx.floor("R16.3", "CallbackDict constructions", ncd, 2)

    # ---------------- R16.4 ----------------------------------------
    n = 0
    for c in repo.all_classes():
        sa = c.methods.get("__setattr__")
        if sa is None:
            continue
        setters = sorted(k.rsplit(".", 1)[0] for k in c.methods if k.endswith(".setter"))
        descs = sorted(k for k, v in c.attrs.items() if isinstance(v, ast.Call) and (dotted(v.func) or "").endswith(("_CallbackProperty", "header_property", "environ_property")))
        need = setters + descs
        if not need:
            continue
        n += 1
        delegated: set[str] = set()
        excluded: set[str] | None = None  # names that are NOT delegated when the test is "everything except S"
        generic = False
        from ..fold import Folder as _Folder
        from ..guards import canon as _canon, simulate as _simulate

        scfg = cfg_of(sa)
        name_param = sa.params[1] if len(sa.params) > 1 else "name"
        member_tests = []
        for tn in scfg.tests():
            if tn.kind != "test":
                continue
            k, p = _canon(tn.ast)
            if k.startswith(f"{name_param} in "):
                cmp_ = tn.ast
                while isinstance(cmp_, ast.UnaryOp):
                    cmp_ = cmp_.operand
                try:
                    members = set(_Folder(repo).expr(c.module, cmp_.comparators[0]))
                except Exception:
                    members = None
                member_tests.append((k, members))
            elif "type(self)" in k or "__class__" in k:
                generic = True

        def delegates(outs) -> bool:
            return bool(outs) and all(any(n.ast is not None and n.kind == "stmt" and any(isinstance(c_.func, ast.Attribute) and c_.func.attr == "__setattr__" and isinstance(c_.func.value, ast.Call) and dotted(c_.func.value.func) == "super" for c_ in astq.calls(n.ast)) for n in o.passed) for o in outs)

        if len(member_tests) == 1 and member_tests[0][1] is not None:
            k, members = member_tests[0]
            if delegates(_simulate(scfg, lambda key: True if key == k else None)):
                delegated = set(members)
            if delegates(_simulate(scfg, lambda key: False if key == k else None)):
                excluded = set(members)
        elif not member_tests and not generic:
            generic = delegates(_simulate(scfg, lambda key: None))
        for prop in need:
            reaches = generic or prop in delegated or (excluded is not None and prop not in excluded)
            ctx.ob("R16.4", f"{c.name}.__setattr__ reaches the `{prop}` setter", reaches, f"names delegated to the default __setattr__: {sorted(delegated)}{' (+generic class lookup)' if generic else ''}{' ; everything except ' + str(sorted(excluded)) if excluded is not None else ''}", sa, sa.node, f"{c.name}.__setattr__ delegates {prop}")
    ctx.floor("R16.4", "classes overriding __setattr__ with property setters", n, 1)

    # ---------------- R16.5 ----------------------------------------
    _views(ctx)

    # ---------------- R16.6 ----------------------------------------
    resp = repo.cls("sansio.response.Response")
    n = 0
    for name, v in sorted(resp.attrs.items()):
        if not isinstance(v, ast.Call):
            continue
        f = v.func.value if isinstance(v.func, ast.Subscript) else v.func
        if dotted(f) != "header_property":
            continue
        load = astq.arg_or_kw(v, 2, "load_func")
        dump = astq.arg_or_kw(v, 3, "dump_func")
        ro = astq.kwarg(v, "read_only")
        if load is None and dump is None:
            continue
        n += 1
        pair = (norm(load) if load is not None else None, norm(dump) if dump is not None else None)
        ok = pair in PAIRS or (ro is not None and norm(ro) == "True" and load is not None)
        ctx.ob("R16.6", f"Response.{name} load/dump pair", ok, f"load={pair[0]} dump={pair[1]}", resp.fq, v, f"Response.{name} pair {pair}")
    ctx.floor("R16.6", "typed header properties", n, 11)
    da = repo.cls("_internal._DictAccessorProperty")
    st = da.methods["__set__"]
    ctx.ob("R16.6", "_DictAccessorProperty.__set__ stores dump_func(value) under its own name", any(norm(s) == "self.lookup(instance)[self.name] = self.dump_func(value)" for s in ast.walk(st.node) if isinstance(s, ast.Assign)), "", st, st.node, "accessor set")
    gt = da.methods["__get__"]
    ctx.ob("R16.6", "_DictAccessorProperty.__get__ loads from its own name", any(norm(s) == "value = storage[self.name]" for s in ast.walk(gt.node) if isinstance(s, ast.Assign)) and any("self.load_func(value)" in norm(r) for r in astq.returns_of(gt.node)), "", gt, gt.node, "accessor get")

    # ---------------- R16.7 ----------------------------------------
    init = wa.methods["__init__"]
    init_low = any(isinstance(s, ast.Assign) and astq.is_self_attr(s.targets[0], "_type") and norm(s.value).endswith(".lower()") for s in ast.walk(init.node))
    ts = wa.methods.get("type.setter")
    if ts is None:
        raise AnalysisError("WWWAuthenticate.type setter missing")
    set_low = any(isinstance(s, ast.Assign) and astq.is_self_attr(s.targets[0], "_type") and norm(s.value).endswith(".lower()") for s in ast.walk(ts.node))
    ctx.ob("R16.7", "WWWAuthenticate.type setter lower-cases like the constructor", (not init_low) or set_low, f"constructor lower-cases: {init_low}; setter lower-cases: {set_low}", ts, ts.node, "type setter normal form")


def _header_keys(fn: ast.AST) -> tuple[set[str], set[str], set[str]]:
    """(read, written, deleted) header names in a function: constants lower-cased, free variables as `$name`."""
    reads: set[str] = set()
    writes: set[str] = set()
    dels: set[str] = set()

    def key(e: ast.AST) -> str | None:
        s = astq.const_str(e)
        if s is not None:
            return s.lower()
        if isinstance(e, ast.Name):
            return f"${e.id}"
        return None

    for n in ast.walk(fn):
        if isinstance(n, ast.Call) and isinstance(n.func, ast.Attribute) and astq.is_self_attr(n.func.value, "headers"):
            if n.func.attr in ("get", "getlist", "get_all") and n.args:
                k = key(n.args[0])
                if k:
                    reads.add(k)
            if n.func.attr in ("set", "add", "setlist") and n.args:
                k = key(n.args[0])
                if k:
                    writes.add(k)
            if n.func.attr in ("pop", "remove") and n.args:
                k = key(n.args[0])
                if k:
                    dels.add(k)
        if isinstance(n, ast.Subscript) and astq.is_self_attr(n.value, "headers"):
            k = key(n.slice)
            if k:
                if isinstance(n.ctx, ast.Store):
                    writes.add(k)
                elif isinstance(n.ctx, ast.Del):
                    dels.add(k)
                else:
                    reads.add(k)
    return reads, writes, dels


def _views(ctx: Ctx) -> None:
    repo = ctx.repo
    mod = repo.module("sansio.response")
    resp = repo.cls("sansio.response.Response")
    getters: list[tuple[str, FuncInfo, ast.AST]] = []
    # property getters on Response with a nested on_update
    for name, fi in resp.methods.items():
        if "." in name:
            continue
        nested = [x for x in fi.node.body if isinstance(x, ast.FunctionDef) and x.name == "on_update"]
        if nested:
            getters.append((name, fi, fi.node))
    # _set_property's fget
    sp = mod.functions.get("_set_property")
    if sp is None:
        raise AnalysisError("_set_property missing")
    for x in sp.node.body:
        if isinstance(x, ast.FunctionDef) and any(isinstance(y, ast.FunctionDef) and y.name == "on_update" for y in x.body):
            getters.append(("_set_property.fget", sp, x))
    ctx.floor("R16.5", "view getters", len(getters), 7)
    uses = [k for k, v in resp.attrs.items() if isinstance(v, ast.Call) and dotted(v.func) == "_set_property"]
    ctx.floor("R16.5", "_set_property instances", len(uses), 3)

    for name, fi, fn in getters:
        cb = [x for x in fn.body if isinstance(x, ast.FunctionDef) and x.name == "on_update"][0]
        body_wo_cb = ast.Module(body=[s for s in fn.body if s is not cb], type_ignores=[])
        reads, _, _ = _header_keys(body_wo_cb)
        r2, writes, dels = _header_keys(cb)
        # callback may assign the whole property: follow Response.<prop> setter/deleter one level
        for s in ast.walk(cb):
            if isinstance(s, ast.Assign) and astq.is_self_attr(s.targets[0]) and f"{s.targets[0].attr}.setter" in resp.methods:
                st = resp.methods[f"{s.targets[0].attr}.setter"]
                _, w2, d2 = _header_keys(st.node)
                writes |= w2
                dels |= d2
                dl = resp.methods.get(f"{s.targets[0].attr}.deleter")
                if dl is not None:
                    _, _, d3 = _header_keys(dl.node)
                    dels |= d3
        ok_names = len(reads) == 1 and writes == reads and (not dels or dels == reads)
        ctx.ob("R16.5", f"{name}: callback writes back the header that was read", ok_names, f"read {sorted(reads)}, written {sorted(writes)}, deleted {sorted(dels)}", fi, cb, f"{name} header names")
        # delete edge for an empty view (mimetype_params: Content-Type is never removed by emptying its parameters)
        if name != "mimetype_params":
            ctx.ob("R16.5", f"{name}: empty view deletes the header", bool(dels), f"deleted {sorted(dels)}", fi, cb, f"{name} delete edge")
        # set edge writes the view's serialisation
        param = cb.args.args[0].arg if cb.args.args else None
        ser = False
        for s in ast.walk(cb):
            if isinstance(s, ast.Assign):
                tg = s.targets[0]
                if isinstance(tg, ast.Subscript) and astq.is_self_attr(tg.value, "headers"):
                    v = norm(s.value)
                    ser = ser or v == f"{param}.to_header()" or (v.startswith("dump_options_header(") and v.endswith(f", {param})"))
                elif astq.is_self_attr(tg) and f"{tg.attr}.setter" in resp.methods and astq.is_name(s.value, param):
                    st = resp.methods[f"{tg.attr}.setter"]
                    ser = ser or any("value.to_header()" in norm(c_) for c_ in astq.calls(st.node))
        ctx.ob("R16.5", f"{name}: callback writes the view's serialisation", ser, f"callback parameter `{param}`", fi, cb, f"{name} serialisation")
        # callback attached on every return path
        rets = [r for r in ast.walk(body_wo_cb) if isinstance(r, ast.Return)]
        attached_stmt = [s for s in fn.body if isinstance(s, ast.Assign) and norm(s.targets[0]).endswith("._on_update") and astq.is_name(s.value, "on_update")]
        all_ok = bool(rets)
        for r in rets:
            v = r.value
            if isinstance(v, ast.Call):
                ok = _passes_cb(v)
            elif isinstance(v, ast.Name):
                defs = [d for _, d in astq.assigns_to(fn, v.id)]
                ok = bool(defs) and all(isinstance(d, ast.Call) and _passes_cb(d) for d in defs if d is not None)
                if attached_stmt and astq.is_name(attached_stmt[0].targets[0].value, v.id) and attached_stmt[0].lineno < r.lineno:  # type: ignore[attr-defined]
                    ok = True
            else:
                ok = False
            all_ok = all_ok and ok
        ctx.ob("R16.5", f"{name}: callback attached on every return path", all_ok, f"{len(rets)} return(s)", fi, fn, f"{name} callback attached")

    # whole-property setters write the getter's header
    for prop in ("content_range", "content_security_policy", "content_security_policy_report_only", "www_authenticate"):
        g = resp.methods.get(prop)
        s = resp.methods.get(f"{prop}.setter")
        if g is None or s is None:
            raise AnalysisError(f"Response.{prop} getter/setter missing")
        gr, _, _ = _header_keys(ast.Module(body=[x for x in g.node.body if not isinstance(x, ast.FunctionDef)], type_ignores=[]))
        _, sw, sd = _header_keys(s.node)
        d = resp.methods.get(f"{prop}.deleter")
        if d is not None:
            _, _, dd = _header_keys(d.node)
            sd |= dd
        ctx.ob("R16.5", f"Response.{prop} setter writes the getter's header", sw == gr and (not sd or sd == gr), f"getter reads {sorted(gr)}, setter writes {sorted(sw)} deletes {sorted(sd)}", s, s.node, f"{prop} setter header")
    for x in sp.node.body:
        if isinstance(x, ast.FunctionDef) and x.name == "fset":
            _, sw, sd = _header_keys(x)
            ctx.ob("R16.5", "_set_property setter writes its own header", sw == {"$name"} and sd == {"$name"}, f"writes {sorted(sw)} deletes {sorted(sd)}", sp, x, "_set_property setter header")


def _passes_cb(c: ast.Call) -> bool:
    return any(astq.is_name(a, "on_update") for a in c.args) or any(astq.is_name(k.value, "on_update") for k in c.keywords)


def _cache_value_table(ctx: Ctx, cc: ClassInfo) -> None:
    """decision table of _CacheControl._set_cache_value: a boolean directive is present iff the assigned value is
    truthy; any other directive is removed by None / False, valueless for True, and stores str(value) otherwise."""
    from ..guards import atom, decision_table

    fi = cc.methods["_set_cache_value"]
    cfg = cfg_of(fi)
    BOOL = atom("type is bool")[0]
    TRUTHY = atom("value")[0]
    NONE = atom("value is None")[0]
    FALSE = atom("value is False")[0]
    TRUE = atom("value is True")[0]
    TYPED = atom("type is None")[0]

    def consistent(v) -> bool:
        if v[NONE] and (v[TRUTHY] or v[FALSE] or v[TRUE]):
            return False
        if v[FALSE] and (v[TRUTHY] or v[TRUE]):
            return False
        if v[TRUE] and not v[TRUTHY]:
            return False
        if v[BOOL] and v[TYPED]:
            return False
        return True

    def effect(o) -> str:
        acts = []
        for n in o.passed:
            if n.kind != "stmt" or n.ast is None:
                continue
            t = norm(n.ast)
            if isinstance(n.ast, ast.Assign) and isinstance(n.ast.targets[0], ast.Subscript) and astq.is_name(n.ast.targets[0].value, "self"):
                acts.append("set-valueless" if norm(n.ast.value) == "None" else "set-str" if norm(n.ast.value).startswith("str(") else f"set-other:{norm(n.ast.value)}")
            elif "self.pop(" in t or t.startswith("del self["):
                acts.append("remove")
        return "+".join(acts) or "nothing"

    bad = []
    rows = decision_table(cfg, [BOOL, TRUTHY, NONE, FALSE, TRUE, TYPED], consistent)
    for v, outs in rows:
        if v[BOOL]:
            want = "set-valueless" if v[TRUTHY] else "remove"
        elif v[NONE] or v[FALSE]:
            want = "remove"
        elif v[TRUE]:
            want = "set-valueless"
        else:
            want = "set-str"
        got = sorted({effect(o) for o in outs})
        if got != [want]:
            bad.append(f"[bool directive={v[BOOL]}, truthy={v[TRUTHY]}, None={v[NONE]}, False={v[FALSE]}, True={v[TRUE]}] expected {want}, got {got}")
    ctx.floor("R16.6", "decision rows of _set_cache_value", len(rows), 8)
    ctx.ob("R16.6", "_set_cache_value: boolean directives follow the truthiness of the value; others None/False remove, True valueless, else str(value)", not bad, "; ".join(bad[:3]) + (f" (+{len(bad) - 3} more)" if len(bad) > 3 else "") if bad else f"{len(rows)} rows agree", fi, fi.node, "cache value decision table")
