"""C16 - live views of response headers never drift from the header text (structural clauses)."""

from __future__ import annotations

import ast
import typing as t

from .. import astq
from ..loader import AnalysisError, ClassInfo, FuncInfo, dotted, norm
from ..report import Ctx
from . import _c16_helpers as H
from ._shared import headerset_insertion_rule, headerset_order_rule, headerset_removal_rule, optional_int_rule

LEVEL_TEXT = (
    "Static decision of structural clauses of C16 on /repo's current source, by path-wise symbolic execution of the "
    "engine's CFGs over the inlined call graph of each class (calls on the object resolved in its MRO to any depth, "
    "decorators applied, property setters / deleters and private module helpers followed, conditions decided on "
    "constants, flags and membership facts of the path, identity / equality with a marker object - a private module-level "
    "sentinel of the package, an object() made in the function, Ellipsis - decided by which binding reached the test, "
    "the callback followed through local aliases): (R16.1) every "
    "dict mutator (typeshed table) of every CallbackDict-derived view resolves, in the class's MRO, to a method that "
    "performs a dict mutation and, on every path on which the dict changes, calls the callback with the dict "
    "afterwards; (R16.2) the same for every public HeaderSet method that changes the list / set, plus per-element "
    "growth under its own membership test, drop-before-add, and the removal half of the pairing: on every path an "
    "element leaves the ordered list (pop / remove / del / item store / filtering rebuild / clear) only together with "
    "the removal from the key set of a key that is that very element lower-cased (spelled so, or established equal on "
    "the path - by a test, by the filter of the search that found the element, by its position among the lower-cased "
    "elements; an index read after the list changed does not name the element that left), or is overwritten in place by an "
    "element the path has established to lower-case to the same key; (R16.3) ContentRange and WWWAuthenticate call the "
    "callback after every change of their state (descriptor __set__ / property setters included) and build their "
    "parameter dicts with a callable that notifies the view; (R16.4) a class overriding __setattr__ hands every name "
    "that is a property with a setter (or a data descriptor) to the default __setattr__ on every path, decided by "
    "executing __setattr__ with that name; (R16.5) each view getter attaches its write-back function on every "
    "return path, and that function - executed for a non-empty and an empty view - ends by writing the view's "
    "serialisation under the header the getter read, resp. deletes that header (or finds it absent; a test of len(view) "
    "against 0 counts as the truthiness test where the view's class has no __bool__ of its own or one that is the truth of "
    "the storage __len__ measures; the serialisation, declared -> str, is not None); whole-property "
    "setters operate on the same header; (R16.6) every typed header property has a load/dump pair from the reasoned "
    "inverse table (lambdas compared up to parameter names and eta-reduction), the accessor stores dump(value) and "
    "loads load(item) under its own name - path-wise: every completing path of __set__ that does not know the assigned "
    "value to be None (identity) ends with that store, so the branch that skips / deletes is taken for the sentinel only, "
    "never on the truthiness of the value or of its dumped text, equality with or membership in constants (0, timedelta(0), "
    "'' are values; a condition over the value of any other form is exit 2); every completing path of __delete__ drops the "
    "item under its own name or has found it absent (not: found its text falsy); every explicit setter of Response whose "
    "value is declared int / float / timedelta and that writes a header (retry_after) ends with a header write on every "
    "path that does not know `value is None`; the accessor returns its default only on a path that has found the name absent from the "
    "storage (membership false, storage.get(name) is None / is the fallback it was given) or that runs through an except "
    "clause (KeyError of the item read, the loader's ValueError / TypeError) - never on a path that only knows the "
    "stored text, or the value loaded from it, to be falsy: a header that is present with an empty text, or with '0', is a value -, and _set_cache_value agrees "
    "with its decision table under every consistent valuation; (R16.7) every writer of WWWAuthenticate's scheme attribute stores a lower-cased value like "
    "the constructor; (R16.8) a write-back replaces all lines of its header: each header write operation is "
    "classified by executing it on Headers with a string key (replacing: every completing path changes the line "
    "list and some path overwrites / drops lines; adding: the list only ever grows; or possibly not writing), the "
    "final write of every write-back path and every write of a whole-property setter is a replacing one (an adding "
    "one only right after a replacing write / a deletion of the same name), and every evaluated comparison in the "
    "inlined call graph of the Headers operations that getters, write-backs, setters and typed accessors use has both "
    "operands case-folded when one is (comprehension filters included); (R16.9) where a write-back behaves "
    "differently for a falsy view (deletes instead of writing), every candidate class of that view (annotations of "
    "the callback / getter / setter, classes the getter constructs) whose __bool__ / __len__ is defined in the package "
    "returns the empty string from the serialisation method the write-back stores on every path on which that method "
    "makes the object falsy (HeaderSet's list and set are empty together by R16.2). That Headers.set leaves exactly "
    "one line in every case (completeness of its scan, the shared iterator) is not decided beyond these comparisons; "
    "a loop over a container the path knows to be empty is not entered (so an append loop serialises nothing then), other "
    "accumulating serialisations are not recognised as empty; a __bool__ that reads its state through a descriptor object "
    "of the class is not followed (exit 2); equality of header text and serialisation "
    "after arbitrary histories follows from these clauses only together with C06's pairing and is not itself decided; "
    "implicit exceptions and generator bodies are not followed."
)
TRUSTED = [
    "CPython ast",
    "typeshed dict / MutableSet mutator tables",
    "Python descriptor protocol: a property with a setter is a data descriptor and object.__setattr__ invokes it",
    "builtin container semantics: dict.pop / set.discard / remove change the container iff the key is present, setdefault iff it is absent",
    "builtin truthiness: an object without __bool__ / __len__ is never falsy; a dict / list / set (subclass) is falsy iff it is empty; str.join of no items is '' whatever the separator; without __bool__, truthiness is len() != 0",
    "return annotations: a method declared `-> str` by every package class that defines it does not return None",
]
ASSUMPTIONS = [
    "a value a path knows to be falsy and then iterates is an empty container: the loop body does not run on that path",
    "a view whose on_update is None has nothing to notify",
    "direct header edits between view reads are outside these clauses",
    "private helpers are reachable only through the public methods of their class (they are judged inlined into their callers)",
    "the views address headers by name: header operations are judged with a string key (R16.8)",
    "a dict-based view (cache control, CSP) with no items serialises to the empty string (R16.9 relies on dict truthiness for them)",
    "a private module-level sentinel object of the package (`_missing = _Missing()`) gets into a value only by being named: identity with it "
    "is decided by which binding reached the comparison - the result of a call that is not handed the sentinel and does not read an element "
    "back out of a container / iterator / attribute is not the sentinel, and the value assigned to a cache-control directive never is",
]

PAIRS = {  # reasoned inverse table for typed header properties: (load, dump)
    ("parse_age", "dump_age"), ("int", "str"), ("parse_date", "http_date"), ("parse_set_header", "dump_header"),
    ("COOP", "lambda _0: _0.value"), ("COEP", "lambda _0: _0.value"),
}


def _is_public(name: str) -> bool:
    return not name.startswith("_") or (name.startswith("__") and name.endswith("__"))


def _collect(repo, cls, fi: FuncInfo, kinds: tuple[str, ...], subject: int | None = 0, args=None, facts0=None, oracle=None):
    """run the executor over one method and return (outcomes, events of the given kinds in encounter order, executor)."""
    seen: list[tuple] = []

    def on_event(a, ev, st):
        if ev[0] in kinds:
            seen.append(ev)
        return a

    ex = H.Exec(repo, cls, on_event=on_event, oracle=oracle)
    outs = ex.run_function(fi, args=args, auto0=None, facts0=facts0, subject=subject)
    return outs, seen, ex


def _descriptor_set(repo, cls: ClassInfo, value: ast.AST) -> FuncInfo | None:
    """``name = Descriptor(...)`` in a class body: the package descriptor's __set__ (None when it has none)."""
    if not isinstance(value, ast.Call):
        return None
    f = value.func.value if isinstance(value.func, ast.Subscript) else value.func
    d = dotted(f)
    if not d:
        return None
    tgt = repo.resolve(cls.module, d)
    k = repo.try_cls(tgt) if tgt and tgt.startswith("werkzeug") else None
    if k is None:
        return None
    _, what = repo.lookup(k, "__set__")
    return what if isinstance(what, FuncInfo) else None


def _descriptor_get(repo, cls: ClassInfo, value: ast.AST) -> bool:
    """``name = Descriptor(...)`` in a class body where the package class Descriptor defines __get__."""
    if not isinstance(value, ast.Call):
        return False
    f = value.func.value if isinstance(value.func, ast.Subscript) else value.func
    d = dotted(f)
    tgt = repo.resolve(cls.module, d) if d else None
    k = repo.try_cls(tgt) if tgt and tgt.startswith("werkzeug") else None
    return k is not None and isinstance(repo.lookup(k, "__get__")[1], FuncInfo)


def _callback_param(fi: FuncInfo) -> int | None:
    for i, p in enumerate(fi.params):
        if p == "on_update":
            return i
    return None


def run(ctx: Ctx) -> None:
    repo = ctx.repo
    for rid, text in {
        "R16.1": "every dict mutator of every CallbackDict-derived view resolves (MRO) to a method that performs the super() operation and then notifies on every normal path",
        "R16.2": "every HeaderSet method containing a primitive mutation notifies after it",
        "R16.3": "ContentRange / WWWAuthenticate notify after every write of private state; parameter dicts are built with the trigger",
        "R16.4": "a class that overrides __setattr__ delegates to the default for every property with a setter",
        "R16.5": "each view getter's callback writes/deletes the header it was read from, is attached on every return path, writes the view's serialisation; whole-property setters write the same header",
        "R16.6": "every typed header_property on Response has a load/dump pair from the reasoned inverse table; the accessor stores dump(value) / loads load(item) under its own name on every path for a value that is not None, deletes under its own name, and returns the default only for an absent name (presence is not judged by the truthiness of the stored text or of the loaded value); explicit scalar setters write the header for every value but None",
        "R16.7": "every writer of WWWAuthenticate's scheme applies the constructor's lower-casing",
        "R16.8": "a write-back replaces the header: its final write is an operation that, executed on Headers, stores the line on every path and can overwrite (an adding operation only right after a replacing write / deletion of the same name), and every name comparison in the Headers operations the views use is case-folded on both sides",
        "R16.9": "a view object that a write-back / whole-property setter treats as empty when it is falsy has nothing to serialise then: falsy (package-defined __bool__ / __len__) implies an empty serialisation",
    }.items():
        ctx.rule(rid, text)

    # ---------------- R16.1 ----------------------------------------
    views = [c for c in repo.all_classes() if any(k.name == "UpdateDictMixin" for k in repo.mro(c)) and not any(k.name.startswith("Immutable") for k in repo.mro(c))]
    views = sorted(views, key=lambda c: c.fq)
    ctx.floor("R16.1", "callback dict classes", len(views), 5)
    dict_mut = repo.mutators("dict")
    n = 0
    wrappers: dict[str, FuncInfo] = {}
    for c in views:
        for name in sorted(dict_mut):
            owner, what = repo.lookup(c, name)
            n += 1
            if not isinstance(what, FuncInfo):
                ctx.ob("R16.1", f"{c.name}.{name}", False, f"resolves to {owner.name if owner else None}.{name} ({what if isinstance(what, str) else type(what).__name__}): a raw dict mutator, no notification", c.fq, None, f"{c.name}.{name} raw")
                continue
            ctx.saw(what)
            r = H.notify_flow(repo, c, what)
            for d in r.ex._package_decorators(what):
                wrappers[d.fq] = d
            fact = r.fact if r.mutates else "no path of the inlined call graph performs a dict mutation"
            ctx.ob("R16.1", f"{c.name}.{name}", r.mutates and r.ok, f"{owner.name}.{name}: {fact}", what, what.node, f"{c.name}.{name} notifies")
    ctx.floor("R16.1", "mutator x class obligations", n, 40)
    for d in sorted(wrappers.values(), key=lambda f: f.fq):
        r = H.notify_wrapper(repo, d)
        ctx.ob("R16.1", f"{d.name} wrapper performs the call, then notifies", r.ok, r.fact, d, d.node, f"{d.name} wrapper")
    # typed property setters mutate only through the dict protocol
    cc = repo.cls("datastructures.cache_control._CacheControl")
    for nm in ("_set_cache_value", "_del_cache_value"):
        fi = cc.methods.get(nm)
        if fi is None:
            raise AnalysisError(f"_CacheControl.{nm} missing")
        r = H.notify_flow(repo, cc, fi)
        ctx.ob("R16.1", f"_CacheControl.{nm} mutates only through notifying methods", r.mutates and r.ok, r.fact if r.mutates else "no path changes the dict", fi, fi.node, f"{nm} via protocol")
    _cache_value_table(ctx, cc)
    csp = repo.cls("datastructures.csp.ContentSecurityPolicy")
    for nm in ("_get_value", "_set_value", "_del_value"):
        fi = csp.methods.get(nm)
        if fi is not None:
            r = H.notify_flow(repo, csp, fi)
            ctx.ob("R16.1", f"ContentSecurityPolicy.{nm} mutates only through notifying methods", r.ok, r.fact, fi, fi.node, f"csp {nm} via protocol")
    # CallbackDict stores the callback it is given
    cb = repo.cls("datastructures.structures.CallbackDict")
    init = cb.methods["__init__"]
    pi = _callback_param(init)
    if pi is None:
        raise AnalysisError("CallbackDict.__init__ has no on_update parameter")
    outs, evs, _ = _collect(repo, cb, init, ("store",))
    stored = [e for e in evs if e[1] == H.SELF and e[2] in H.CB_ATTRS]
    ok = bool(stored) and all(e[3] == f"__p{pi}__" for e in stored) and all(o.kind != "ret" or True for o in outs)
    ctx.ob("R16.1", "CallbackDict.__init__ stores on_update", ok, f"callback attribute stores: {[(e[2], e[3]) for e in stored]}", init, init.node, "CallbackDict stores callback")

    # ---------------- R16.2 ----------------------------------------
    hs = repo.cls("datastructures.structures.HeaderSet")
    n = 0
    for name, fi in sorted(hs.methods.items()):
        if name == "__init__" or not _is_public(name):
            continue  # private helpers are judged inlined into their callers
        r = H.notify_flow(repo, hs, fi)
        if not r.mutates:
            continue
        n += 1
        ctx.ob("R16.2", f"HeaderSet.{name} notifies after mutating", r.ok, r.fact, fi, fi.node, f"HeaderSet.{name} notifies")
    ctx.floor("R16.2", "HeaderSet mutating methods", n, 5)
    ctx.floor("R16.2", "HeaderSet list growth sites", headerset_insertion_rule(ctx, "R16.2"), 1)
    ctx.floor("R16.2", "HeaderSet methods that drop and add a key", headerset_order_rule(ctx, "R16.2"), 1)
    ctx.floor("R16.2", "HeaderSet sites where an element leaves the list", headerset_removal_rule(ctx, "R16.2"), 2)
    # MutableSet mixin methods (|=, &=, pop, ...) come from the ABC and go through add/discard: both must be package methods
    for nm in ("add", "discard"):
        o, w = repo.lookup(hs, nm)
        ctx.ob("R16.2", f"HeaderSet.{nm} is defined by the class (ABC mixins route through it)", isinstance(w, FuncInfo), f"owner {o.name if o else None}", w if isinstance(w, FuncInfo) else hs.fq, None, f"HeaderSet.{nm} defined")

    # ---------------- R16.3 ----------------------------------------
    cr = repo.cls("datastructures.range.ContentRange")
    # the four public attributes are written through something that notifies: a descriptor whose __set__ stores
    # into the instance and then calls the instance's callback, or a property whose setter does
    good = []
    for attr in ("units", "start", "stop", "length"):
        _, what = repo.lookup(cr, attr)
        if isinstance(what, FuncInfo):
            st_ = cr.methods.get(f"{attr}.setter")
            if st_ is None:
                ctx.ob("R16.3", f"ContentRange.{attr} is writable and notifies", False, "property without setter", what, what.node, f"ContentRange.{attr} descriptor")
                continue
            r = H.notify_flow(repo, cr, st_)
            okd = r.mutates and r.ok
            where, fact = st_, r.fact
        else:
            ds = _descriptor_set(repo, cr, what) if what is not None else None
            if ds is None:
                okd, where, fact = False, cr.fq, "not a descriptor with __set__ nor a property"
            else:
                r = H.notify_flow(repo, cr, ds, subject=1)
                okd, where, fact = r.mutates and r.ok, ds, r.fact if r.mutates else "__set__ does not store into the instance"
                ctx.ob("R16.3", f"{ds.qualname} stores then notifies", okd, fact, ds, ds.node, ds.qualname)
        if okd:
            good.append(attr)
    ctx.ob("R16.3", "ContentRange attributes are callback properties", sorted(good) == ["length", "start", "stop", "units"], f"{sorted(good)}", cr.fq, None, "ContentRange descriptors")
    n = 0
    for name, m in sorted(cr.methods.items()):
        if name == "__init__" or not _is_public(name) or "." in name:
            continue
        r = H.notify_flow(repo, cr, m)
        if not r.mutates:
            continue
        n += 1
        ctx.ob("R16.3", f"ContentRange.{name} stores then notifies", r.ok, r.fact, m, m.node, f"ContentRange.{name}")
    ctx.floor("R16.3", "ContentRange writers", n, 2)

    ctx.floor("R16.3", "ContentRange methods using optional ints", optional_int_rule(ctx, "R16.3", cr), 2)

    wa = repo.cls("datastructures.auth.WWWAuthenticate")
    n = 0
    ncd = 0
    for name, m in sorted(wa.methods.items()):
        if "classmethod" in m.decorators or "staticmethod" in m.decorators:
            continue
        # child containers are built with a callback that notifies the view
        outs, evs, ex = _collect(repo, wa, m, ("construct",))
        done = set()
        for e in evs:
            k = repo.try_cls(repo.resolve(m.module, e[1]) or "") if True else None
            if k is None or not any(x.name == "UpdateDictMixin" for x in repo.mro(k)) or id(e[-2]) in done:
                continue
            done.add(id(e[-2]))
            _, kinit = repo.lookup(k, "__init__")
            pi = _callback_param(kinit) if isinstance(kinit, FuncInfo) else None
            kw = dict(e[3])
            cbv = kw.get("on_update") or (e[2][pi - 1] if pi is not None and len(e[2]) >= pi else None)
            ncd += 1
            if cbv is None:
                okc, fact = False, "constructed without a callback"
            else:
                okc, fact = H.callable_notifies(repo, wa, ex, cbv)
            ctx.ob("R16.3", f"WWWAuthenticate.{name} builds its parameter dict with the trigger", okc, f"{norm(e[-2])}: {fact}", m, e[-2], f"CallbackDict in {name}")
        if name == "__init__" or not _is_public(name) and not name.endswith((".setter", ".deleter")):
            continue
        r = H.notify_flow(repo, wa, m)
        if not r.mutates:
            continue
        n += 1
        ctx.ob("R16.3", f"WWWAuthenticate.{name} notifies after writing", r.ok, r.fact, m, m.node, f"WWWAuthenticate.{name} notifies")
    ctx.floor("R16.3", "WWWAuthenticate writers", n, 5)
    ctx.floor("R16.3", "CallbackDict constructions", ncd, 2)

    # ---------------- R16.4 ----------------------------------------
    n = 0
    for c in repo.all_classes():
        sa = c.methods.get("__setattr__")
        if sa is None:
            continue
        setters = sorted(k.rsplit(".", 1)[0] for k in c.methods if k.endswith(".setter"))
        descs = sorted(k for k, v in c.attrs.items() if _descriptor_set(repo, c, v) is not None)
        need = setters + descs
        if not need or len(sa.params) < 3:
            continue
        n += 1
        for prop in need:
            def on_event(a, ev, st, prop=prop):
                if ev[0] == "setattr" and ev[1] == repr(prop):
                    return True
                return a

            ex = H.Exec(repo, c, on_event=on_event)
            outs = [o for o in ex.run_function(sa, args=[None, repr(prop), None], auto0=False) if o.kind == "ret"]
            yes = [o for o in outs if o.st.auto]
            no = [o for o in outs if not o.st.auto]
            ctx.ob("R16.4", f"{c.name}.__setattr__ reaches the `{prop}` setter", bool(yes) and not no, f"with name={prop!r}: {len(yes)} path(s) hand the name to the default __setattr__ (which runs the data descriptor), {len(no)} do not" + (f" (lines {', '.join(map(str, no[0].st.trail))})" if no and no[0].st.trail else ""), sa, sa.node, f"{c.name}.__setattr__ delegates {prop}")
    ctx.floor("R16.4", "classes overriding __setattr__ with property setters", n, 1)

    # ---------------- R16.5 / R16.8 / R16.9 ------------------------
    _classify_write_ops(repo)
    _views(ctx)
    _header_ops_casefold(ctx)

    # ---------------- R16.6 ----------------------------------------
    resp = repo.cls("sansio.response.Response")
    n = 0
    acc_classes: dict[str, ClassInfo] = {}
    for name, v in sorted(resp.attrs.items()):
        if not isinstance(v, ast.Call):
            continue
        f = v.func.value if isinstance(v.func, ast.Subscript) else v.func
        tgt = repo.resolve(resp.module, dotted(f) or "")
        k = repo.try_cls(tgt) if tgt and tgt.startswith("werkzeug") else None
        if k is None or not any(x.name == "_DictAccessorProperty" for x in repo.mro(k)):
            continue
        acc_classes[k.fq] = k
        _, kinit = repo.lookup(k, "__init__")
        if not isinstance(kinit, FuncInfo) or "load_func" not in kinit.params or "dump_func" not in kinit.params:
            raise AnalysisError(f"{k.name}.__init__ has no load_func / dump_func parameters")
        load = astq.arg_or_kw(v, kinit.params.index("load_func") - 1, "load_func")
        dump = astq.arg_or_kw(v, kinit.params.index("dump_func") - 1, "dump_func")
        ro = astq.kwarg(v, "read_only")
        if load is None and dump is None:
            continue
        n += 1
        pair = (_canon_func(load) if load is not None else None, _canon_func(dump) if dump is not None else None)
        ok = pair in PAIRS or (ro is not None and norm(ro) == "True" and load is not None)
        ctx.ob("R16.6", f"Response.{name} load/dump pair", ok, f"load={pair[0]} dump={pair[1]}", resp.fq, v, f"Response.{name} pair {pair}")
    ctx.floor("R16.6", "typed header properties", n, 11)
    for k in sorted(acc_classes.values(), key=lambda c: c.fq):
        _accessor(ctx, k)
    _scalar_setters(ctx, resp)

    # ---------------- R16.7 ----------------------------------------
    _, tg = repo.lookup(wa, "type")
    if not isinstance(tg, FuncInfo) or wa.methods.get("type.setter") is None:
        raise AnalysisError("WWWAuthenticate.type property / setter missing")
    gouts, _, _ = _collect(repo, wa, tg, ())
    locs = {H.loc_of(o.value) for o in gouts if o.kind == "ret"}
    if len(locs) != 1 or None in locs:
        raise AnalysisError(f"WWWAuthenticate.type does not return one private attribute ({sorted(map(str, locs))})")
    tloc = next(iter(locs))
    writers: dict[str, tuple[FuncInfo, list[tuple]]] = {}
    for name, m in sorted(wa.methods.items()):
        if "classmethod" in m.decorators or "staticmethod" in m.decorators:
            continue
        _, evs, _ = _collect(repo, wa, m, ("mut",))
        w = [e for e in evs if e[1] == tloc and e[2] == "store" and e[-1] is m]
        if w:
            writers[name] = (m, w)
    if "__init__" not in writers or "type.setter" not in writers:
        raise AnalysisError(f"WWWAuthenticate: constructor / type setter do not store self.{tloc}")
    init_low = all(H.is_lowered(e[3][0]) for e in writers["__init__"][1])
    for name, (m, w) in writers.items():
        if name == "__init__":
            continue
        low = all(H.is_lowered(e[3][0]) for e in w)
        label = "type setter" if name == "type.setter" else name
        ctx.ob("R16.7", f"WWWAuthenticate.{'type setter' if name == 'type.setter' else name} lower-cases like the constructor", (not init_low) or low, f"constructor stores lower-cased: {init_low}; {label} stores {[e[3][0] for e in w]}", m, m.node, f"{label} normal form")


ZERO_TYPES = {"int", "float", "timedelta", "Decimal", "Fraction"}  # annotation names of types with a legitimate falsy value


def _admits_zero(ann: ast.AST | None) -> bool:
    if ann is None:
        return False
    if isinstance(ann, ast.Constant) and isinstance(ann.value, str):
        try:
            ann = ast.parse(ann.value, mode="eval").body
        except SyntaxError:
            return False
    return any((isinstance(x, ast.Name) and x.id in ZERO_TYPES) or (isinstance(x, ast.Attribute) and x.attr in ZERO_TYPES) for x in ast.walk(ann))


def _value_knowledge(facts: dict[str, bool], V: str, also: tuple[str, ...] = ()) -> tuple[str, list[str]]:
    """(what the path knows about the assigned value, atoms over it that the clause does not model).  Modelled: the
    truthiness of the value (or of its dumped form), identity with None / True / False, equality with / membership in
    constants, isinstance tests - a path that skips the store on any of these without knowing ``value is None`` loses
    a legitimate value.  Anything else over the value (a predicate computed from it) is not judged: exit 2."""
    subjects = (V,) + also
    knows, unknown = [], []
    for key, val in sorted(facts.items()):
        if not H.re.search(rf"(?<![\w.]){H.re.escape(V)}(?![\w])", key):
            continue
        n = H.P(key)
        ok = key in subjects
        if isinstance(n, ast.Compare) and len(n.ops) == 1:
            a, b, op = H.text(n.left), H.text(n.comparators[0]), n.ops[0]
            for x, y in ((a, b), (b, a)):
                if x in subjects and (H.const_of(y) is not H._NOCONST or y in ("None", "True", "False")) and isinstance(op, (ast.Is, ast.Eq, ast.In, ast.Lt, ast.LtE, ast.Gt, ast.GtE, ast.NotEq, ast.IsNot, ast.NotIn)):
                    ok = True
        elif isinstance(n, ast.Call) and dotted(n.func) == "isinstance" and n.args and H.text(n.args[0]) in subjects:
            ok = True
        (knows if ok else unknown).append(f"`{key.replace(V, 'value')}` is {str(val).lower()}")
    return ", ".join(knows + unknown) or "nothing about the value", unknown


def _text_not_none_oracle(repo, module):
    """``str(x) is None`` / ``f(x) is None`` for a package function declared ``-> str``: false."""
    def oracle(key: str):
        n = H.P(key)
        if isinstance(n, ast.Compare) and len(n.ops) == 1 and isinstance(n.ops[0], ast.Is) and H.text(n.comparators[0]) == "None" and isinstance(n.left, ast.Call):
            d = dotted(n.left.func)
            if d in ("str", "repr", "format", "int", "float", "bool"):
                return False
            tgt = repo.resolve(module, d) if d else None
            tf = repo.try_func(tgt) if tgt and tgt.startswith("werkzeug") else None
            r = tf.node.returns if tf is not None else None
            if r is not None and ((isinstance(r, ast.Name) and r.id == "str") or (isinstance(r, ast.Constant) and r.value == "str")):
                return False
        return None

    return oracle


def _scalar_setters(ctx: Ctx, resp: ClassInfo) -> None:
    """explicit setters of scalar header properties (written out with @prop.setter instead of header_property): where
    the assigned value's declared type has a legitimate falsy member (int / float / timedelta: 0), the branch that does
    not write the header (deletes it, returns early) is taken for the sentinel None only - on every completing path
    that does not know ``value is None`` the last header operation is a write."""
    repo = ctx.repo
    n = 0
    for c in sorted((c for c in repo.all_classes() if resp in repo.mro(c)), key=lambda c: c.fq):
        for name, fi in sorted(c.methods.items()):
            if not name.endswith(".setter") or len(fi.params) < 2 or len(fi.node.args.args) < 2:
                continue
            if not _admits_zero(fi.node.args.args[1].annotation):
                continue
            ex = H.Exec(repo, c, on_event=_header_auto, oracle=_text_not_none_oracle(repo, fi.module))
            rets = [o for o in ex.run_function(fi, auto0=((), frozenset(), frozenset())) if o.kind == "ret"]
            if not any(kind in ("W", "A", "M") for o in rets for kind, _, _ in o.st.auto[0]):
                continue  # not a header property (status_code)
            n += 1
            V = "__p1__"
            bad = []
            n_paths = 0
            for o in rets:
                if o.st.facts.get(f"{V} is None") is True:
                    continue
                n_paths += 1
                ops = o.st.auto[0]
                if ops and ops[-1][0] in ("W", "A"):
                    continue
                knows, unknown = _value_knowledge(o.st.facts, V)
                if unknown:
                    raise AnalysisError(f"{fi.fq}: a path that does not end with a header write depends on {unknown[0]}, a condition over the assigned value that the clause does not model")
                did = f"ends with {'a deletion of' if ops[-1][0] == 'D' else 'an operation that may not write'} {ops[-1][1]!r}" if ops else "performs no header operation"
                bad.append(f"a path that knows {knows} (not that it is None) {did} (lines {', '.join(map(str, o.st.trail[-6:])) or '-'}): a falsy value such as 0 does not reach the header")
            prop = name.rsplit(".", 1)[0]
            ctx.ob("R16.6", f"{c.name}.{prop} setter writes the header for every value but None", not bad, "; ".join(sorted(set(bad))[:2]) or f"{n_paths} completing path(s) for a value not known to be None, each ending with a header write", fi, fi.node, f"{c.name}.{prop} setter scalar")
    ctx.floor("R16.6", "explicit setters of scalar header properties", n, 1)


def _canon_func(e: ast.AST) -> str:
    """canonical text of a load / dump function: module prefixes dropped, ``lambda x: F(x)`` eta-reduced to ``F``,
    lambda parameters renamed positionally."""
    if isinstance(e, ast.Lambda) and len(e.args.args) == 1 and not (e.args.vararg or e.args.kwarg or e.args.kwonlyargs or e.args.defaults):
        p = e.args.args[0].arg
        b = e.body
        if isinstance(b, ast.Call) and len(b.args) == 1 and not b.keywords and isinstance(b.args[0], ast.Name) and b.args[0].id == p and not any(isinstance(x, ast.Name) and x.id == p for x in ast.walk(b.func)):
            return _canon_func(b.func)
        repl = {id(x): "_0" for x in ast.walk(b) if isinstance(x, ast.Name) and x.id == p}
        return "lambda _0: " + H.text(H.clone(b, repl))
    d = dotted(e)
    if d:
        return d.rsplit(".", 1)[-1]
    return norm(e)


def _item_events(a, ev, st_):
    """what the path did to items of the storage, in order: subscript stores / deletions, and method calls on the
    storage object that write (``S.__setitem__(k, v)`` / ``S.set(k, v)``), drop (pop / clear / ...) or may write."""
    if ev[0] == "storeitem":
        return (a + ((ev[1], ev[2], ev[3]),))[-6:]
    if ev[0] == "handler":
        return (a + (("__handler__", "", "__handler__"),))[-6:]  # the path continues in an except clause
    if ev[0] == "mcall":
        recv, attr, args = ev[1], ev[2], ev[3]
        if attr in ("__setitem__", "set") and len(args) == 2:
            return (a + ((recv, args[0], args[1]),))[-6:]
        if attr in ("pop", "popitem", "clear", "remove", "discard", "__delitem__"):
            return (a + ((recv, args[0] if args else "*", "__deleted__"),))[-6:]
        if attr in ("update", "setdefault", "add", "setlist", "setlistdefault", "add_header", "extend"):
            return (a + ((recv, args[0] if args else "*", f"__unmodelled_{attr}__"),))[-6:]
    return a


def _accessor(ctx: Ctx, k: ClassInfo) -> None:
    """the accessor descriptor stores dump_func(value) under its own name in the object's header storage and loads
    load_func(<the item under its own name>) from the same storage."""
    repo = ctx.repo
    _, st = repo.lookup(k, "__set__")
    _, gt = repo.lookup(k, "__get__")
    if not isinstance(st, FuncInfo) or not isinstance(gt, FuncInfo):
        raise AnalysisError(f"{k.name} has no __set__ / __get__")
    tag = "" if k.name == "header_property" else f"{k.name} "
    bad: list[str] = []
    storages: set[str] = set()
    V = "__p2__"  # the assigned value
    n_paths = n_none = 0

    for dump_none in (False, True):
        # path form: on EVERY completing path of __set__ that does not know the assigned value to be the sentinel None
        # (identity), the item under the accessor's own name ends up as dump_func(value) (the value itself without a
        # dumper).  A path that skips / deletes instead because the value is merely falsy, equal to some constant or a
        # member of some collection loses a legitimate value (content_length = 0, age = timedelta(0), location = '').
        ex = H.Exec(repo, k, on_event=_item_events)
        outs = ex.run_function(st, auto0=(), facts0={"__self__.dump_func is None": dump_none, "__self__.read_only": False, "__self__.dump_func": not dump_none})
        rets = [o for o in outs if o.kind == "ret"]
        want = V if dump_none else f"__self__.dump_func({V})"
        which = f"dump_func {'absent' if dump_none else 'present'}"
        if not rets:
            bad.append(f"{which}: no completing path")
            continue
        for o in rets:
            if o.st.facts.get(f"{V} is None") is True:
                n_none += 1
                continue  # the sentinel: "no value" may be handled apart
            n_paths += 1
            knows, unknown = _value_knowledge(o.st.facts, V, (f"__self__.dump_func({V})",))
            lines = ", ".join(map(str, o.st.trail[-6:])) or "-"
            events = [e for e in o.st.auto if e[0] != "__handler__"]
            written = [e for e in events if e[2] != "__deleted__" and not e[2].startswith("__unmodelled_")]
            # a write the clause does not model (update / setdefault / ...) matters where it could be the store: on the
            # object that is written, or on a path that otherwise stores nothing
            unmodelled = [e for e in events if e[2].startswith("__unmodelled_") and (not written or e[0] == written[-1][0])]
            if unmodelled:
                raise AnalysisError(f"{st.fq}: an item is written with `{unmodelled[0][0]}.{unmodelled[0][2][len('__unmodelled_'):-2]}(...)`, which the rule does not model")
            if not written:
                if unknown:
                    raise AnalysisError(f"{st.fq}: a path that completes without storing the item depends on {unknown[0]}, a condition over the assigned value that the clause does not model")
                bad.append(f"{which}: a path that knows {knows} (not that it is None) completes without storing the item (lines {lines}): a falsy / matching value such as 0, timedelta(0) or '' is dropped instead of dumped")
                continue
            mine = [e for e in events if e[0] == written[-1][0]]  # what happened to the storage object that was written
            obj, idx, val = mine[-1]
            storages.add(obj)
            if idx != "__self__.name" or val != want or any(e[1] != "__self__.name" or e[2] not in (want, "__deleted__") for e in mine):
                bad.append(f"{which}: a path that knows {knows} ends with `{obj}[{idx}] = {val}` (expected `{want}` under `self.name`; lines {lines})")
    bad = sorted(set(bad))
    ctx.ob("R16.6", f"{tag}_DictAccessorProperty.__set__ stores dump_func(value) under its own name", not bad, "; ".join(bad[:3]) or f"storage {sorted(storages)}; {n_paths} completing path(s) for a value not known to be None, each ending with that store" + (f"; {n_none} path(s) for `value is None`" if n_none else ""), st, st.node, f"{tag}accessor set")
    outs, _, _ = _collect(repo, k, gt, (), facts0={"__p1__ is None": False, "__self__.load_func is None": False, "__self__.load_func": True})
    vals = sorted({o.value for o in outs if o.kind == "ret"})
    loaded = []
    for v in vals:
        n = H.P(v)
        if isinstance(n, ast.Call) and H.text(n.func) == "__self__.load_func" and len(n.args) == 1:
            a = n.args[0]
            item = (isinstance(a, ast.Subscript) and H.text(a.slice) == "__self__.name" and H.text(a.value) in storages) or (
                isinstance(a, ast.Call) and isinstance(a.func, ast.Attribute) and a.func.attr in ("get", "pop") and a.args and H.text(a.args[0]) == "__self__.name" and H.text(a.func.value) in storages
            )
            loaded.append(bool(item))
    raw = [v for v in vals if any(v == f"{s_}[__self__.name]" for s_ in storages)]
    ok = bool(loaded) and all(loaded) and not raw
    ctx.ob("R16.6", f"{tag}_DictAccessorProperty.__get__ loads from its own name", ok, f"returns {vals}", gt, gt.node, f"{tag}accessor get")
    _accessor_presence(ctx, k, gt, storages, tag)
    _accessor_delete(ctx, k, storages, tag)


def _accessor_delete(ctx: Ctx, k: ClassInfo, storages: set[str], tag: str) -> None:
    """delete side of the typed properties: ``del response.prop`` removes the header whatever its text.  On every
    completing path of ``__delete__`` (not read-only) the item under the accessor's own name leaves the storage
    (pop / del), or the path has found the name absent; a path that keeps the item because the stored text is merely
    falsy leaves a present, empty header behind."""
    repo = ctx.repo
    _, dl = repo.lookup(k, "__delete__")
    if not isinstance(dl, FuncInfo):
        return  # no deleter: nothing to decide (whether the property is deletable is not part of these clauses)
    ex = H.Exec(repo, k, on_event=_item_events)
    rets = [o for o in ex.run_function(dl, auto0=(), facts0={"__self__.read_only": False}) if o.kind == "ret"]
    if not rets:
        raise AnalysisError(f"{dl.fq}: no completing path")
    bad: list[str] = []
    undecided: list[str] = []
    n_drop = 0
    for o in rets:
        handled = any(e[0] == "__handler__" for e in o.st.auto)
        events = [e for e in o.st.auto if (e[0] in storages if storages else e[0] != "__handler__")]
        lines = ", ".join(map(str, o.st.trail[-6:])) or "-"
        if events and events[-1][2] == "__deleted__" and events[-1][1] == "__self__.name":
            n_drop += 1
            continue
        if events:
            bad.append(f"a path ends with `{events[-1][0]}[{events[-1][1]}] = {events[-1][2]}` instead of dropping the item under `self.name` (lines {lines})")
            continue
        absent, falsy = [], []
        for key, val in o.st.facts.items():
            n = H.P(key)
            if isinstance(n, ast.Compare) and len(n.ops) == 1:
                op, a, b = n.ops[0], n.left, n.comparators[0]
                if isinstance(op, ast.In) and H.text(a) == "__self__.name" and H.text(b) in storages and val is False:
                    absent.append(key)
                for x, y in ((a, b), (b, a)):
                    it = _item_read(x, storages)
                    if it is not None and isinstance(op, (ast.Is, ast.Eq)) and it[1] is not None and H.text(y) == it[1] and val is True:
                        absent.append(key)
            elif _item_read(n, storages) is not None and val is False:
                falsy.append(key)
        if absent or handled:  # found absent by a test, or by the KeyError of the removal (the path ran through an except clause)
            n_drop += 1
        elif falsy:
            bad.append(f"a path keeps the item knowing only that `{falsy[0]}` is falsy (lines {lines}): a header that is present with an empty text survives `del`")
        elif not any("__self__.name" in key or any(s_ in key for s_ in storages) for key in o.st.facts):
            bad.append(f"a path completes without touching the item under `self.name` and without having tested for it (lines {lines})")
        else:
            undecided.append(lines)
    if undecided and not bad:
        raise AnalysisError(f"{dl.fq}: a path (lines {undecided[0]}) completes without dropping the item, and no absence test of the key explains it")
    ctx.ob("R16.6", f"{tag}_DictAccessorProperty.__delete__ drops the item under its own name", not bad, "; ".join(bad[:2]) or f"{n_drop} completing path(s), each dropping `self.name` from {sorted(storages)} or having found it absent", dl, dl.node, f"{tag}accessor delete")


def _item_read(n: ast.AST, storages: set[str]) -> tuple[str, str | None] | None:
    """(how, fallback) when the node reads the item stored under the accessor's own name: ``S[self.name]`` ->
    ('subscript', None); ``S.get(self.name[, d])`` -> ('get', d or 'None'); ``S.pop(self.name, d)``."""
    if isinstance(n, ast.Subscript) and H.text(n.slice) == "__self__.name" and H.text(n.value) in storages:
        return "subscript", None
    if isinstance(n, ast.Call) and isinstance(n.func, ast.Attribute) and n.func.attr in ("get", "pop") and n.args and not n.keywords and H.text(n.args[0]) == "__self__.name" and H.text(n.func.value) in storages:
        return n.func.attr, (H.text(n.args[1]) if len(n.args) > 1 else "None")
    return None


def _accessor_presence(ctx: Ctx, k: ClassInfo, gt: FuncInfo, storages: set[str], tag: str) -> None:
    """read side of the typed properties: a header that is present reads back as its loaded value, whatever its
    text (an empty text is a value: assigning '' / an empty collection and reading it back does not give the
    default).  Decided on every path of ``__get__`` (instance given; with and without a loader) that returns
    something not computed from the stored item - the default: the path must have found the key *absent*
    (``name in storage`` false; ``storage.get(name) is None`` / ``storage.get(name, X) is X`` true) or run through an
    ``except`` handler (KeyError of the item read, the loader's ValueError / TypeError); a path on which the only thing
    known about the item is that it is falsy (``not value``, ``len(value) == 0``, ``value == ''``) treats a present,
    empty header as a missing one."""
    repo = ctx.repo
    def on_event(a, ev, st):
        return True if ev[0] == "handler" else a  # the path runs through an ``except`` clause (any depth of the call graph)

    def from_item(term: str) -> bool:
        return any(_item_read(x, storages) is not None for x in ast.walk(H.P(term)))

    n_default = 0
    bad: list[str] = []
    undecided: list[str] = []
    seen_ok: set[str] = set()
    for loader in (True, False):
        ex = H.Exec(repo, k, on_event=on_event)
        outs = ex.run_function(gt, auto0=False, facts0={"__p1__ is None": False, "__self__.load_func is None": not loader, "__self__.load_func": loader})
        for o in outs:
            if o.kind != "ret" or from_item(o.value):
                continue
            n_default += 1
            absent, falsy = [], []
            for key, val in o.st.facts.items():
                n = H.P(key)
                if isinstance(n, ast.Compare) and len(n.ops) == 1:
                    op, a, b = n.ops[0], n.left, n.comparators[0]
                    if isinstance(op, ast.In) and H.text(a) == "__self__.name" and H.text(b) in storages:
                        if val is False:
                            absent.append(f"`{key}` is false")
                        continue
                    for x, y in ((a, b), (b, a)):
                        it = _item_read(x, storages)
                        if it is None:
                            continue
                        c = H.const_of(H.text(y))
                        if isinstance(op, (ast.Is, ast.Eq)) and it[1] is not None and H.text(y) == it[1]:
                            if val is True:  # the fallback of get() came back: nothing is stored under the name
                                absent.append(f"`{key}` is true")
                        elif isinstance(op, ast.Eq) and c is not H._NOCONST and c is not None and not c:
                            if val is True:  # item == '' / item == []
                                falsy.append(f"`{key}` is true")
                    for x, y in ((a, b), (b, a)):  # len(item) == 0 / len(item) < 1 / 0 < len(item)
                        if isinstance(x, ast.Call) and dotted(x.func) == "len" and len(x.args) == 1 and _item_read(x.args[0], storages) is not None:
                            c = H.const_of(H.text(y))
                            empty_when = None
                            if isinstance(op, ast.Eq) and c == 0:
                                empty_when = True
                            elif isinstance(op, ast.Lt) and ((x is a and c == 1) or (x is b and c == 0)):
                                empty_when = (x is a)
                            if empty_when is not None and val is empty_when:
                                falsy.append(f"`{key}` is {str(val).lower()}")
                elif _item_read(n, storages) is not None and val is False:
                    falsy.append(f"`{key}` is falsy")
                elif isinstance(n, ast.Call) and H.text(n.func) == "__self__.load_func" and len(n.args) == 1 and not n.keywords and _item_read(n.args[0], storages) is not None and val is False:
                    falsy.append(f"the loaded value `{key}` is falsy (0, timedelta(0), an empty set are values)")
                elif isinstance(n, ast.Call) and dotted(n.func) == "len" and len(n.args) == 1 and _item_read(n.args[0], storages) is not None and val is False:
                    falsy.append(f"`{key}` is 0")
            lines = ", ".join(map(str, o.st.trail[-6:]))
            if absent:
                seen_ok.add(f"key found absent ({absent[0]})")
            elif falsy:
                bad.append(f"{'with' if loader else 'without'} a loader, a path returns `{o.value}` knowing only that the stored item is empty / loads to something falsy ({falsy[0]}; lines {lines}): a header that is present (with an empty text, or with a text such as '0') reads back as the default")
            elif o.st.auto:
                seen_ok.add("an except handler (item read / loader failed)")
            else:
                undecided.append(f"`{o.value}` (lines {lines})")
    if undecided and not bad:
        raise AnalysisError(f"{gt.fq}: a path returns {undecided[0]} without reading the stored item, and neither an absence test of the key nor an exception explains it")
    ctx.ob("R16.6", f"{tag}_DictAccessorProperty.__get__ returns the default only for an absent key", not bad, "; ".join(bad[:2]) if bad else f"{n_default} default-returning path(s), each after {' / '.join(sorted(seen_ok)) or '-'}", gt, gt.node, f"{tag}accessor presence")


WRITE_OPS = {"__setitem__", "set", "add", "setlist", "add_header", "setdefault", "setlistdefault"}
DELETE_OPS = {"__delitem__", "pop", "remove", "popitem", "clear"}
READ_OPS = {"get", "getlist", "get_all", "__getitem__"}
BUILTIN_TYPES = {"list", "str", "dict", "tuple", "set", "bytes", "int", "bool", "float"}


def _hkey(term: str) -> str:
    """header name of a key term: constants case-folded, anything else (a closure variable) as its term."""
    c = H.const_of(term)
    return c.lower() if isinstance(c, str) else term


_OP_KIND: dict[str, str] = {}  # header write operation -> 'W' (replaces every line of the name) | 'A' (adds a line) | 'M' (may not write)
_USED_OPS: set[str] = set()  # header operations the getters / callbacks / setters were seen to use


def _header_auto(a, ev, st):
    """automaton of the header rules: the ordered header operations of the path (bounded), reads and callback stores.
    A write is 'W' when the operation replaces all lines of the name (``_classify_write_ops``), or adds a line
    right after a replacing write / a deletion of the same name; 'A' when it only adds a line; 'M' when the
    operation may leave the header as it is."""
    ops, reads, stores = a
    if ev[0] == "op" and ev[1] == "headers":
        if ev[2] in WRITE_OPS and len(ev[3]) >= 2:
            _USED_OPS.add(ev[2])
            kind, key = _OP_KIND.get(ev[2], "W"), _hkey(ev[3][0])
            if kind == "A" and ops and ops[-1][0] in ("W", "D") and ops[-1][1] == key:
                kind = "W"
            ops = (ops + ((kind, key, ev[3][1]),))[-8:]
        elif ev[2] in DELETE_OPS:
            _USED_OPS.add(ev[2])
            ops = (ops + (("D", _hkey(ev[3][0]) if ev[3] else "*", ""),))[-8:]
    elif ev[0] == "read" and ev[1] == "headers" and ev[2] in READ_OPS and ev[3]:
        _USED_OPS.add(ev[2])
        reads = reads | {_hkey(ev[3][0])}
    elif ev[0] == "store" and ev[2] in H.CB_ATTRS:
        stores = stores | {(ev[1], ev[3])}
    return (ops, reads, stores)


def _view_oracle_for(repo, truthy: bool | None = None, len_agrees: bool = False):
    def declared_text(meth: str) -> bool:
        """every package class that defines the method declares it ``-> str``: its result is never None."""
        found = [c.methods[meth] for c in repo.all_classes() if meth in c.methods]
        def is_str(a):
            return (isinstance(a, ast.Name) and a.id == "str") or (isinstance(a, ast.Constant) and a.value == "str")
        return bool(found) and all(is_str(f.node.returns) for f in found)

    def oracle(key: str):
        if truthy is not None and len_agrees:
            # len(view) compared with 0 / 1, or its truth: decided by the truthiness this row fixes, when for every
            # candidate class of the view ``len(view) == 0`` iff ``not view``
            n = H.P(key)
            LEN = "len(__view__)"
            if key == LEN:
                return truthy
            if isinstance(n, ast.Compare) and len(n.ops) == 1:
                a, b, op = H.text(n.left), H.text(n.comparators[0]), n.ops[0]
                if isinstance(op, ast.Eq) and {a, b} == {LEN, "0"}:
                    return not truthy
                if isinstance(op, ast.Lt) and (a, b) in ((LEN, "1"),):
                    return not truthy
                if isinstance(op, ast.Lt) and (a, b) in (("0", LEN),):
                    return truthy
        m = H.re.match(r"^isinstance\(__view__, (\w+)\)$", key)
        if m and m.group(1) in BUILTIN_TYPES:
            return False  # the callback receives the view object (a package class), never a builtin container
        m = H.re.match(r"^(?:__view__\.(\w+)\(\)|str\(__view__\)) is None$", key)
        if m and (m.group(1) is None or declared_text(m.group(1))):
            return False  # the serialisation is a text (``-> str`` on every class that defines the method), never None
        return None

    return oracle


def _fn_names(term: str, ex) -> list[str]:
    """function values (local functions, bound methods of the response) that occur in a term, e.g. as a call argument."""
    return [x.id for x in ast.walk(H.P(term)) if isinstance(x, ast.Name) and x.id in ex.fns and (ex.fns[x.id].kind == "closure" or ex.fns[x.id].bound == H.SELF)]


def _is_serialisation(value: str) -> str | None:
    """'exact': the header text is the view's own serialisation; 'mixed': it is computed from the view and other
    state (the header is not the view alone, so an empty view does not mean an absent header); None otherwise."""
    n = H.P(value)
    if isinstance(n, ast.Call) and isinstance(n.func, ast.Attribute) and n.func.attr == "to_header" and H.text(n.func.value) == "__view__" and not n.args:
        return "exact"
    if isinstance(n, ast.Call) and dotted(n.func) == "str" and len(n.args) == 1 and H.text(n.args[0]) == "__view__":
        return "exact"
    if isinstance(n, ast.Call) and (dotted(n.func) or "").rsplit(".", 1)[-1] == "dump_options_header" and len(n.args) == 2 and H.text(n.args[1]) == "__view__":
        return "mixed"
    return None


def _ser_method(value: str) -> str | None:
    """name of the view method whose result the write-back stores (``view.to_header()`` / ``str(view)``)."""
    n = H.P(value)
    if isinstance(n, ast.Call) and isinstance(n.func, ast.Attribute) and H.text(n.func.value) == "__view__" and not n.args:
        return n.func.attr
    if isinstance(n, ast.Call) and dotted(n.func) == "str" and len(n.args) == 1 and H.text(n.args[0]) == "__view__":
        return "__str__"
    return None


# ---- R16.8: the header operations behind the views -----------------------------------------------------------------
HEADERS = "datastructures.headers.Headers"
GROW_OPS = {"append", "insert", "extend", "__iadd__", "appendleft"}
ACCESSOR_OPS = {"__setitem__", "__getitem__", "__contains__", "pop"}  # subscript store / read, membership, pop: the typed accessors' protocol


def _str_key_oracle(key: str):
    """the views address headers by name: the key argument of a header operation is a string."""
    m = H.re.match(r"^isinstance\(__p1__, (.+)\)$", key)
    if m:
        return "str" in set(H.re.findall(r"\w+", m.group(1)))
    if key == "__p1__ is None":
        return False
    return None


def _classify_write_ops(repo) -> None:
    """what each header write operation does to the line list, decided by executing it on Headers with a string key:
    'W' every completing path changes the list and some path overwrites / drops lines (it can replace), 'A' every path
    changes the list but only ever by growing it (it adds a line next to the earlier ones), 'M' some path leaves the
    list as it is (setdefault-like)."""
    _OP_KIND.clear()
    _USED_OPS.clear()
    hd = repo.cls(HEADERS)

    def on_event(a, ev, st):
        if ev[0] == "mut":
            return (True, a[1] or ev[2] not in GROW_OPS)
        return a

    for op in sorted(WRITE_OPS):
        _, fi = repo.lookup(hd, op)
        if not isinstance(fi, FuncInfo):
            continue
        ex = H.Exec(repo, hd, on_event=on_event, oracle=_str_key_oracle)
        outs = [o for o in ex.run_function(fi, auto0=(False, False)) if o.kind == "ret"]
        if not outs:
            raise AnalysisError(f"Headers.{op}: no completing path")
        always = all(o.st.auto[0] for o in outs)
        _OP_KIND[op] = ("W" if any(o.st.auto[1] for o in outs) else "A") if always else "M"
    if "W" not in _OP_KIND.values():
        raise AnalysisError("Headers: no write operation that replaces the lines of a name")


STR_RAW_METHODS = {"upper", "title", "strip", "lstrip", "rstrip", "capitalize", "swapcase", "replace", "format", "join", "decode", "encode"}


def _caseness(term: str, collection: bool) -> str:
    """'lowered' | 'raw' | 'unknown' for an operand of a name comparison."""
    if (H.lowered_elements(term) if collection else H.is_lowered(term)):
        return "lowered"
    n = H.P(term)
    if isinstance(n, ast.Call):
        if isinstance(n.func, ast.Attribute) and n.func.attr in STR_RAW_METHODS | H.PURE_METHODS:
            return "raw"
        if dotted(n.func) in ("str", "repr", "list", "tuple", "set", "frozenset", "sorted", "iter", "map", "dict", "enumerate", "zip", "reversed"):
            return "raw"
        return "unknown"
    return "raw"


def _header_ops_casefold(ctx: Ctx) -> None:
    """every evaluated comparison (== != in not-in, comprehension filters included) in the inlined call graph of the
    Headers operations that getters, write-backs, setters and typed accessors use, called with a string key: when one
    operand is lower-cased by construction the other one is too (a raw stored name compared with a lower-cased key
    matches only lines that happen to be stored in lower case: the write-back leaves stale lines, a read misses the
    header)."""
    repo = ctx.repo
    hd = repo.cls(HEADERS)
    found: dict[int, dict] = {}

    def on_event(a, ev, st):
        if ev[0] != "compare" or ev[1] not in ("Eq", "NotEq", "In", "NotIn"):
            return a
        if H.const_of(ev[2]) is not H._NOCONST or H.const_of(ev[3]) is not H._NOCONST:
            return a
        ka, kb = _caseness(ev[2], False), _caseness(ev[3], ev[1] in ("In", "NotIn"))
        if ka != "lowered" and kb != "lowered":
            return a
        d = found.setdefault(id(ev[-2]), {"fi": ev[-1], "node": ev[-2], "ok": True, "sides": (ka, kb), "terms": (ev[2], ev[3]), "ops": set()})
        d["ops"].add(cur[0])
        if not (ka == "lowered" and kb == "lowered"):
            d.update(ok=False, sides=(ka, kb), terms=(ev[2], ev[3]))
        return a

    ops = sorted((_USED_OPS | ACCESSOR_OPS))
    cur = [""]
    n_ops = 0
    for op in ops:
        _, fi = repo.lookup(hd, op)
        if not isinstance(fi, FuncInfo):
            continue
        n_ops += 1
        cur[0] = op
        ex = H.Exec(repo, hd, on_event=on_event, oracle=_str_key_oracle)
        ex.run_function(fi, auto0=None)
    ctx.floor("R16.8", "Headers operations used by the views", n_ops, 4)
    for d in sorted(found.values(), key=lambda d: (d["fi"].fq if d["fi"] else "", getattr(d["node"], "lineno", 0))):
        fi, cmp_ = d["fi"], d["node"]
        if not d["ok"] and "unknown" in d["sides"]:
            raise AnalysisError(f"{fi.fq if fi else hd.fq}: cannot decide whether `{d['terms'][0 if d['sides'][0] == 'unknown' else 1]}` in `{norm(cmp_)}` is lower-cased")
        side = lambda i: f"{'lower-cased' if d['sides'][i] == 'lowered' else 'RAW'} (`{d['terms'][i]}`)"  # noqa: E731
        ctx.ob("R16.8", f"{fi.qualname if fi else hd.name}: `{norm(cmp_)}` compares header names case-folded on both sides", d["ok"], f"left {side(0)}, right {side(1)}; reached from Headers.{'/'.join(sorted(d['ops']))}", fi or hd.fq, cmp_, norm(cmp_))
    ctx.floor("R16.8", "case-folded name comparisons behind the views", len(found), 1)  # one shared helper may hold them all


# ---- R16.9: falsy view => nothing to serialise ---------------------------------------------------------------------
def _annotation_classes(repo, module, ann: ast.AST | None) -> list[ClassInfo]:
    out = []
    if ann is None:
        return out
    if isinstance(ann, ast.Constant) and isinstance(ann.value, str):
        try:
            ann = ast.parse(ann.value, mode="eval").body
        except SyntaxError:
            return out
    for x in ast.walk(ann):
        d = dotted(x) if isinstance(x, (ast.Name, ast.Attribute)) else None
        if not d:
            continue
        tgt = repo.resolve(module, d)
        k = repo.try_cls(tgt) if tgt and tgt.startswith("werkzeug") else None
        if k is not None and k not in out:
            out.append(k)
    return out


def _empty_iter(term: str, facts: dict[str, bool]) -> bool:
    """the term iterates nothing on a path with these facts."""
    return H.iterates_nothing(term, facts)


def _empty_text(term: str, facts: dict[str, bool]) -> bool:
    """the term is the empty string on a path with these facts."""
    c = H.const_of(term)
    if c is not H._NOCONST:
        return c == ""
    n = H.P(term)
    if isinstance(n, ast.Call) and isinstance(n.func, ast.Attribute) and n.func.attr == "join" and len(n.args) == 1 and not n.keywords and (dotted(n.func) or "").rsplit(".", 2)[-2:-1] != ["path"]:
        # separator.join(no items) is empty whatever the separator is (a literal, a module constant, a local)
        return _empty_iter(H.text(n.args[0]), facts)
    return False


def _falsy_facts(value: str, facts: dict[str, bool]) -> dict[str, bool] | None:
    """facts of a path on which the returned truth value ``value`` is falsy (None: the value is truthy there); the
    emptiness of a container whose length was tested is made explicit."""
    c = H.const_of(value)
    out = dict(facts)
    if c is not H._NOCONST:
        if c:
            return None
    else:
        n = H.P(value)
        k, p = H.canon(n)
        if p is not True:
            return None
        out[k] = False
    for k, v in list(out.items()):
        n = H.P(k)
        inner = None
        if v is False and isinstance(n, ast.Call) and dotted(n.func) == "len" and len(n.args) == 1:
            inner = n.args[0]  # not len(X)
        elif isinstance(n, ast.Compare) and len(n.ops) == 1:
            a, b = n.left, n.comparators[0]
            is_len = lambda x: isinstance(x, ast.Call) and dotted(x.func) == "len" and len(x.args) == 1  # noqa: E731
            zero = lambda x: isinstance(x, ast.Constant) and x.value == 0 and not isinstance(x.value, bool)  # noqa: E731
            if v is False and isinstance(n.ops[0], ast.Lt) and zero(a) and is_len(b):
                inner = b.args[0]  # not (0 < len(X))
            elif v is True and isinstance(n.ops[0], ast.Eq) and (zero(a) and is_len(b) or zero(b) and is_len(a)):
                inner = (b if is_len(b) else a).args[0]  # len(X) == 0
            elif v is True and isinstance(n.ops[0], ast.Lt) and is_len(a) and isinstance(b, ast.Constant) and b.value == 1:
                inner = a.args[0]  # len(X) < 1
        if inner is not None:
            out[H.text(inner)] = False
    return out


_falsy_cache: dict[tuple, tuple[bool | None, str]] = {}


def _falsy_means_empty(repo, c: ClassInfo, meth: str) -> tuple[bool | None, str]:
    """(verdict, fact) for class c: None - c's truthiness is not defined by the package (an object is never falsy; a
    builtin container is falsy iff empty); True - on every path on which the package's __bool__ / __len__ makes the
    object falsy, ``meth`` returns the empty string; False - a falsy object still has a non-empty serialisation."""
    key = (id(repo), c.fq, meth)
    if key in _falsy_cache:
        return _falsy_cache[key]
    res = _falsy_means_empty_(repo, c, meth)
    _falsy_cache[key] = res
    return res


def _falsy_means_empty_(repo, c: ClassInfo, meth: str) -> tuple[bool | None, str]:
    tfi = None
    for tm in ("__bool__", "__len__"):
        owner, what = repo.lookup(c, tm)
        if isinstance(what, FuncInfo):
            tfi = what
            break
        if what == "builtin":
            return None, f"{c.name}: truthiness is {owner.name}.{tm} (a builtin container is falsy iff it is empty)"
    if tfi is None:
        return None, f"{c.name} defines neither __bool__ nor __len__: never falsy"
    _, sfi = repo.lookup(c, meth)
    if not isinstance(sfi, FuncInfo):
        raise AnalysisError(f"{c.name}.{meth}: the serialisation the write-back stores is not a package method")
    ex = H.Exec(repo, c)
    falsy = []
    for o in ex.run_function(tfi):
        if o.kind != "ret":
            continue
        f = _falsy_facts(o.value, o.st.facts)
        if f is not None:
            falsy.append(f)
    if not falsy:
        return True, f"{tfi.qualname} has no falsy outcome"
    pair = None
    if c.fq.endswith("structures.HeaderSet"):
        from ._shared import headerset_roles

        pair = [f"{H.SELF}.{x}" for x in headerset_roles(repo)]  # list and set are empty together (R16.2 pairing)
    _, lfi = repo.lookup(c, "__len__")
    if isinstance(lfi, FuncInfo) and lfi is not tfi and any(f.get(H.SELF) is False for f in falsy):
        # __bool__ decided on len(self): the object's own __len__ says which storage is empty then
        more = [g for o in H.Exec(repo, c).run_function(lfi) if o.kind == "ret" for g in [_falsy_facts(o.value, o.st.facts)] if g is not None]
        falsy = [{**f, **g} for f in falsy for g in (more if f.get(H.SELF) is False and more else [{}])]
    for f in falsy:
        f[H.SELF] = False  # the object itself is falsy on this path (``if not self`` inside the serialisation)
        if pair and any(f.get(x) is False for x in pair):
            f.update({x: False for x in pair})
        ex2 = H.Exec(repo, c)
        for o in ex2.run_function(sfi, facts0=f):
            if o.kind == "ret" and not _empty_text(o.value, o.st.facts):
                cond = ", ".join(f"{k}={v}" for k, v in sorted(f.items())) or "always"
                # the verdict stands only when the facts of the falsy outcome are about plain instance state: an attribute
                # that the class serves through a descriptor object (``units = _CallbackProperty()``) reads some other
                # storage, which is not followed
                for a in sorted({a for k in f for a in H.re.findall(r"__self__\.(\w+)", k)}):
                    _, what = repo.lookup(c, a)
                    if isinstance(what, ast.AST) and _descriptor_get(repo, c, what):
                        raise AnalysisError(f"{tfi.qualname} decides on `self.{a}`, which {c.name} serves through a descriptor object: which storage it reads is not followed")
                return False, f"{tfi.qualname} makes the object falsy when [{cond}], but {sfi.qualname} then returns `{o.value}` (line {getattr(sfi.node, 'lineno', '?')}ff): the write-back would delete a header that has a serialisation"
    return True, f"{tfi.qualname}: {len(falsy)} falsy outcome(s), {sfi.qualname} returns '' on each"


def _view_candidates(repo, fi: FuncInfo, ex, cbfn, setter) -> list[ClassInfo]:
    """candidate classes of the view a write-back receives: what the callback / the getter / the setter are annotated
    with, and the package classes the getter constructs (or that the package functions it calls declare to return)."""
    snode_ = setter.node if isinstance(setter, FuncInfo) else (ex.fns[setter].node if setter in ex.fns else None)
    cbargs = cbfn.node.args.args if cbfn.node is not None else (cbfn.fi.node.args.args[1:] if cbfn.fi is not None else [])
    anns = [cbargs[0].annotation if cbargs else None, fi.node.returns]
    if snode_ is not None and len(snode_.args.args) > 1:
        anns.append(snode_.args.args[1].annotation)
    cands: list[ClassInfo] = []
    for ann in anns:
        cands += [k for k in _annotation_classes(repo, fi.module, ann) if k not in cands]
    for x in ast.walk(fi.node):
        d = dotted(x.func) if isinstance(x, ast.Call) else None
        tgt = repo.resolve(fi.module, d) if d else None
        if not tgt or not tgt.startswith("werkzeug"):
            continue
        k = repo.try_cls(tgt)
        tf = repo.try_func(tgt) if k is None else None
        if k is not None and k not in cands:
            cands.append(k)  # constructed by the getter
        elif tf is not None:  # a package function / classmethod the getter calls: what it is declared to return
            cands += [k2 for k2 in _annotation_classes(repo, tf.module, tf.node.returns) if k2 not in cands]
    return cands


def _len_agrees_with_truth(repo, c: ClassInfo) -> bool | None:
    """``len(obj) == 0`` iff ``not obj`` for objects of class c: None when c has no __len__ (len() is not a question
    for it) or the two methods cannot be related; True when truthiness *is* __len__ (no package __bool__), or the
    package's __bool__ is the truth of the very storage whose length __len__ returns (HeaderSet's list and set are
    empty together by R16.2)."""
    _, lfi = repo.lookup(c, "__len__")
    if lfi is None:
        return None
    _, bfi = repo.lookup(c, "__bool__")
    if not isinstance(bfi, FuncInfo):
        return True  # Python: without __bool__, truthiness is ``len(obj) != 0``
    if not isinstance(lfi, FuncInfo):
        return None
    group = None
    if c.fq.endswith("structures.HeaderSet"):
        from ._shared import headerset_roles

        group = {f"{H.SELF}.{x}" for x in headerset_roles(repo)}
    same = lambda a, b: a == b or (group is not None and a in group and b in group)  # noqa: E731
    lens = set()
    for o in H.Exec(repo, c).run_function(lfi):
        if o.kind != "ret":
            continue
        n = H.P(o.value)
        if not (isinstance(n, ast.Call) and dotted(n.func) == "len" and len(n.args) == 1):
            return None
        lens.add(H.text(n.args[0]))
    if len(lens) != 1:
        return None
    stored = next(iter(lens))
    for o in H.Exec(repo, c).run_function(bfi):
        if o.kind != "ret":
            continue
        f = _falsy_facts(o.value, o.st.facts)
        if f is None:  # a truthy outcome: the path must know the measured storage to be non-empty
            if not any(v is True and same(k, stored) for k, v in o.st.facts.items()):
                return None
            continue
        if not any(v is False and (same(k, stored) or k == H.SELF) for k, v in f.items()):
            return None
    return True


def _views(ctx: Ctx) -> None:
    repo = ctx.repo
    mod = repo.module("sansio.response")
    resp = repo.cls("sansio.response.Response")
    # (label, where, executor with the getter's closures, outcomes of the getter, setter function value or FuncInfo)
    getters: list[tuple[str, FuncInfo, t.Any, list, t.Any]] = []
    for name, fi in sorted(resp.methods.items()):
        if "." in name or not any(d == "property" or d.endswith(".property") for d in fi.decorators):
            continue
        ex = H.Exec(repo, resp, on_event=_header_auto)
        outs = [o for o in ex.run_function(fi, auto0=((), frozenset(), frozenset())) if o.kind == "ret"]
        local_fn = any(isinstance(x, (ast.FunctionDef, ast.Lambda)) for x in ast.walk(fi.node) if x is not fi.node)
        hands_out_fn = any(_fn_names(o.value, ex) or any(v in ex.fns for _, v in o.st.auto[2]) for o in outs)
        if not local_fn and not hands_out_fn:
            continue
        # a getter that defines a local function is a view getter: the function is the write-back callback (whether
        # every return path attaches it is an obligation below, not a matter of recognition)
        getters.append((name, fi, ex, outs, resp.methods.get(f"{name}.setter")))
    # module-level property factories: f(name, ...) -> property(fget, fset)
    n_uses = 0
    for fname, sp in sorted(mod.functions.items()):
        rets = [r for r in astq.returns_of(sp.node) if isinstance(r.value, ast.Call) and dotted(r.value.func) == "property"]
        if not rets:
            continue
        uses = [k for k, v in resp.attrs.items() if isinstance(v, ast.Call) and dotted(v.func) == fname]
        if not uses:
            continue
        ex = H.Exec(repo, resp, on_event=_header_auto)
        fouts = [o for o in ex.run_function(sp, auto0=((), frozenset(), frozenset()), subject=None) if o.kind == "ret"]
        for o in fouts:
            pn = H.P(o.value)
            if not (isinstance(pn, ast.Call) and pn.args):
                raise AnalysisError(f"{fname} does not return property(fget, ...)")
            fget = H.text(pn.args[0])
            fset = H.text(pn.args[1]) if len(pn.args) > 1 else next((H.text(k.value) for k in pn.keywords if k.arg == "fset"), None)
            if fget not in ex.fns:
                raise AnalysisError(f"{fname}: fget is not a local function")
            gouts = [g for g in ex.run_fn(fget, [H.SELF], auto0=((), frozenset(), frozenset())) if g.kind == "ret"]
            fnode = ex.fns[fget].node
            if any(isinstance(x, (ast.FunctionDef, ast.Lambda)) for x in ast.walk(fnode) if x is not fnode):
                n_uses += len(uses)
                getters.append((f"{fname}.fget", sp, ex, gouts, fset))
    ctx.floor("R16.5", "view getters", len(getters), 7)
    ctx.floor("R16.5", "_set_property instances", n_uses, 3)

    counts = {"replacing": 0, "truth": 0, "setters": 0}
    for name, fi, ex, outs, setter in getters:
        # ---- callback attached on every return path; header read by the getter
        cbs: set[str] = set()
        attached_everywhere = bool(outs)
        reads: set[str] = set()
        for o in outs:
            mine = set(_fn_names(o.value, ex)) | {v for obj, v in o.st.auto[2] if obj == o.value and v in ex.fns}
            attached_everywhere = attached_everywhere and bool(mine)
            cbs |= mine
            reads |= set(o.st.auto[1])
        cbfn = ex.fns[sorted(cbs)[0]] if cbs else None
        cbnode = (cbfn.node or (cbfn.fi.node if cbfn.fi else None)) if cbfn is not None else fi.node
        ctx.ob("R16.5", f"{name}: callback attached on every return path", attached_everywhere and len(cbs) == 1, f"{len(outs)} return path(s); callback(s) {sorted(cbs)}", fi, fi.node, f"{name} callback attached")
        if not cbs:
            continue  # reported above: nothing is attached
        if len(cbs) != 1 or len(reads) != 1:
            ctx.ob("R16.5", f"{name}: callback writes back the header that was read", False, f"getter reads {sorted(reads)}, callbacks {sorted(cbs)}", fi, cbnode, f"{name} header names")
            continue
        hdr = next(iter(reads))
        cb = next(iter(cbs))
        # ---- decision of the callback on the view's truthiness (and the header's presence)
        raw_cands = _view_candidates(repo, fi, ex, ex.fns[cb], setter)
        agree = [_len_agrees_with_truth(repo, k) for k in raw_cands]
        len_agrees = any(a is True for a in agree) and all(a is not False for a in agree) and all(a is True for a, k in zip(agree, raw_cands) if repo.lookup(k, "__len__")[1] is not None)
        rows = {}
        forks_seen: set[str] = set()
        for truthy in (True, False):
            ex2 = H.Exec(repo, resp, on_event=_header_auto, oracle=_view_oracle_for(repo, truthy, len_agrees))
            ex2.fns = dict(ex.fns)
            rows[truthy] = [o for o in ex2.run_fn(cb, ["__view__"], auto0=((), frozenset(), frozenset()), facts0={"__view__": truthy}) if o.kind == "ret"]
            forks_seen |= ex2.unknown_forks
        names_ok, ser_ok, del_ok = True, True, True
        kinds: set[str | None] = set()
        why: list[str] = []
        adds: list[str] = []
        sers: set[str] = set()
        for o in rows[True]:
            ops = o.st.auto[0]
            if ops and ops[-1][0] in ("A", "M"):
                adds.append(f"the write-back ends with an operation that {'adds a line next to the earlier ones' if ops[-1][0] == 'A' else 'may leave the header as it is'} (`{ops[-1][2]}` under {ops[-1][1]!r})")
            if not ops or ops[-1][0] not in ("W", "A"):  # whether an adding write is enough is R16.8's business
                names_ok = False
                why.append("a non-empty view does not end by writing the header")
                continue
            if _ser_method(ops[-1][2]):
                sers.add(_ser_method(ops[-1][2]))
            if any(k != hdr for _, k, _ in ops):
                names_ok = False
                why.append(f"non-empty view: header operations on {sorted({k for _, k, _ in ops})}, getter reads {hdr!r}")
            kinds.add(_is_serialisation(ops[-1][2]))
            if _is_serialisation(ops[-1][2]) is None:
                ser_ok = False
                why.append(f"writes `{ops[-1][2]}`, not the view's serialisation")
        mixed = kinds == {"mixed"}
        for o in rows[False]:
            ops = o.st.auto[0]
            if any(k != hdr and k != "*" for _, k, _ in ops):
                names_ok = False
                why.append(f"empty view: header operations on {sorted({k for _, k, _ in ops})}, getter reads {hdr!r}")
            if mixed:
                continue
            if any(kind in ("W", "A", "M") for kind, _, _ in ops):
                del_ok = False
                why.append("an empty view still writes the header")
            elif not any(kind == "D" for kind, _, _ in ops):
                absent = any(v is False and k.endswith(" in __self__.headers") and _hkey(k[: -len(" in __self__.headers")]) == hdr for k, v in o.st.facts.items())
                if not absent:
                    del_ok = False
                    why.append("an empty view leaves a present header in place")
        if not rows[True] or not rows[False]:
            names_ok = False
            why.append("the callback has no normally-completing path")
        if not (names_ok and del_ok and (ser_ok and bool(kinds))):
            # a verdict against the write-back stands only when its branches were understood: a condition over the view
            # (other than its truthiness, which the two rows fix) that had to be followed both ways is not modelled
            forks = sorted(k for k in forks_seen if "__view__" in k and k != "__view__")
            if forks:
                raise AnalysisError(f"{name}: the write-back branches on conditions over the view that the rule does not model: {forks[:3]}")
        fact = f"getter reads {hdr!r}; non-empty view: {sorted({o.st.auto[0] for o in rows[True]})}; empty view: {sorted({o.st.auto[0] for o in rows[False]})}" + ("; " + "; ".join(why[:2]) if why else "")
        ctx.ob("R16.5", f"{name}: callback writes back the header that was read", names_ok, fact, fi, cbnode, f"{name} header names")
        if not mixed:
            ctx.ob("R16.5", f"{name}: empty view deletes the header", del_ok, fact, fi, cbnode, f"{name} delete edge")
        ctx.ob("R16.5", f"{name}: callback writes the view's serialisation", ser_ok and bool(kinds), fact, fi, cbnode, f"{name} serialisation")
        ctx.ob("R16.8", f"{name}: the write-back replaces the header", not adds, adds[0] if adds else f"final write of every path is a replacing operation ({sorted(k for k, v in _OP_KIND.items() if v == 'W')}) or follows one / a deletion of the same name", fi, cbnode, f"{name} replacing write")
        counts["replacing"] += 1
        # ---- a falsy view is treated as "nothing to serialise": the view's class must agree
        depends = {o.st.auto[0] for o in rows[True]} != {o.st.auto[0] for o in rows[False]}
        if depends and not mixed and sers:
            # candidate classes of the view: what the callback / the getter / the setter are annotated with, and the
            # package classes the getter constructs (each one that has the serialisation method the write-back calls)
            cands = list(raw_cands)
            cands = [k for k in cands if any(isinstance(repo.lookup(k, m_)[1], FuncInfo) for m_ in sers)]
            if not cands:
                raise AnalysisError(f"{name}: the write-back tests the truthiness of its view, but the view's class cannot be determined (no annotation / construction resolves to a package class with {sorted(sers)})")
            for k in sorted(cands, key=lambda k: k.fq):
                for meth in sorted(sers):
                    if not isinstance(repo.lookup(k, meth)[1], FuncInfo):
                        continue
                    verdict, vfact = _falsy_means_empty(repo, k, meth)
                    counts["truth"] += 1
                    ctx.ob("R16.9", f"{name}: a falsy {k.name} has nothing to serialise", verdict is not False, vfact, fi, cbnode, f"{name} falsy {k.name}")
        # ---- the whole-property setter writes the getter's header
        if setter is None:
            continue
        ex3 = H.Exec(repo, resp, on_event=_header_auto)
        ex3.fns = dict(ex.fns)
        if isinstance(setter, FuncInfo):
            souts = ex3.run_function(setter, auto0=((), frozenset(), frozenset()))
            where, snode, label, cons = setter, setter.node, f"Response.{name} setter writes the getter's header", f"{name} setter header"
        else:
            if setter not in ex3.fns:
                continue
            souts = ex3.run_fn(setter, [H.SELF, "__value__"], auto0=((), frozenset(), frozenset()))
            where, snode, label, cons = fi, ex3.fns[setter].node, f"{name.split('.')[0]} setter writes its own header", f"{name.split('.')[0]} setter header"
        souts = [o for o in souts if o.kind == "ret"]
        keys = {k for o in souts for _, k, _ in o.st.auto[0]}
        writes = any(kind in ("W", "A") for o in souts for kind, _, _ in o.st.auto[0])
        ctx.ob("R16.5", label, writes and keys == {hdr}, f"getter reads {hdr!r}, setter operates on {sorted(keys)}", where, snode, cons)
        sadds = sorted({f"`{v}` under {k!r}" for o in souts for kind, k, v in o.st.auto[0] if kind in ("A", "M")})
        counts["setters"] += 1
        ctx.ob("R16.8", label.replace("writes the getter's header", "replaces the header").replace("writes its own header", "replaces the header"), not sadds, f"a path writes {sadds[0]} with an operation that adds a line / may not write, without a replacing write or a deletion of that name before it" if sadds else "every adding write follows a replacing write / deletion of the same name", where, snode, cons.replace("setter header", "setter replaces"))
    ctx.floor("R16.8", "write-backs judged", counts["replacing"], 7)
    ctx.floor("R16.8", "whole-property setters judged", counts["setters"], 4)
    ctx.floor("R16.9", "view classes whose truthiness a write-back relies on", counts["truth"], 4)


def _cache_value_table(ctx: Ctx, cc: ClassInfo) -> None:
    """decision table of _CacheControl._set_cache_value(key, value, type), decided by executing the method (and what
    it calls) under every consistent valuation of the atoms over its positional parameters: a boolean directive is
    present iff the assigned value is truthy; any other directive is removed by None / False, valueless for True,
    and stores str(value) otherwise."""
    import itertools

    repo = ctx.repo
    fi = cc.methods["_set_cache_value"]
    if len(fi.params) < 4:
        raise AnalysisError("_set_cache_value(self, key, value, type) expected")
    V, T = "__p2__", "__p3__"
    BOOL, TRUTHY, NONE, FALSE, TRUE, TYPED = f"{T} is bool", V, f"{V} is None", f"{V} is False", f"{V} is True", f"{T} is None"
    keys = [BOOL, TRUTHY, NONE, FALSE, TRUE, TYPED]

    def consistent(v) -> bool:
        if v[NONE] and (v[TRUTHY] or v[FALSE] or v[TRUE]):
            return False
        if v[FALSE] and (v[TRUTHY] or v[TRUE]):
            return False
        if v[TRUE] and not v[TRUTHY]:
            return False
        if v[BOOL] and v[TYPED]:
            return False
        return True

    def on_event(a, ev, st):
        if ev[0] == "mut" and ev[1] == "":
            if ev[2] == "__setitem__" and len(ev[3]) == 2:
                val = ev[3][1]
                n = H.P(val)
                kind = "set-valueless" if val == "None" else "set-str" if isinstance(n, ast.Call) and dotted(n.func) == "str" else f"set-other:{val}"
            elif ev[2] in ("pop", "__delitem__", "discard"):
                kind = "remove"
            else:
                kind = f"other:{ev[2]}"
            if ev[3] and ev[3][0] != "__p1__":
                kind += f" under key `{ev[3][0]}`"
            return (a + (kind,))[-4:]
        return a

    probe = H.Exec(repo, cc)
    fr0 = H.Frame(fi, fi.module, cc, fi.node, 0)

    def oracle(key: str) -> bool | None:
        # the assigned value ranges over None / True / False / int / str (the property's quantifier): it is never one
        # of the package's private module-level sentinel objects
        for op in (" is ", " == "):
            a, sep, b = key.partition(op)
            if sep and ((a == V and probe._sentinel_kind(b, fr0) is not None) or (b == V and probe._sentinel_kind(a, fr0) is not None)):
                return False
        return None

    bad = []
    rows = 0
    unknown: set[str] = set()
    for bits in itertools.product((False, True), repeat=len(keys)):
        v = dict(zip(keys, bits))
        if not consistent(v):
            continue
        rows += 1
        facts = dict(v)
        facts[T] = not v[TYPED] if not v[BOOL] else True  # truthiness of the type argument: None is falsy, a type is truthy
        ex = H.Exec(repo, cc, on_event=on_event, oracle=oracle)
        outs = [o for o in ex.run_function(fi, auto0=(), facts0=facts) if o.kind == "ret"]
        unknown |= {k for k in ex.unknown_forks if V in k or T in k}
        if v[BOOL]:
            want = "set-valueless" if v[TRUTHY] else "remove"
        elif v[NONE] or v[FALSE]:
            want = "remove"
        elif v[TRUE]:
            want = "set-valueless"
        else:
            want = "set-str"
        # the effect of a path: the changes it makes to the dict; a path that makes none and has found the key absent
        # (dict.pop(key, None) on a missing key, or an explicit membership guard) has the effect of a removal
        got = sorted({"+".join(o.st.auto) or ("remove" if o.st.facts.get("__p1__ in __self__") is False else "nothing") for o in outs})
        if got != [want]:
            bad.append(f"[bool directive={v[BOOL]}, truthy={v[TRUTHY]}, None={v[NONE]}, False={v[FALSE]}, True={v[TRUE]}] expected {want}, got {got}")
    if bad and unknown:
        raise AnalysisError(f"_set_cache_value branches on conditions the decision table does not model: {sorted(unknown)[:4]}")
    ctx.floor("R16.6", "decision rows of _set_cache_value", rows, 8)
    ctx.ob("R16.6", "_set_cache_value: boolean directives follow the truthiness of the value; others None/False remove, True valueless, else str(value)", not bad, "; ".join(bad[:3]) + (f" (+{len(bad) - 3} more)" if len(bad) > 3 else "") if bad else f"{rows} rows agree", fi, fi.node, "cache value decision table")
