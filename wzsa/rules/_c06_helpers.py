"""C06 helpers: symbolic summaries of the header serialisers / parsers and their bounded evaluation.

The rules of C06 compare what a *writer* emits with what its *parser* reads.  Neither side may be recognised by the way
it is spelled (f-string vs. concatenation, loop vs. comprehension, helper extracted or inlined, test flipped, value
through a local ...).  So every function of interest is first turned into a **summary**: a structured symbolic execution
of its body (no werkzeug code is imported or run - the executor walks the AST) that yields, per path, the path
condition and the returned value as a *term* over the parameters:

    ("c", type, value)                  constant
    ("p", name)                         parameter
    ("g", fq)                           module-level object (function, class, constant), fully qualified
    ("v", text)                         opaque value
    ("attr", base, name)                attribute
    ("cat", parts)                      string concatenation / f-string / str(x)   (``("cat", (x,))`` is ``str(x)``)
    ("bin", op, a, b)                   arithmetic; ``x - 1`` is normalised to ``("bin", "+", x, c(-1))``
    ("cmp", op, a, b) ("not", a) ("and", parts) ("or", parts)
    ("idx", base, i) ("slice", base, lo, hi, step) ("tuple", items)
    ("call", func, args, kwargs) ("meth", name, recv, args, kwargs)      kwargs = (("kw", name, term), ...)
    ("join", sep, coll)
    ("it", coll)                        the generic element of an iteration over coll
    ("coll", cid)                       a collection built by a loop / comprehension / literal (interned): its possible
                                        items `coll_items(t)` = {(conds, item)}, each under the conditions (relative to
                                        the loop) it is added with
    ("kv", key, value)                  item of a dict collection
    ("alt", frozenset(values))          loop-carried value: one of several

``if`` / conditional expressions / ``a or b`` fork the state; private helpers of the same module or class are inlined
(their summary is substituted), so "operation in a helper" and "operation inline" give the same terms.  Loops are
abstracted: the body is run for the generic element, twice (the second time with the loop-carried values of the first),
and what it appends to collections is recorded per item with the item's own condition.

Summaries are then used in two ways: **pattern rules** look at the terms (which constants does the template contain,
which call wraps the value, what offset is applied to the stop) and **bounded evaluation** (`Conc`) evaluates a summary
of a small pure string function - or of the per-element part of a parser loop - on an exhaustive set of short sample
strings over the alphabet that matters, with the semantics of the builtin ``str`` methods and of ``re`` applied to
constants folded from the source.
"""

from __future__ import annotations

import ast
import datetime as _dtm
import itertools
import re
import typing as t

from ..fold import Folder, RegexConst, Unfoldable
from ..loader import AnalysisError, FuncInfo, Repo, dotted, norm
from ..loader import walk_no_nested as walk_no_nested_ast

Term = tuple
Cond = tuple  # (atom, truth)


# ---------------------------------------------------------------------------------------------------------------
# module-level tables made by a constructor function of a builtin type

_TYPE_FUNCS: dict[tuple[str, str], t.Any] = {
    ("str", "maketrans"): str.maketrans,
    ("bytes", "maketrans"): bytes.maketrans,
    ("bytearray", "maketrans"): bytearray.maketrans,
    ("dict", "fromkeys"): dict.fromkeys,
    ("bytes", "fromhex"): bytes.fromhex,
}
_UNBOUND_OK = {"str": str, "bytes": bytes}
_UNBOUND_METHODS = {"join", "lower", "upper", "strip", "lstrip", "rstrip", "split", "replace", "title", "casefold", "encode", "decode", "translate", "format"}


class TableFolder(Folder):
    """the engine's constant folder, plus calls spelled *on a builtin type*: ``str.maketrans({...})`` /
    ``str.maketrans(a, b[, delete])`` / ``bytes.maketrans(a, b)`` / ``dict.fromkeys(keys, v)`` (a translation table is
    the mapping {code point: replacement | None} that ``str.translate`` reads) and unbound method calls such as
    ``str.join(", ", parts)``.  Everything else is the engine's."""

    def _call(self, m, n: ast.Call, env):  # type: ignore[override]
        f = n.func
        if isinstance(f, ast.Attribute) and isinstance(f.value, ast.Name) and f.value.id not in env and self.repo.resolve(m, f.value.id) == f"builtins.{f.value.id}":
            fn = _TYPE_FUNCS.get((f.value.id, f.attr))
            if fn is None and f.value.id in _UNBOUND_OK and f.attr in _UNBOUND_METHODS:
                fn = getattr(_UNBOUND_OK[f.value.id], f.attr)
            if fn is not None:
                if any(isinstance(a, ast.Starred) for a in n.args) or any(kw.arg is None for kw in n.keywords):
                    raise Unfoldable("starred call")
                args = [self._ev(m, a, env) for a in n.args]
                kwargs = {kw.arg: self._ev(m, kw.value, env) for kw in n.keywords}
                try:
                    return fn(*args, **kwargs)
                except Unfoldable:
                    raise
                except Exception as ex:  # noqa: BLE001 - the table cannot be built from these constants
                    raise Unfoldable(f"{f.value.id}.{f.attr}: {ex}")
        return super()._call(m, n, env)


def table_folder(repo: Repo, folder: Folder | None = None) -> Folder:
    """the folder the C06 machinery works with (a plain engine Folder handed in is replaced by the table-aware one)."""
    return folder if isinstance(folder, TableFolder) else TableFolder(repo)


# ---------------------------------------------------------------------------------------------------------------
# terms


def C(v: t.Any) -> Term:
    return ("c", type(v).__name__, v)


NONE = C(None)
TRUE = C(True)
FALSE = C(False)


# collections are interned: ("coll", cid) refers to _COLLS[cid], a frozenset of (conds, item).  Terms stay small even when
# a collection is mentioned many times (each(parts) in every item of a second loop).
_COLLS: list[frozenset] = []
_COLL_IDS: dict[frozenset, int] = {}


# collections that are the items a *generator* helper yields (cid of the interned collection).  A ``for`` loop / a
# comprehension over such a collection is "the loop that produces these items": its body is run once per yield site, with
# the yielded term bound to the target and the yield's own conditions added (instead of the generic element ("it", coll)),
# so `for a, b in _helper(x): ...` and the helper's loop written inline give the same terms.  The mark is not part of the
# term: to every pattern rule such a collection is a collection built by a helper's loop.
_GEN_COLLS: set[int] = set()


def intern_coll(items: frozenset) -> Term:
    cid = _COLL_IDS.get(items)
    if cid is None:
        cid = len(_COLLS)
        _COLLS.append(items)
        _COLL_IDS[items] = cid
    return ("coll", cid)


# the statement that stores an item (conds, item), as a number that grows in the order the executor first reaches the
# storing statements of a function (program order along every path of one loop body): two items stored for the same
# element by different statements are ordered by it.  Kept beside the terms (carried through deref / subst) - to the
# rules a collection stays a set of (conditions, item).  Items without a number are never ordered.
_ITEM_SEQ: dict[tuple, int] = {}
_SITE_SEQ: dict[int, int] = {}
_SEQ_COUNTER = itertools.count(1)


def _seq_note(pair: tuple, like: tuple | None = None, site: ast.AST | None = None) -> tuple:
    if pair not in _ITEM_SEQ:
        n = _ITEM_SEQ.get(like) if like is not None else None
        if site is not None:
            n = _SITE_SEQ.get(id(site))
            if n is None:
                n = _SITE_SEQ[id(site)] = next(_SEQ_COUNTER)
        if n is not None:
            _ITEM_SEQ[pair] = n
    return pair


def _const_elements(v: Term) -> list[Term] | None:
    """the elements of a constant tuple / list as terms (a tuple element stays a tuple of constants, so that unpacking it
    gives constants)."""

    def term(x: t.Any) -> Term:
        return ("tuple", tuple(term(y) for y in x)) if isinstance(x, tuple) else C(x)

    if v[0] == "c" and isinstance(v[2], (tuple, list)):
        return [term(x) for x in v[2]]
    return None


def is_gen_coll(t_: t.Any) -> bool:
    return isinstance(t_, tuple) and len(t_) == 2 and t_[0] == "coll" and t_[1] in _GEN_COLLS


def coll_items(t_: Term) -> frozenset | None:
    if isinstance(t_, tuple) and len(t_) == 2 and t_[0] == "coll":
        return _COLLS[t_[1]]
    return None


def is_c(t_: t.Any) -> bool:
    return isinstance(t_, tuple) and len(t_) == 3 and t_[0] == "c"


def is_cstr(t_: t.Any) -> bool:
    return is_c(t_) and isinstance(t_[2], str)


def cv(t_: Term) -> t.Any:
    return t_[2]


def is_stringy(t_: Term) -> bool:
    return is_cstr(t_) or (isinstance(t_, tuple) and t_ and t_[0] in ("cat", "join"))


def cat(parts: t.Iterable[Term]) -> Term:
    flat: list[Term] = []
    for p in parts:
        if isinstance(p, tuple) and p and p[0] == "cat":
            flat.extend(p[1])
        else:
            flat.append(p)
    out: list[Term] = []
    for p in flat:
        if is_cstr(p) and out and is_cstr(out[-1]):
            out[-1] = C(cv(out[-1]) + cv(p))
        else:
            out.append(p)
    out = [p for p in out if not (is_cstr(p) and cv(p) == "")]
    if not out:
        return C("")
    if len(out) == 1 and is_cstr(out[0]):
        return out[0]
    return ("cat", tuple(out))


def strof(x: Term) -> Term:
    if is_cstr(x) or (isinstance(x, tuple) and x and x[0] == "cat"):
        return x
    if is_c(x):
        return C(str(cv(x)))
    return ("cat", (x,))


def add_int(x: Term, k: int) -> Term:
    if is_c(x) and isinstance(cv(x), int) and not isinstance(cv(x), bool):
        return C(cv(x) + k)
    if isinstance(x, tuple) and x and x[0] == "bin" and x[1] == "+" and is_c(x[3]) and isinstance(cv(x[3]), int):
        k2 = cv(x[3]) + k
        return x[2] if k2 == 0 else ("bin", "+", x[2], C(k2))
    if k == 0:
        return x
    return ("bin", "+", x, C(k))


def walk(t_: t.Any) -> t.Iterator[Term]:
    """all sub-terms (pre-order), descending into tuples and frozensets."""
    stack = [t_]
    while stack:
        x = stack.pop()
        if isinstance(x, tuple):
            if x and isinstance(x[0], str):
                yield x
                if x[0] == "c":
                    continue
            stack.extend(x)
        elif isinstance(x, frozenset):
            stack.extend(x)


def walk_deep(t_: t.Any) -> t.Iterator[Term]:
    """like walk, but also enters the items (and item conditions) of interned collections, once each."""
    seen: set[int] = set()
    stack = [t_]
    while stack:
        x = stack.pop()
        if isinstance(x, tuple):
            if x and isinstance(x[0], str):
                yield x
                if x[0] == "c":
                    continue
                if x[0] == "coll" and len(x) == 2:
                    if x[1] not in seen:
                        seen.add(x[1])
                        stack.append(_COLLS[x[1]])
                    continue
            stack.extend(x)
        elif isinstance(x, frozenset):
            stack.extend(x)


def size(t_: t.Any) -> int:
    n = 0
    stack = [t_]
    while stack:
        x = stack.pop()
        n += 1
        if isinstance(x, (tuple, frozenset)) and not is_c(x):
            stack.extend(x)
    return n


def subst(t_: t.Any, m: dict[str, Term]) -> t.Any:
    if isinstance(t_, tuple):
        if is_c(t_):
            return t_
        if len(t_) == 2 and t_[0] == "p" and isinstance(t_[1], str):
            return m.get(t_[1], t_)
        if t_ and t_[0] == "cat":
            return cat([subst(p, m) for p in t_[1]])
        if t_ and t_[0] == "bin" and t_[1] == "+" and is_c(t_[3]) and isinstance(cv(t_[3]), int):
            return add_int(subst(t_[2], m), cv(t_[3]))
        if len(t_) == 2 and t_[0] == "coll":
            r = intern_coll(frozenset(_seq_note(subst(x, m), x) for x in _COLLS[t_[1]]))
            if t_[1] in _GEN_COLLS:
                _GEN_COLLS.add(r[1])
            return r
        return tuple(subst(x, m) for x in t_)
    if isinstance(t_, frozenset):
        return frozenset(subst(x, m) for x in t_)
    return t_


def show(t_: t.Any, depth: int = 0) -> str:
    """compact rendering for facts."""
    if not isinstance(t_, tuple) or not t_:
        if isinstance(t_, frozenset):
            return "{" + ", ".join(sorted(show(x, depth + 1) for x in t_)) + "}"
        return repr(t_)
    k = t_[0]
    if k == "c":
        return repr(t_[2])
    if k == "p":
        return t_[1]
    if k == "g":
        return t_[1].rsplit(".", 1)[-1]
    if k == "v":
        return f"<{t_[1]}>"
    if k == "attr":
        return f"{show(t_[1])}.{t_[2]}"
    if k == "cat":
        return "f'" + "".join(cv(p) if is_cstr(p) else "{" + show(p) + "}" for p in t_[1]) + "'"
    if k == "bin":
        if t_[1] == "+" and is_c(t_[3]) and isinstance(cv(t_[3]), int) and cv(t_[3]) < 0:
            return f"{show(t_[2])} - {-cv(t_[3])}"
        return f"{show(t_[2])} {t_[1]} {show(t_[3])}"
    if k == "cmp":
        return f"{show(t_[2])} {t_[1]} {show(t_[3])}"
    if k == "not":
        return f"not {show(t_[1])}"
    if k in ("and", "or"):
        return "(" + f" {k} ".join(show(x) for x in t_[1]) + ")"
    if k == "idx":
        return f"{show(t_[1])}[{show(t_[2])}]"
    if k == "slice":
        return f"{show(t_[1])}[{'' if t_[2] == NONE else show(t_[2])}:{'' if t_[3] == NONE else show(t_[3])}]"
    if k == "tuple":
        return "(" + ", ".join(show(x) for x in t_[1]) + ")"
    if k == "call":
        return f"{show(t_[1])}(" + ", ".join([show(a) for a in t_[2]] + [f"{kw[1]}={show(kw[2])}" for kw in t_[3]]) + ")"
    if k == "meth":
        return f"{show(t_[2])}.{t_[1]}(" + ", ".join([show(a) for a in t_[3]] + [f"{kw[1]}={show(kw[2])}" for kw in t_[4]]) + ")"
    if k == "join":
        return f"{show(t_[1])}.join({show(t_[2])})"
    if k == "it":
        return f"each({show(t_[1], depth + 2)})"
    if k == "coll":
        if depth > 3:
            return "[..]"
        return "[" + " | ".join(sorted(show(i, depth + 1) for _, i in _COLLS[t_[1]])) + "]"
    if k == "kv":
        return f"{show(t_[1])}: {show(t_[2])}"
    if k == "alt":
        return "one-of{" + ", ".join(sorted(show(x) for x in t_[1])) + "}"
    return repr(t_)


def show_conds(conds: t.Iterable[Cond]) -> str:
    return " and ".join((("" if tr else "not ") + show(a)) for a, tr in conds) or "always"


# ---------------------------------------------------------------------------------------------------------------
# condition atoms

_SWAP = {">": "<", ">=": "<="}


def is_bool_call(t_: t.Any) -> bool:
    return isinstance(t_, tuple) and len(t_) == 4 and t_[0] == "call" and t_[1] == ("g", "builtins.bool") and len(t_[2]) == 1 and not t_[3]


def boolean_shaped(t_: t.Any) -> bool:
    """the term's value is True or False (not merely truthy / falsy)"""
    if not isinstance(t_, tuple) or not t_:
        return False
    if t_[0] in ("cmp", "not"):
        return True
    if t_[0] in ("and", "or"):
        return all(boolean_shaped(x) for x in t_[1])
    return is_bool_call(t_) or (is_c(t_) and isinstance(cv(t_), bool))


def atomize(t_: Term) -> tuple[Term, bool]:
    """(atom, polarity): the term is true iff atom's truth == polarity."""
    if isinstance(t_, tuple) and t_:
        if t_[0] == "not":
            a, p = atomize(t_[1])
            return a, not p
        if is_bool_call(t_):
            return atomize(t_[2][0])  # bool(x) is true exactly when x is
        if t_[0] == "cmp":
            op, a, b = t_[1], t_[2], t_[3]
            if op == "!=":
                x, y = sorted([a, b], key=repr)
                return ("cmp", "==", x, y), False
            if op == "==":
                x, y = sorted([a, b], key=repr)
                return ("cmp", "==", x, y), True
            if op == "is not":
                return ("cmp", "is", a, b), False
            if op == "not in":
                return ("cmp", "in", a, b), False
            if op in _SWAP:
                return ("cmp", _SWAP[op], b, a), True
    return t_, True


_NOT_NONE_KINDS = {"cat", "tuple", "coll", "ref", "bin", "join", "cmp", "not", "kv"}


def static_truth(a: Term) -> bool | None:
    if not isinstance(a, tuple) or not a:
        return None
    k = a[0]
    if k == "c":
        return bool(a[2])
    if k == "cat":
        if any(is_cstr(p) and cv(p) for p in a[1]):
            return True
        return None
    if k == "tuple":
        return bool(a[1])
    if k == "cmp":
        op, x, y = a[1], a[2], a[3]
        if is_c(x) and is_c(y):
            try:
                if op == "is":
                    return x == y if (cv(x) is None or cv(y) is None or isinstance(cv(x), bool)) else None
                if op == "==":
                    return cv(x) == cv(y)
                if op == "in":
                    return cv(x) in cv(y)
                if op == "<":
                    return cv(x) < cv(y)
                if op == "<=":
                    return cv(x) <= cv(y)
            except TypeError:
                return None
        if op == "is":
            for u, w in ((x, y), (y, x)):
                if u == NONE and isinstance(w, tuple) and w and (w[0] in _NOT_NONE_KINDS or (is_c(w) and cv(w) is not None)):
                    return False
        if op == "==" and x == y:
            return True
    return None


# ---------------------------------------------------------------------------------------------------------------
# symbolic execution


class State:
    __slots__ = ("env", "conds", "heap", "flow", "loop_base")

    def __init__(self, env: dict[str, Term], conds: tuple[Cond, ...] = (), heap: dict[int, frozenset] | None = None, flow: str | None = None, loop_base: int | None = None):
        self.env = env
        self.conds = conds
        self.heap = heap if heap is not None else {}
        self.flow = flow
        self.loop_base = loop_base

    def set(self, name: str, v: Term) -> "State":
        env = dict(self.env)
        env[name] = v
        return State(env, self.conds, self.heap, self.flow, self.loop_base)

    def cond(self, term: Term, truth: bool) -> "State":
        a, p = atomize(term)
        c = (a, truth == p)
        if c in self.conds:
            return self
        return State(self.env, self.conds + (c,), self.heap, self.flow, self.loop_base)

    def with_flow(self, flow: str | None) -> "State":
        return State(self.env, self.conds, self.heap, flow, self.loop_base)

    def heap_set(self, oid: int, items: frozenset) -> "State":
        heap = dict(self.heap)
        heap[oid] = items
        return State(self.env, self.conds, heap, self.flow, self.loop_base)

    def local_conds(self) -> tuple[Cond, ...]:
        return self.conds[self.loop_base :] if self.loop_base is not None else ()

    def heap_add(self, oid: int, item: Term, site: ast.AST | None = None) -> "State":
        return self.heap_set(oid, self.heap.get(oid, frozenset()) | {_seq_note((self.local_conds(), item), None, site)})


class Outcome(t.NamedTuple):
    kind: str  # "return" | "raise"
    conds: tuple[Cond, ...]
    term: Term
    node: ast.AST | None


class Summary:
    def __init__(self, fi: FuncInfo, params: list[str], defaults: dict[str, Term], outcomes: list[Outcome], lost: list[str] | None = None):
        self.fi = fi
        self.params = params
        self.defaults = defaults
        self.outcomes = outcomes
        self.lost = lost or []  # stores into containers the executor could not identify (the summary misses these items)
        self._deep: list[Term] | None = None

    @property
    def returns(self) -> list[Outcome]:
        return [o for o in self.outcomes if o.kind == "return"]

    def terms_deep(self) -> list[Term]:
        """every sub-term of every outcome (value and path condition), collections entered once."""
        if self._deep is None:
            self._deep = list(walk_deep(tuple((o.term, o.conds) for o in self.outcomes)))
        return self._deep


MAX_STATES = 6000
MAX_TERM = 1500

_MUTATORS = {"append", "add", "insert", "extend", "update", "setdefault", "appendleft"}
_STR_BUILTINS = {"builtins.str"}
_LISTY_BUILTINS = {"builtins.list", "builtins.tuple", "builtins.sorted", "builtins.iter", "builtins.set", "builtins.frozenset"}


_c06_missing = object()


class Summaries:
    """cache of function summaries for one repo."""

    def __init__(self, repo: Repo, folder: Folder | None = None, fuse_generators: bool = True):
        self.repo = repo
        self.folder = table_folder(repo, folder)
        # the two sound readings of `for x in _generator_helper(..)`: fused (the helper's loop is this loop: one start
        # per yield site, as if the helper's body were written inline) or materialised (the helper is a function that
        # returns the list of what it yields, the loop runs over its generic element)
        self.fuse_generators = fuse_generators
        self.generators_read: set[str] = set()  # generator helpers that were summarised
        self._memo: dict[str, Summary] = {}
        self._busy: list[str] = []
        self._oid = itertools.count(1)
        self._scalars: dict[tuple[str, str], t.Any] = {}

    def of(self, fi: FuncInfo) -> Summary:
        s = self._memo.get(fi.fq)
        if s is None:
            if fi.fq in self._busy:
                raise AnalysisError(f"recursive helper {fi.fq}")
            self._busy.append(fi.fq)
            try:
                s = _Exec(self, fi).run()
            finally:
                self._busy.pop()
            self._memo[fi.fq] = s
        return s

    def func_by_fq(self, fq: str) -> FuncInfo | None:
        if not fq.startswith("werkzeug."):
            return None
        return self.repo.try_func(fq)


def _locals_of(fn: ast.AST) -> set[str]:
    out: set[str] = set()
    stack = list(ast.iter_child_nodes(fn))
    while stack:
        n = stack.pop()
        if isinstance(n, (ast.FunctionDef, ast.AsyncFunctionDef, ast.ClassDef)):
            out.add(n.name)
            continue
        if isinstance(n, ast.Lambda):
            continue
        if isinstance(n, ast.Name) and isinstance(n.ctx, (ast.Store, ast.Del)):
            out.add(n.id)
        if isinstance(n, ast.ExceptHandler) and n.name:
            out.add(n.name)
        if isinstance(n, (ast.Import, ast.ImportFrom)):
            for a in n.names:
                pass  # local imports are resolved through local_imports
        stack.extend(ast.iter_child_nodes(n))
    return out


class _Exec:
    def __init__(self, sums: Summaries, fi: FuncInfo):
        self.sums = sums
        self.repo = sums.repo
        self.fi = fi
        self.fn = fi.node
        self.module = fi.module
        self.local_imports = fi.module.local_imports(fi.node)
        a = self.fn.args  # type: ignore[attr-defined]
        self.params = [x.arg for x in a.posonlyargs + a.args + a.kwonlyargs]
        self.vararg = a.vararg.arg if a.vararg else None
        self.kwarg = a.kwarg.arg if a.kwarg else None
        self.locals = _locals_of(self.fn) | set(self.params) | ({self.vararg} if self.vararg else set()) | ({self.kwarg} if self.kwarg else set())
        # a function defined inside another one reads the variables of the enclosing call: to its summary they are further
        # parameters, bound where the function is called (see inline_target / inline)
        self.free: list[str] = list(getattr(fi, "free_names", ()))
        self.locals |= set(self.free)
        self.closures: dict[str, ast.FunctionDef | None] = {}
        self._closure_infos: dict[int, FuncInfo] = {}
        self.outcomes: list[Outcome] = []
        self.handlers: list[list[str]] = []  # handler types of the try bodies being executed (innermost last)
        self._seen_out: set[tuple] = set()
        self.n_states = 0
        self.lost: list[str] = []
        self.is_gen = False
        self.gen_oid = 0
        self.gen_ends: dict[tuple, list] = {}  # function-level path condition -> [items yielded, node]
        self.gen_refs: dict[int, frozenset] = {}  # list(<generator>) objects -> their items when created
        decs = fi.decorators
        self.is_static = any(d.endswith("staticmethod") for d in decs)
        self.self_name = self.params[0] if (fi.cls is not None and self.params and not self.is_static) else None

    # -- driver -----------------------------------------------------------
    def run(self) -> Summary:
        env: dict[str, Term] = {p: ("p", p) for p in self.free + self.params}
        if self.vararg:
            env[self.vararg] = ("p", self.vararg)
        if self.kwarg:
            env[self.kwarg] = ("p", self.kwarg)
        heap: dict[int, frozenset] = {}
        for n in walk_no_nested_ast(self.fn):
            if isinstance(n, ast.Await) or isinstance(self.fn, ast.AsyncFunctionDef):
                raise AnalysisError(f"{self.fi.fq}: coroutine bodies are not modelled")
            if isinstance(n, (ast.Yield, ast.YieldFrom)):
                if not isinstance(getattr(n, "_parent", None), ast.Expr):
                    raise AnalysisError(f"{self.fi.fq}: a generator that uses the value of `yield` (send protocol) is not modelled")
                self.is_gen = True
        if self.is_gen:
            # a generator is read as the helper that builds the collection of what it yields: `yield x` adds x (under
            # the conditions of its loop iteration, like an append would), every way of finishing returns the collection
            self.gen_oid = next(self.sums._oid)
            heap[self.gen_oid] = frozenset()
        ends = self.block(self.fn.body, [State(env, (), heap)])  # type: ignore[attr-defined]
        for st in ends:
            if st.flow is None:
                self.record("return", st, NONE, None)
        if self.is_gen:
            self.sums.generators_read.add(self.fi.fq)
            for conds, (items, node) in self.gen_ends.items():
                c = intern_coll(frozenset(items))
                _GEN_COLLS.add(c[1])
                self.outcomes.append(Outcome("return", conds, c, node))
        a = self.fn.args  # type: ignore[attr-defined]
        defaults: dict[str, Term] = {}
        pos = a.posonlyargs + a.args
        for arg, d in zip(pos[len(pos) - len(a.defaults) :], a.defaults):
            defaults[arg.arg] = self.const_default(d)
        for arg, d in zip(a.kwonlyargs, a.kw_defaults):
            if d is not None:
                defaults[arg.arg] = self.const_default(d)
        return Summary(self.fi, self.params, defaults, self.outcomes, self.lost)

    def const_default(self, d: ast.AST) -> Term:
        r = self.ev(d, State({}))
        return r[0][1] if len(r) == 1 else ("v", norm(d))

    def record(self, kind: str, st: State, term: Term, node: ast.AST | None) -> None:
        if kind == "raise" and any(_exc_matches(h, _exc_name(term)) for hs in self.handlers for h in hs):
            return  # caught by an enclosing handler, whose body is explored from the state at the `try`
        memo: dict = {}
        if kind == "return" and self.is_gen:
            # the generator ends here: what it produced is everything yielded so far.  A `return` inside the producing
            # loop is "stop producing" (like a break): only the conditions from before the loop describe the call.
            fconds = st.conds[: st.loop_base] if st.loop_base is not None else st.conds
            coll = self.deref(("ref", self.gen_oid), st.heap, (), memo)
            key = tuple((self.deref(a, st.heap, (), memo), tr) for a, tr in fconds)
            self.gen_ends.setdefault(key, [set(), node])[0].update(coll_items(coll) or ())
            return
        term = self.deref(term, st.heap, (), memo)
        conds = tuple((self.deref(a, st.heap, (), memo), tr) for a, tr in st.conds)
        key = (kind, conds, term)
        if key in self._seen_out:
            return
        self._seen_out.add(key)
        self.outcomes.append(Outcome(kind, conds, term, node))

    def deref(self, t_: t.Any, heap: dict[int, frozenset], seen: tuple[int, ...] = (), memo: dict | None = None) -> t.Any:
        """close a term over the heap: every ("ref", oid) becomes an interned ("coll", cid)."""
        if memo is None:
            memo = {}
        if isinstance(t_, tuple):
            if is_c(t_):
                return t_
            k = (id(t_), seen)
            if k in memo:
                return memo[k][1]
            if len(t_) == 2 and t_[0] == "ref":
                oid = t_[1]
                if oid in seen:
                    r: t.Any = ("v", "cyclic")
                else:
                    items = heap.get(oid, frozenset())
                    s2 = seen + (oid,)
                    r = intern_coll(frozenset(_seq_note((tuple((self.deref(a, heap, s2, memo), tr) for a, tr in cs), self.deref(i, heap, s2, memo)), (cs, i)) for cs, i in items))
            else:
                r = tuple(self.deref(x, heap, seen, memo) for x in t_)
            memo[k] = (t_, r)
            return r
        if isinstance(t_, frozenset):
            return frozenset(self.deref(x, heap, seen, memo) for x in t_)
        return t_

    def items_of(self, v: Term, st: State) -> frozenset | None:
        if v[0] == "ref":
            return st.heap.get(v[1], frozenset())
        return coll_items(v)

    def tick(self, n: int = 1) -> None:
        self.n_states += n
        if self.n_states > MAX_STATES:
            raise AnalysisError(f"symbolic execution of {self.fi.fq}: too many paths")

    # -- statements -------------------------------------------------------
    def block(self, stmts: list[ast.stmt], states: list[State]) -> list[State]:
        cur = states
        for s in stmts:
            live = [x for x in cur if x.flow is None]
            dead = [x for x in cur if x.flow is not None]
            if not live:
                return dead
            self.tick(len(live))
            nxt: list[State] = []
            for x in live:
                nxt.extend(self.stmt(s, x))
            cur = dead + nxt
        return cur

    def stmt(self, s: ast.stmt, st: State) -> list[State]:
        if isinstance(s, ast.Expr):
            return [x for x, _ in self.ev(s.value, st)]
        if isinstance(s, ast.Assign):
            out = []
            for x, v in self.ev(s.value, st):
                for tg in s.targets:
                    x = self.assign(tg, v, x)
                out.append(x)
            return out
        if isinstance(s, ast.AnnAssign):
            if s.value is None:
                return [st]
            return [self.assign(s.target, v, x) for x, v in self.ev(s.value, st)]
        if isinstance(s, ast.AugAssign):
            out = []
            load = ast.copy_location(_as_load(s.target), s.target)
            for x, cur in self.ev(load, st):
                for y, v in self.ev(s.value, x):
                    if isinstance(s.op, ast.Add) and cur[0] == "ref":
                        out.append(self.extend(y, cur, v))
                    else:
                        out.append(self.assign(s.target, self.binop(s.op, cur, v, y)[1], y))
            return out
        if isinstance(s, ast.Return):
            if s.value is None:
                self.record("return", st, NONE, s)
            else:
                for x, v in self.ev(s.value, st):
                    self.record("return", x, v, s)
            return []
        if isinstance(s, ast.Raise):
            if s.exc is None:
                self.record("raise", st, ("v", "reraise"), s)
            else:
                for x, v in self.ev(s.exc, st):
                    self.record("raise", x, v, s)
            return []
        if isinstance(s, ast.If):
            ts, fs = self.branch(s.test, st)
            return self.block(s.body, ts) + self.block(s.orelse, fs)
        if isinstance(s, (ast.For, ast.AsyncFor)):
            return self.loop(st, s.body, s.orelse, for_node=s)
        if isinstance(s, ast.While):
            return self.loop(st, s.body, s.orelse, test=s.test)
        if isinstance(s, ast.Try) or s.__class__.__name__ == "TryStar":
            return self.try_(s, st)  # type: ignore[arg-type]
        if isinstance(s, ast.With) and (as_try := _suppress_as_try(s, lambda d: self.repo.resolve(self.module, d, self.local_imports) if d.split(".", 1)[0] not in st.env else None)) is not None:
            return self.try_(as_try, st)
        if isinstance(s, (ast.With, ast.AsyncWith)):
            x = st
            for it in s.items:
                r = self.ev(it.context_expr, x)
                x, v = r[0]
                if it.optional_vars is not None:
                    x = self.assign(it.optional_vars, ("v", f"with:{norm(it.context_expr)}"), x)
            return self.block(s.body, [x])
        if isinstance(s, ast.Break):
            return [st.with_flow("break")]
        if isinstance(s, ast.Continue):
            return [st.with_flow("continue")]
        if isinstance(s, ast.Assert):
            ts, _ = self.branch(s.test, st)
            return ts
        if isinstance(s, (ast.FunctionDef, ast.AsyncFunctionDef, ast.ClassDef)):
            if isinstance(s, ast.FunctionDef) and not s.decorator_list and s.name not in self.closures:
                self.closures[s.name] = s
            elif self.closures.get(s.name) is not s:
                self.closures[s.name] = None  # defined twice / decorated: not followed
            return [st.set(s.name, ("v", f"def:{s.name}"))]
        if isinstance(s, (ast.Pass, ast.Import, ast.ImportFrom, ast.Global, ast.Nonlocal, ast.Delete)):
            return [st]
        raise AnalysisError(f"{self.fi.fq}: statement {type(s).__name__} is not modelled")

    def assign(self, tg: ast.AST, v: Term, st: State) -> State:
        if isinstance(tg, ast.Name):
            return st.set(tg.id, v)
        if isinstance(tg, (ast.Tuple, ast.List)):
            for i, e in enumerate(tg.elts):
                if isinstance(e, ast.Starred):
                    st = self.assign(e.value, ("v", f"star:{show(v)}"), st)
                    continue
                if v[0] == "tuple" and len(v[1]) == len(tg.elts):
                    st = self.assign(e, v[1][i], st)
                else:
                    st = self.assign(e, ("idx", v, C(i)), st)
            return st
        if isinstance(tg, ast.Subscript):
            r = self.ev(tg.value, st)
            st, base = r[0]
            r = self.ev_index(tg.slice, st)
            st, key = r[0]
            if base[0] == "ref":
                return st.heap_add(base[1], ("kv", key, v))
            return st
        return st  # attribute store etc.: not tracked

    def extend(self, st: State, ref: Term, v: Term, site: ast.AST | None = None) -> State:
        """ref.extend(v) / ref += v"""
        items = self.items_of(v, st)
        if items is not None:
            lc = st.local_conds()
            return st.heap_set(ref[1], st.heap.get(ref[1], frozenset()) | frozenset(_seq_note((lc + cs, i), None, site) for cs, i in items))
        return st.heap_add(ref[1], ("it", v), site)

    def loop(self, st: State, body: list[ast.stmt], orelse: list[ast.stmt], for_node: ast.For | None = None, test: ast.AST | None = None) -> list[State]:
        pre_conds = st.conds
        outer = st.loop_base
        base = len(pre_conds) if outer is None else outer
        heads: list[tuple[State, Term | None]] = [(st, None)]
        if for_node is not None:
            unrolled = self.unroll(st, for_node)
            if unrolled is not None:
                return unrolled
            heads = [(x, itv) for x, itv in self.ev(for_node.iter, st)]
        out: list[State] = []
        for st0, itv in heads:
            cur = State(st0.env, pre_conds, st0.heap, None, outer)
            for _pass in (1, 2):
                s0 = State(cur.env, pre_conds, cur.heap, None, base)
                exits: list[State] = []
                if for_node is not None:
                    starts = [self.assign(for_node.target, el, s1) for s1, el in self.elements(itv, s0)]  # type: ignore[arg-type]
                else:
                    starts, exits = self.branch(test, s0)  # type: ignore[arg-type]
                ends = self.block(body, starts)
                cur = self.merge([cur] + ends + exits, pre_conds, outer)
            if test is not None and isinstance(test, ast.Constant) and test.value and not any(e.flow == "break" for e in ends):
                continue  # `while True` without a reachable break: left only by return / raise, nothing follows the loop
            out.extend(self.block(orelse, [cur]) if orelse else [cur])
        return out

    def finite_sequence(self, e: ast.AST, st: State) -> list[ast.AST | Term] | None:
        """the elements, in order, of a sequence that is known in full where the loop stands: a tuple / list display
        (element expressions), a local bound to a tuple of terms, or a constant tuple / list of the module."""
        if isinstance(e, (ast.Tuple, ast.List)):
            return None if any(isinstance(x, ast.Starred) for x in e.elts) else list(e.elts)
        if isinstance(e, ast.Name) and e.id in st.env:
            v = st.env[e.id]
            return list(v[1]) if v[0] == "tuple" else _const_elements(v)
        d = dotted(e)
        if d is not None and d.split(".", 1)[0] not in st.env and d.split(".", 1)[0] not in self.locals and self.is_module_constant(d):
            fq = self.repo.resolve(self.module, d, self.local_imports)
            mn, _, name = fq.rpartition(".")  # type: ignore[union-attr]
            try:
                return _const_elements(C(self.sums.folder.name(self.repo.modules[mn], name)))
            except (Unfoldable, AnalysisError, TypeError):
                return None
        return None

    def unroll(self, st: State, node: ast.For) -> list[State] | None:
        """a `for` over a short sequence known in full is the sequence of its iterations (the body once per element,
        in order): nothing is abstracted, a value rewritten step by step keeps every step."""
        elts = self.finite_sequence(node.iter, st)
        if elts is None or len(elts) > 8 or isinstance(node, ast.AsyncFor):
            return None
        live = [st]
        broken: list[State] = []
        for el in elts:
            starts: list[State] = []
            for s in live:
                if isinstance(el, ast.AST):
                    starts.extend(self.assign(node.target, v, s2) for s2, v in self.ev(el, s))
                else:
                    starts.append(self.assign(node.target, el, s))
            live = []
            for s in self.block(node.body, starts):
                if s.flow == "break":
                    broken.append(s.with_flow(None))
                else:
                    live.append(s.with_flow(None))
        return (self.block(node.orelse, live) if node.orelse else live) + broken

    def elements(self, itv: Term, st: State) -> list[tuple[State, Term]]:
        """the element(s) a loop over `itv` binds: the generic element - or, for the items of a generator helper, one
        start per yield site (the yielded term under the yield's own conditions: the helper's loop *is* this loop)."""
        items = None
        if not self.sums.fuse_generators:
            pass
        elif is_gen_coll(itv):
            items = coll_items(itv)
        elif itv[0] == "ref" and itv[1] in self.gen_refs and st.heap.get(itv[1]) == self.gen_refs[itv[1]]:
            items = self.gen_refs[itv[1]]
        if items is None:
            return [(st, ("it", itv))]
        out: list[tuple[State, Term]] = []
        for cs, item in sorted(items, key=repr):
            s = st
            for a, tr in cs:
                d = self.decide(a, s)
                if d is None:
                    s = s.cond(a, tr)
                elif d != tr:
                    break
            else:
                out.append((s, item))
        self.tick(len(out))
        return out

    def fork(self, v: Term, st: State) -> tuple[list[State], list[State]]:
        """states in which the term is true / false"""
        d = self.decide(v, st)
        if d is True:
            return [st], []
        if d is False:
            return [], [st]
        self.tick(2)
        return [st.cond(v, True)], [st.cond(v, False)]

    def merge(self, states: list[State], conds: tuple[Cond, ...], loop_base: int | None) -> State:
        names: dict[str, list[Term]] = {}
        for s in states:
            for k, v in s.env.items():
                lst = names.setdefault(k, [])
                if v not in lst:
                    lst.append(v)
        env: dict[str, Term] = {}
        for k, vs in names.items():
            if len(vs) == 1:
                env[k] = vs[0]
            else:
                flat: set[Term] = set()
                for v in vs:
                    if v[0] == "alt":
                        flat |= set(v[1])
                    else:
                        flat.add(v)
                v2: Term = ("alt", frozenset(flat))
                nested = any(x is not f and (x[0] == "alt" or (x[0] == "v" and str(x[1]).startswith("loop-carried:"))) for f in flat for x in walk(f))
                if nested or len(flat) > 12 or size(v2) > 400:
                    v2 = ("v", f"loop-carried:{k}")
                env[k] = v2
        heap: dict[int, frozenset] = {}
        for s in states:
            for oid, items in s.heap.items():
                heap[oid] = heap.get(oid, frozenset()) | items
        return State(env, conds, heap, None, loop_base)

    def try_(self, node: ast.Try, st: State) -> list[State]:
        self.handlers.append([norm(h.type) if h.type is not None else "BaseException" for h in node.handlers])
        try:
            body_end = self.block(node.body, [st])
        finally:
            self.handlers.pop()
        if node.orelse:
            body_end = self.block(node.orelse, body_end)
        ends = list(body_end)
        for h in node.handlers:
            typ = norm(h.type) if h.type is not None else "BaseException"
            s = State(st.env, st.conds + ((("exc", typ), True),), st.heap, None, st.loop_base)
            if h.name:
                s = s.set(h.name, ("v", f"exc:{typ}"))
            ends.extend(self.block(h.body, [s]))
        if node.finalbody:
            live = [x for x in ends if x.flow is None]
            dead = [x for x in ends if x.flow is not None]
            ends = self.block(node.finalbody, live) + dead
        return ends

    # -- conditions -------------------------------------------------------
    def decide(self, term: Term, st: State) -> bool | None:
        a, p = atomize(term)
        v = static_truth(a)
        if v is not None:
            return v == p
        for ca, tr in st.conds:
            if ca == a:
                return tr == p
        # x is None  <->  truthiness of x
        if a[0] == "cmp" and a[1] == "is" and a[3] == NONE:
            for ca, tr in st.conds:
                if ca == a[2] and tr:
                    return not p  # x truthy -> `x is None` false
        else:
            for ca, tr in st.conds:
                if ca[0] == "cmp" and ca[1] == "is" and ca[3] == NONE and ca[2] == a and tr:
                    return not p  # x is None -> x falsy
        return None

    def branch(self, e: ast.AST, st: State) -> tuple[list[State], list[State]]:
        if isinstance(e, ast.BoolOp):
            if isinstance(e.op, ast.And):
                ts, fs = [st], []
                for v in e.values:
                    nts: list[State] = []
                    for s in ts:
                        a, b = self.branch(v, s)
                        nts += a
                        fs += b
                    ts = nts
                return ts, fs
            ts, fs = [], [st]
            for v in e.values:
                nfs: list[State] = []
                for s in fs:
                    a, b = self.branch(v, s)
                    ts += a
                    nfs += b
                fs = nfs
            return ts, fs
        if isinstance(e, ast.UnaryOp) and isinstance(e.op, ast.Not):
            a, b = self.branch(e.operand, st)
            return b, a
        if isinstance(e, ast.Compare) and len(e.ops) > 1:
            # a == b == c  ->  a == b and b == c
            parts = []
            left = e.left
            for op, c in zip(e.ops, e.comparators):
                parts.append(ast.copy_location(ast.Compare(left=left, ops=[op], comparators=[c]), e))
                left = c
            return self.branch(ast.copy_location(ast.BoolOp(op=ast.And(), values=parts), e), st)
        ts, fs = [], []
        for s, v in self.ev(e, st):
            d = self.decide(v, s)
            if d is True:
                ts.append(s)
            elif d is False:
                fs.append(s)
            else:
                ts.append(s.cond(v, True))
                fs.append(s.cond(v, False))
        self.tick(len(ts) + len(fs))
        return ts, fs

    # -- expressions ------------------------------------------------------
    def ev(self, e: ast.AST, st: State) -> list[tuple[State, Term]]:
        m = getattr(self, "ev_" + type(e).__name__, None)
        if m is None:
            return [(st, ("v", norm(e)))]
        return m(e, st)

    def ev_many(self, es: t.Sequence[ast.AST], st: State) -> list[tuple[State, list[Term]]]:
        acc: list[tuple[State, list[Term]]] = [(st, [])]
        for e in es:
            nxt = []
            for s, vals in acc:
                for s2, v in self.ev(e, s):
                    nxt.append((s2, vals + [v]))
            acc = nxt
        return acc

    def ev_Constant(self, e: ast.Constant, st: State):  # noqa: N802
        return [(st, C(e.value))]

    def resolve_global(self, d: str) -> Term:
        fq = self.repo.resolve(self.module, d, self.local_imports)
        if fq and fq.startswith("werkzeug.") and self.is_module_constant(d):
            # a text / number hoisted to a constant of the module is that text / number (separator, prefix, offset)
            k = ("scalar", fq)
            if k not in self.sums._scalars:
                mn, _, name = fq.rpartition(".")
                try:
                    v = self.sums.folder.name(self.repo.modules[mn], name)
                except (Unfoldable, AnalysisError):
                    v = _c06_missing
                self.sums._scalars[k] = v if type(v) in (str, int, bool, type(None)) else _c06_missing
            if self.sums._scalars[k] is not _c06_missing:
                return C(self.sums._scalars[k])
        return ("g", fq or f"?.{d}")

    def ev_Name(self, e: ast.Name, st: State):  # noqa: N802
        if e.id in st.env:
            return [(st, st.env[e.id])]
        if e.id in self.locals and e.id not in self.local_imports:
            return [(st, ("v", f"unbound:{e.id}"))]
        return [(st, self.resolve_global(e.id))]

    def ev_Attribute(self, e: ast.Attribute, st: State):  # noqa: N802
        d = dotted(e)
        if d:
            head = d.split(".", 1)[0]
            if head not in st.env and not (head in self.locals and head not in self.local_imports):
                return [(st, self.resolve_global(d))]
        return [(s, ("attr", b, e.attr)) for s, b in self.ev(e.value, st)]

    def ev_JoinedStr(self, e: ast.JoinedStr, st: State):  # noqa: N802
        return [(s, cat(vals)) for s, vals in self.ev_many(e.values, st)]

    def ev_FormattedValue(self, e: ast.FormattedValue, st: State):  # noqa: N802
        out = []
        for s, v in self.ev(e.value, st):
            if e.conversion == 114:
                v = ("call", ("g", "builtins.repr"), (v,), ())
            if e.format_spec is not None:
                v = ("v", f"format:{show(v)}:{norm(e.format_spec)}")
            out.append((s, strof(v)))
        return out

    def binop(self, op: ast.operator, a: Term, b: Term, st: State) -> tuple[State, Term]:
        if isinstance(op, ast.Add):
            if is_stringy(a) or is_stringy(b):
                return st, cat([a, b])
            if is_c(b) and isinstance(cv(b), int) and not isinstance(cv(b), bool):
                return st, add_int(a, cv(b))
            if is_c(a) and isinstance(cv(a), int) and not isinstance(cv(a), bool):
                return st, add_int(b, cv(a))
            ia, ib = self.items_of(a, st), self.items_of(b, st)
            if ia is not None and ib is not None:
                oid = next(self.sums._oid)
                return st.heap_set(oid, ia | ib), ("ref", oid)
            return st, ("bin", "+", a, b)
        if isinstance(op, ast.Sub):
            if is_c(b) and isinstance(cv(b), int) and not isinstance(cv(b), bool):
                return st, add_int(a, -cv(b))
            return st, ("bin", "-", a, b)
        if isinstance(op, ast.Mod) and is_cstr(a):
            r = _printf_parts(cv(a), list(b[1]) if b[0] == "tuple" else [b])
            if r is not None:
                return st, cat(r)
        sym = {ast.Mult: "*", ast.Div: "/", ast.FloorDiv: "//", ast.Mod: "%", ast.BitOr: "|", ast.BitAnd: "&", ast.BitXor: "^", ast.Pow: "**", ast.LShift: "<<", ast.RShift: ">>", ast.MatMult: "@"}.get(type(op), "?")
        if is_c(a) and is_c(b) and sym in ("*", "//", "%") and isinstance(cv(a), int) and isinstance(cv(b), int) and cv(b) != 0:
            return st, C({"*": cv(a) * cv(b), "//": cv(a) // cv(b), "%": cv(a) % cv(b)}[sym])
        return st, ("bin", sym, a, b)

    def ev_BinOp(self, e: ast.BinOp, st: State):  # noqa: N802
        out = []
        for s, (a, b) in self.ev_many([e.left, e.right], st):
            out.append(self.binop(e.op, a, b, s))
        return out

    def ev_UnaryOp(self, e: ast.UnaryOp, st: State):  # noqa: N802
        out = []
        for s, v in self.ev(e.operand, st):
            if isinstance(e.op, ast.Not):
                d = self.decide(v, s)
                out.append((s, C(not d) if d is not None else ("not", v)))
            elif isinstance(e.op, ast.USub) and is_c(v) and isinstance(cv(v), (int, float)):
                out.append((s, C(-cv(v))))
            else:
                out.append((s, ("un", type(e.op).__name__, v)))
        return out

    def ev_BoolOp(self, e: ast.BoolOp, st: State):  # noqa: N802
        is_or = isinstance(e.op, ast.Or)
        res: list[tuple[State, Term]] = []
        pending = [st]
        for i, v in enumerate(e.values):
            last = i == len(e.values) - 1
            nxt: list[State] = []
            for s in pending:
                for s2, tv in self.ev(v, s):
                    if last:
                        res.append((s2, tv))
                        continue
                    d = self.decide(tv, s2)
                    if d is None:
                        # value is tv when its truth ends the evaluation
                        res.append((s2.cond(tv, is_or), tv))
                        nxt.append(s2.cond(tv, not is_or))
                    elif d == is_or:
                        res.append((s2, tv))
                    else:
                        nxt.append(s2)
            pending = nxt
            if not pending:
                break
        self.tick(len(res))
        return res

    def ev_Compare(self, e: ast.Compare, st: State):  # noqa: N802
        ops = {ast.Eq: "==", ast.NotEq: "!=", ast.Lt: "<", ast.LtE: "<=", ast.Gt: ">", ast.GtE: ">=", ast.Is: "is", ast.IsNot: "is not", ast.In: "in", ast.NotIn: "not in"}
        out = []
        for s, vals in self.ev_many([e.left, *e.comparators], st):
            parts = []
            for i, op in enumerate(e.ops):
                t_: Term = ("cmp", ops[type(op)], vals[i], vals[i + 1])
                a, p = atomize(t_)
                sv = static_truth(a)
                if sv is not None:
                    t_ = C(sv == p)
                parts.append(t_)
            if len(parts) == 1:
                out.append((s, parts[0]))
            elif any(p == FALSE for p in parts):
                out.append((s, FALSE))
            else:
                parts = [p for p in parts if p != TRUE]
                out.append((s, TRUE if not parts else parts[0] if len(parts) == 1 else ("and", tuple(parts))))
        return out

    def ev_IfExp(self, e: ast.IfExp, st: State):  # noqa: N802
        ts, fs = self.branch(e.test, st)
        out = []
        for s in ts:
            out.extend(self.ev(e.body, s))
        for s in fs:
            out.extend(self.ev(e.orelse, s))
        return out

    def ev_NamedExpr(self, e: ast.NamedExpr, st: State):  # noqa: N802
        return [(s.set(e.target.id, v), v) for s, v in self.ev(e.value, st)]

    def ev_Yield(self, e: ast.Yield, st: State):  # noqa: N802
        if not self.is_gen:
            return [(st, ("v", norm(e)))]
        if e.value is None:
            return [(st.heap_add(self.gen_oid, NONE, e), NONE)]
        return [(s.heap_add(self.gen_oid, v, e), NONE) for s, v in self.ev(e.value, st)]

    def ev_YieldFrom(self, e: ast.YieldFrom, st: State):  # noqa: N802
        if not self.is_gen:
            return [(st, ("v", norm(e)))]
        return [(self.extend(s, ("ref", self.gen_oid), v, e), NONE) for s, v in self.ev(e.value, st)]

    def ev_Tuple(self, e: ast.Tuple, st: State):  # noqa: N802
        if any(isinstance(x, ast.Starred) for x in e.elts):
            return [(st, ("v", norm(e)))]
        return [(s, ("tuple", tuple(vals))) for s, vals in self.ev_many(e.elts, st)]

    def _new_ref(self, st: State, items: t.Iterable[Term]) -> tuple[State, Term]:
        oid = next(self.sums._oid)
        st = st.heap_set(oid, frozenset(((), i) for i in items))
        return st, ("ref", oid)

    def ev_List(self, e: ast.List, st: State):  # noqa: N802
        if any(isinstance(x, ast.Starred) for x in e.elts):
            # [*a, x, *b]: the union of the unpacked collections and the plain elements
            out = []
            for s, vals in self.ev_many([x.value if isinstance(x, ast.Starred) else x for x in e.elts], st):
                s, ref = self._new_ref(s, [])
                for x, v in zip(e.elts, vals):
                    s = self.extend(s, ref, v) if isinstance(x, ast.Starred) else s.heap_add(ref[1], v)
                out.append((s, ref))
            return out
        return [self._new_ref(s, vals) for s, vals in self.ev_many(e.elts, st)]

    def ev_Set(self, e: ast.Set, st: State):  # noqa: N802
        if all(isinstance(x, ast.Constant) for x in e.elts):
            return [(st, C(frozenset(x.value for x in e.elts)))]  # type: ignore[attr-defined]
        return self.ev_List(e, st)  # type: ignore[arg-type]

    def ev_Dict(self, e: ast.Dict, st: State):  # noqa: N802
        if any(k is None for k in e.keys):
            return [(st, ("v", norm(e)))]
        out = []
        for s, vals in self.ev_many([*e.keys, *e.values], st):  # type: ignore[list-item]
            n = len(e.keys)
            out.append(self._new_ref(s, [("kv", vals[i], vals[n + i]) for i in range(n)]))
        return out

    def _comp(self, e: ast.AST, elt: ast.AST | tuple[ast.AST, ast.AST], gens: list[ast.comprehension], st: State):
        saved_env = st.env
        pre = st.conds
        base = st.loop_base if st.loop_base is not None else len(pre)
        cur = [State(st.env, st.conds, st.heap, None, base)]
        for g in gens:
            nxt = []
            for s in cur:
                for s2, itv in self.ev(g.iter, s):
                    for s2b, el in self.elements(itv, s2):
                        s3 = self.assign(g.target, el, s2b)
                        ss = [s3]
                        for cnd in g.ifs:
                            ss2: list[State] = []
                            for q in ss:
                                ts, _ = self.branch(cnd, q)
                                ss2 += ts
                            ss = ss2
                        nxt += ss
            cur = nxt
        items: set[tuple] = set()
        heap = dict(st.heap)
        for s in cur:
            if isinstance(elt, tuple):
                for s2, (k, v) in self.ev_many(list(elt), s):
                    items.add((s2.conds[len(pre) :], ("kv", k, v)))
                    heap.update(s2.heap)
            else:
                for s2, v in self.ev(elt, s):
                    items.add((s2.conds[len(pre) :], v))
                    heap.update(s2.heap)
        oid = next(self.sums._oid)
        heap[oid] = frozenset(items)
        return [(State(saved_env, pre, heap, st.flow, st.loop_base), ("ref", oid))]

    def ev_ListComp(self, e: ast.ListComp, st: State):  # noqa: N802
        return self._comp(e, e.elt, e.generators, st)

    ev_SetComp = ev_ListComp  # noqa: N815
    ev_GeneratorExp = ev_ListComp  # noqa: N815

    def ev_DictComp(self, e: ast.DictComp, st: State):  # noqa: N802
        return self._comp(e, (e.key, e.value), e.generators, st)

    def ev_index(self, sl: ast.AST, st: State) -> list[tuple[State, Term]]:
        if isinstance(sl, ast.Slice):
            parts = [sl.lower, sl.upper, sl.step]
            acc: list[tuple[State, list[Term]]] = [(st, [])]
            for p in parts:
                nxt = []
                for s, vals in acc:
                    if p is None:
                        nxt.append((s, vals + [NONE]))
                    else:
                        for s2, v in self.ev(p, s):
                            nxt.append((s2, vals + [v]))
                acc = nxt
            return [(s, ("sl", v[0], v[1], v[2])) for s, v in acc]
        return self.ev(sl, st)

    def ev_Subscript(self, e: ast.Subscript, st: State):  # noqa: N802
        out = []
        for s, base in self.ev(e.value, st):
            for s2, ix in self.ev_index(e.slice, s):
                if ix[0] == "sl":
                    out.append((s2, ("slice", base, ix[1], ix[2], ix[3])))
                elif base[0] == "tuple" and is_c(ix) and isinstance(cv(ix), int) and -len(base[1]) <= cv(ix) < len(base[1]):
                    out.append((s2, base[1][cv(ix)]))
                else:
                    sel = self.table_lookup(base, ix, s2)
                    out.extend(sel if sel is not None else [(s2, ("idx", base, ix))])
        return out

    def table_lookup(self, base: Term, ix: Term, st: State) -> list[tuple[State, Term]] | None:
        """`table[key]` for a dict literal with constant keys (each written once) or a pair, selected by a constant or
        by a truth value: `{False: a, True: b}[bool(f)]` / `(a, b)[bool(f)]` is `b if f else a`."""
        entries: dict[t.Any, Term] | None = None
        if base[0] == "ref":
            entries = {}
            for cs, it_ in st.heap.get(base[1], frozenset()):
                if cs or it_[0] != "kv" or not is_c(it_[1]):
                    return None
                k = (type(cv(it_[1])).__name__, cv(it_[1]))
                try:
                    if k in entries:
                        return None
                except TypeError:
                    return None
                entries[k] = it_[2]
        elif base[0] == "tuple" and len(base[1]) == 2:
            entries = {("bool", False): base[1][0], ("bool", True): base[1][1]}
            if is_c(ix):
                return None
        if not entries:
            return None
        if is_c(ix):
            k = (type(cv(ix)).__name__, cv(ix))
            try:
                return [(st, entries[k])] if k in entries else None
            except TypeError:
                return None
        if set(entries) == {("bool", False), ("bool", True)} and boolean_shaped(ix):
            ts, fs = self.fork(ix, st)
            return [(s, entries[("bool", True)]) for s in ts] + [(s, entries[("bool", False)]) for s in fs]
        return None

    # -- calls ------------------------------------------------------------
    def closure_info(self, node: ast.FunctionDef) -> FuncInfo | None:
        """the function defined inside this one as a helper whose free variables are parameters; None when it rebinds
        variables of the enclosing call (nonlocal) or is recursive."""
        if id(node) not in self._closure_infos:
            own = _locals_of(node) | {a.arg for a in node.args.posonlyargs + node.args.args + node.args.kwonlyargs} | ({node.args.vararg.arg} if node.args.vararg else set()) | ({node.args.kwarg.arg} if node.args.kwarg else set())
            if any(isinstance(n, (ast.Nonlocal, ast.Global)) for n in ast.walk(node)):
                return None
            free = sorted({n.id for n in ast.walk(node) if isinstance(n, ast.Name) and isinstance(n.ctx, ast.Load) and n.id not in own and n.id in self.locals and n.id != node.name})
            fi = FuncInfo(self.module, node, f"{self.fi.qualname}.<locals>.{node.name}", None)
            fi.free_names = free  # type: ignore[attr-defined]
            self._closure_infos[id(node)] = fi
        return self._closure_infos[id(node)]

    def inline_target(self, f: ast.AST, st: State) -> tuple[FuncInfo, Term | None] | None:
        if isinstance(f, ast.Name) and st.env.get(f.id) == ("v", f"def:{f.id}") and self.closures.get(f.id) is not None:
            fi = self.closure_info(self.closures[f.id])  # type: ignore[arg-type]
            if fi is not None and fi.fq not in self.sums._busy:
                return fi, None
        if isinstance(f, ast.Name) and f.id not in st.env and f.id.startswith("_") and not f.id.startswith("__"):
            fi = self.module.functions.get(f.id)
            if fi is not None and f.id not in self.locals and fi.fq not in self.sums._busy:
                return fi, None
        if isinstance(f, ast.Attribute) and isinstance(f.value, ast.Name) and self.fi.cls is not None and f.attr.startswith("_") and not f.attr.startswith("__"):
            recv = f.value.id
            if (recv == self.self_name and recv in st.env) or recv == self.fi.cls.name:
                m = self.fi.cls.methods.get(f.attr)
                if m is not None and m.fq not in self.sums._busy:
                    decs = m.decorators
                    if any(d.endswith("staticmethod") for d in decs):
                        return m, None
                    if any(d.endswith("property") for d in decs):
                        return None
                    return m, st.env.get(recv, ("g", self.fi.cls.fq))
        return None

    def is_module_constant(self, d: str) -> bool:
        fq = self.repo.resolve(self.module, d, self.local_imports)
        if not fq or not fq.startswith("werkzeug."):
            return False
        mn, _, name = fq.rpartition(".")
        mod = self.repo.modules.get(mn)
        return mod is not None and name in mod.assigns and name not in mod.functions and name not in mod.classes

    def kwargs_of(self, names: list[str | None], vals: list[Term]) -> tuple:
        return tuple(("kw", n or "**", v) for n, v in zip(names, vals))

    def functional_form(self, e: ast.Call, st: State) -> ast.AST | None:
        """``map(lambda x: E, xs)`` / ``itertools.starmap(lambda a, b: E, xs)`` / ``filter(lambda x: C, xs)`` /
        ``itertools.filterfalse(...)`` / ``filter(None, xs)`` written as the generator expression they are
        (``(E for x in xs)``, ``(E for a, b in xs)``, ``(x for x in xs if C)`` ...), and ``itertools.chain(a, b)`` /
        ``chain.from_iterable((a, b))`` as the display ``[*a, *b]``: the same items, read by the same machinery."""
        if e.keywords or any(isinstance(a, ast.Starred) for a in e.args):
            return None
        d = dotted(e.func)
        if d is None or d.split(".", 1)[0] in st.env:
            return None
        fq = self.repo.resolve(self.module, d, self.local_imports)
        new: ast.AST | None = None
        if fq in ("itertools.chain",) and e.args:
            new = ast.List(elts=[ast.Starred(value=a, ctx=ast.Load()) for a in e.args], ctx=ast.Load())
        elif fq == "itertools.chain.from_iterable" and len(e.args) == 1 and isinstance(e.args[0], (ast.Tuple, ast.List)) and not any(isinstance(x, ast.Starred) for x in e.args[0].elts):
            new = ast.List(elts=[ast.Starred(value=a, ctx=ast.Load()) for a in e.args[0].elts], ctx=ast.Load())
        elif fq in ("builtins.map", "itertools.starmap", "builtins.filter", "itertools.filterfalse") and len(e.args) == 2:
            fn, xs = e.args
            if isinstance(fn, ast.Constant) and fn.value is None and fq in ("builtins.filter", "itertools.filterfalse"):
                x = ast.Name(id="_each", ctx=ast.Load())
                cond: ast.AST = x if fq == "builtins.filter" else ast.UnaryOp(op=ast.Not(), operand=x)
                new = ast.GeneratorExp(elt=x, generators=[ast.comprehension(target=ast.Name(id="_each", ctx=ast.Store()), iter=xs, ifs=[cond], is_async=0)])
            elif isinstance(fn, ast.Lambda):
                a = fn.args
                if a.vararg or a.kwarg or a.kwonlyargs or a.defaults or a.posonlyargs and a.args:
                    return None
                params = [x.arg for x in (a.posonlyargs or a.args)]
                if not params:
                    return None
                if fq == "itertools.starmap":
                    target: ast.AST = ast.Tuple(elts=[ast.Name(id=p, ctx=ast.Store()) for p in params], ctx=ast.Store())
                elif len(params) == 1:
                    target = ast.Name(id=params[0], ctx=ast.Store())
                else:
                    return None
                if fq in ("builtins.map", "itertools.starmap"):
                    new = ast.GeneratorExp(elt=fn.body, generators=[ast.comprehension(target=target, iter=xs, ifs=[], is_async=0)])
                else:
                    cond = fn.body if fq == "builtins.filter" else ast.UnaryOp(op=ast.Not(), operand=fn.body)
                    new = ast.GeneratorExp(elt=ast.Name(id=params[0], ctx=ast.Load()), generators=[ast.comprehension(target=target, iter=xs, ifs=[cond], is_async=0)])
            elif isinstance(fn, (ast.Name, ast.Attribute)) and (tgt := self.inline_target(fn, st)) is not None:
                # a private helper of the module / class passed by name: map(_h, xs) is (_h(x) for x in xs)
                hfi, hself = tgt
                hparams = [a.arg for a in hfi.node.args.posonlyargs + hfi.node.args.args]
                if hfi.cls is not None and hself is not None:
                    hparams = hparams[1:]
                if hfi.node.args.vararg or not hparams:
                    return None
                n = len(hparams) if fq == "itertools.starmap" else 1
                names = [f"_each{i}" for i in range(n)]
                target = ast.Name(id=names[0], ctx=ast.Store()) if fq != "itertools.starmap" else ast.Tuple(elts=[ast.Name(id=x, ctx=ast.Store()) for x in names], ctx=ast.Store())
                applied: ast.AST = ast.Call(func=fn, args=[ast.Name(id=x, ctx=ast.Load()) for x in names], keywords=[])
                if fq in ("builtins.map", "itertools.starmap"):
                    new = ast.GeneratorExp(elt=applied, generators=[ast.comprehension(target=target, iter=xs, ifs=[], is_async=0)])
                else:
                    cond = applied if fq == "builtins.filter" else ast.UnaryOp(op=ast.Not(), operand=applied)
                    new = ast.GeneratorExp(elt=ast.Name(id=names[0], ctx=ast.Load()), generators=[ast.comprehension(target=target, iter=xs, ifs=[cond], is_async=0)])
        if new is None:
            return None
        ast.copy_location(new, e)
        ast.fix_missing_locations(new)
        return new

    def ev_Call(self, e: ast.Call, st: State):  # noqa: N802
        ff = self.functional_form(e, st)
        if ff is not None:
            return self.ev(ff, st)
        if any(isinstance(a, ast.Starred) for a in e.args):
            return [(st, ("v", norm(e)))]
        kwn = [k.arg for k in e.keywords]
        arg_exprs = list(e.args) + [k.value for k in e.keywords]
        tgt = self.inline_target(e.func, st)
        out: list[tuple[State, Term]] = []
        if tgt is not None and None not in kwn:
            fi, selfv = tgt
            for s, vals in self.ev_many(arg_exprs, st):
                out.extend(self.inline(fi, selfv, vals[: len(e.args)], dict(zip(kwn, vals[len(e.args) :])), s, e))  # type: ignore[arg-type]
            return out
        f = e.func
        if isinstance(f, ast.Attribute) and f.attr == "join" and len(e.args) == 1 and not e.keywords and isinstance(e.args[0], (ast.List, ast.Tuple)) and not any(isinstance(x, ast.Starred) for x in e.args[0].elts):
            # sep.join([a, b, c]) with a literal sequence: an ordered concatenation
            for s, vals in self.ev_many([f.value, *e.args[0].elts], st):
                sep, items = vals[0], vals[1:]
                if is_cstr(sep):
                    parts: list[Term] = []
                    for i, it_ in enumerate(items):
                        if i:
                            parts.append(sep)
                        parts.append(strof(it_))
                    out.append((s, cat(parts)))
                else:
                    out.append((s, ("v", norm(e))))
            return out
        if isinstance(f, ast.Attribute):
            d = dotted(f)
            head = d.split(".", 1)[0] if d else None
            is_global = d is not None and head not in st.env and not (head in self.locals and head not in self.local_imports)
            if is_global and self.is_module_constant(d.rsplit(".", 1)[0]):  # type: ignore[union-attr]
                is_global = False
            if not is_global:
                for s, recv in self.ev(f.value, st):
                    for s2, vals in self.ev_many(arg_exprs, s):
                        out.append(self.method(f.attr, recv, vals[: len(e.args)], self.kwargs_of(kwn, vals[len(e.args) :]), s2, e))
                return out
        for s, fv in self.ev(f, st):
            for s2, vals in self.ev_many(arg_exprs, s):
                out.append(self.call(fv, vals[: len(e.args)], self.kwargs_of(kwn, vals[len(e.args) :]), s2, e))
        return out

    def call(self, fv: Term, args: list[Term], kwargs: tuple, st: State, e: ast.Call) -> tuple[State, Term]:
        fq = fv[1] if fv[0] == "g" else None
        if fq in _STR_BUILTINS and len(args) == 1 and not kwargs:
            return st, strof(args[0])
        if fq == "builtins.map" and len(args) == 2:
            st, ref = self._new_ref(st, [("call", args[0], (("it", args[1]),), ())])
            return st, ref
        if fq in _LISTY_BUILTINS and not kwargs:
            if not args:
                return self._new_ref(st, [])
            if len(args) == 1 and self.items_of(args[0], st) is not None:
                oid = next(self.sums._oid)
                if is_gen_coll(args[0]) or (args[0][0] == "ref" and args[0][1] in self.gen_refs and st.heap.get(args[0][1]) == self.gen_refs[args[0][1]]):
                    self.gen_refs[oid] = self.items_of(args[0], st)  # type: ignore[assignment]
                return st.heap_set(oid, self.items_of(args[0], st)), ("ref", oid)  # type: ignore[arg-type]
        if fq == "builtins.dict" and not args and not kwargs:
            return self._new_ref(st, [])
        if fq == "builtins.dict" and len(args) == 1 and not kwargs and self.items_of(args[0], st) is not None:
            # dict(<pairs>): every (key, value) item becomes an entry (a mapping is copied entry by entry)
            entries = set()
            for cs, it_ in self.items_of(args[0], st):  # type: ignore[union-attr]
                if it_[0] == "kv":
                    entries.add((cs, it_))
                elif it_[0] == "tuple" and len(it_[1]) == 2:
                    entries.add((cs, ("kv", it_[1][0], it_[1][1])))
                else:
                    entries.add((cs, ("kv", ("idx", it_, C(0)), ("idx", it_, C(1)))))
            oid = next(self.sums._oid)
            return st.heap_set(oid, frozenset(entries)), ("ref", oid)
        if fq in ("typing.cast", "t.cast") and len(args) == 2:
            return st, args[1]
        return st, ("call", fv, tuple(args), kwargs)

    def method(self, name: str, recv: Term, args: list[Term], kwargs: tuple, st: State, e: ast.Call) -> tuple[State, Term]:
        if name == "join" and len(args) == 1 and not kwargs:
            return st, ("join", recv, args[0])
        if recv[0] == "ref":
            if name in ("append", "add") and len(args) == 1:
                return st.heap_add(recv[1], args[0], e if name == "append" else None), NONE
            if name == "insert" and len(args) == 2:
                return st.heap_add(recv[1], args[1]), NONE
            if name in ("extend", "update") and len(args) == 1:
                return self.extend(st, recv, args[0], e if name == "extend" else None), NONE
            if name == "setdefault" and len(args) == 2:
                return st.heap_add(recv[1], ("kv", args[0], args[1])), ("meth", name, recv, tuple(args), kwargs)
            if name == "copy" and not args:
                oid = next(self.sums._oid)
                return st.heap_set(oid, st.heap.get(recv[1], frozenset())), ("ref", oid)
        if name in _MUTATORS and recv[0] != "ref" and not is_c(recv) and recv[0] not in ("p", "attr", "g", "call", "meth"):
            self.lost.append(f"{show(recv)[:60]}.{name}(..)")  # a local container the executor lost track of
        if name == "format" and is_cstr(recv):
            r = _format_parts(cv(recv), args, kwargs)
            if r is not None:
                return st, cat(r)
        return st, ("meth", name, recv, tuple(args), kwargs)

    def inline(self, fi: FuncInfo, selfv: Term | None, args: list[Term], kwargs: dict[str, Term], st: State, e: ast.Call) -> list[tuple[State, Term]]:
        summ = self.sums.of(fi)
        self.lost.extend(x for x in summ.lost if x not in self.lost)
        params = list(summ.params)
        m: dict[str, Term] = {}
        pos = list(args)
        if fi.cls is not None and not any(d.endswith("staticmethod") for d in fi.decorators) and params:
            m[params[0]] = selfv if selfv is not None else ("v", "self?")
            params = params[1:]
        for p, a in zip(params, pos):
            m[p] = a
        for k, v in kwargs.items():
            m[k] = v
        for p in params:
            if p not in m:
                m[p] = summ.defaults.get(p, ("v", f"missing-arg:{p}"))
        for n in getattr(fi, "free_names", ()):
            if n not in m:
                m[n] = st.env.get(n, ("v", f"unbound:{n}"))
        res: list[tuple[State, Term]] = []
        for o in summ.outcomes:
            s = st
            dead = False
            for a, tr in o.conds:
                a2 = subst(a, m)
                d = self.decide(a2, s)
                if d is None:
                    s = s.cond(a2, tr)
                elif d != tr:
                    dead = True
                    break
            if dead:
                continue
            if o.kind == "raise":
                self.record("raise", s, subst(o.term, m), e)
                continue
            v = subst(o.term, m)
            if size(v) > MAX_TERM:
                raise AnalysisError(f"term too large while inlining {fi.fq}")
            res.append((s, v))
        self.tick(len(res))
        return res


def _suppress_as_try(s: ast.With, resolve: t.Callable[[str], str | None]) -> ast.Try | None:
    """``with contextlib.suppress(E1, E2): body`` is ``try: body / except (E1, E2): pass`` (the only context manager read:
    it has no other effect).  None for every other ``with``."""
    if len(s.items) != 1 or s.items[0].optional_vars is not None:
        return None
    call = s.items[0].context_expr
    if not isinstance(call, ast.Call) or call.keywords or any(isinstance(a, ast.Starred) for a in call.args):
        return None
    d = dotted(call.func)
    if d is None or resolve(d) != "contextlib.suppress":
        return None
    if not call.args:
        return ast.copy_location(ast.Try(body=s.body, handlers=[], orelse=[], finalbody=[ast.copy_location(ast.Pass(), s)]), s)
    typ: ast.expr = call.args[0] if len(call.args) == 1 else ast.copy_location(ast.Tuple(elts=list(call.args), ctx=ast.Load()), call)
    handler = ast.copy_location(ast.ExceptHandler(type=typ, name=None, body=[ast.copy_location(ast.Pass(), s)]), s)
    return ast.copy_location(ast.Try(body=s.body, handlers=[handler], orelse=[], finalbody=[]), s)


def _as_load(tg: ast.AST) -> ast.AST:
    x = ast.parse(ast.unparse(tg), mode="eval").body
    return x


def _printf_parts(fmt: str, args: list[Term]) -> list[Term] | None:
    out: list[Term] = []
    i = 0
    pieces = re.split(r"(%[sd%])", fmt)
    if any("%" in p for p in pieces[0::2]):
        return None
    for j, p in enumerate(pieces):
        if j % 2 == 0:
            if p:
                out.append(C(p))
        elif p == "%%":
            out.append(C("%"))
        else:
            if i >= len(args):
                return None
            out.append(strof(args[i]))
            i += 1
    return out if i == len(args) else None


def _format_parts(fmt: str, args: list[Term], kwargs: tuple) -> list[Term] | None:
    import string

    out: list[Term] = []
    auto = 0
    kw = {k[1]: k[2] for k in kwargs}
    try:
        for lit, field, spec, conv in string.Formatter().parse(fmt):
            if lit:
                out.append(C(lit))
            if field is None:
                continue
            if spec or conv:
                return None
            if field == "":
                v = args[auto]
                auto += 1
            elif field.isdigit():
                v = args[int(field)]
            elif field in kw:
                v = kw[field]
            else:
                return None
            out.append(strof(v))
    except (ValueError, IndexError):
        return None
    return out


# ---------------------------------------------------------------------------------------------------------------
# bounded (concrete) evaluation of terms and summaries


class Unknown(AnalysisError):
    """a term outside the evaluable fragment."""


class NoPath(Unknown):
    """no alternative's condition holds for the sample."""


class Raised(Exception):
    def __init__(self, kind: str):
        super().__init__(kind)
        self.kind = kind


class FuncRef(t.NamedTuple):
    fq: str


_PURE_METHODS = {
    str: {"strip", "lstrip", "rstrip", "lower", "upper", "title", "casefold", "partition", "rpartition", "split", "rsplit", "startswith", "endswith", "replace", "find", "rfind", "index", "rindex", "removeprefix", "removesuffix", "isdigit", "isascii", "isalnum", "isalpha", "isspace", "encode", "join", "count", "splitlines", "translate", "zfill", "capitalize", "swapcase", "format", "center", "ljust", "rjust", "expandtabs", "isdecimal", "isnumeric", "isidentifier", "islower", "isupper", "istitle", "isprintable"},
    bytes: {"decode", "strip", "lower", "upper", "startswith", "endswith", "replace", "partition", "split"},
    tuple: {"index", "count"},
    list: {"index", "count", "copy"},
    frozenset: {"issuperset", "issubset", "isdisjoint", "union", "intersection", "difference"},
    set: {"issuperset", "issubset", "isdisjoint", "union", "intersection", "difference"},
    dict: {"get", "items", "keys", "values"},
}
_PURE_BUILTINS = {"builtins.str.maketrans": str.maketrans, "builtins.bytes.maketrans": bytes.maketrans, "builtins.str": str, "builtins.len": len, "builtins.int": int, "builtins.set": set, "builtins.frozenset": frozenset, "builtins.bool": bool, "builtins.list": list, "builtins.tuple": tuple, "builtins.min": min, "builtins.max": max, "builtins.isinstance": None, "builtins.all": all, "builtins.any": any, "builtins.sorted": sorted, "builtins.repr": repr, "builtins.ord": ord, "builtins.chr": chr, "builtins.abs": abs}
_EXC_PARENTS = {"IndexError": {"LookupError", "Exception", "BaseException"}, "KeyError": {"LookupError", "Exception", "BaseException"}, "ValueError": {"Exception", "BaseException"}, "TypeError": {"Exception", "BaseException"}, "UnicodeDecodeError": {"UnicodeError", "ValueError", "Exception", "BaseException"}, "UnicodeEncodeError": {"UnicodeError", "ValueError", "Exception", "BaseException"}, "AttributeError": {"Exception", "BaseException"}, "OverflowError": {"ArithmeticError", "Exception", "BaseException"}}


def _exc_matches(handler_text: str, kind: str) -> bool:
    names = {x.strip().rsplit(".", 1)[-1] for x in handler_text.strip("()").split(",")}
    return kind in names or bool(names & _EXC_PARENTS.get(kind, {"Exception", "BaseException"}))


def _as_mapping(v: t.Any) -> t.Any:
    """the value of a dict display / dict comprehension (evaluated as the list of its ("kv", key, value) entries) as
    the mapping a table consumer reads (later entries win, as in the display)."""
    if isinstance(v, list) and v and all(isinstance(x, tuple) and len(x) == 3 and x[0] == "kv" for x in v):
        return {x[1]: x[2] for x in v}
    return v


class Conc:
    def __init__(self, sums: Summaries):
        self.sums = sums
        self.repo = sums.repo
        self.folder = sums.folder
        self._rx: dict[int, t.Any] = {}
        self.depth = 0
        self._memo: dict[int, t.Any] | None = None  # per-sample cache (terms are shared objects)

    def gval(self, fq: str) -> t.Any:
        if fq.startswith("builtins."):
            n = fq.split(".", 1)[1]
            if n in ("True", "False", "None"):
                return {"True": True, "False": False, "None": None}[n]
            return FuncRef(fq)
        if fq.startswith("werkzeug."):
            mn, _, name = fq.rpartition(".")
            mod = self.repo.modules.get(mn)
            if mod is not None:
                if name in mod.functions:
                    return FuncRef(fq)
                if name in mod.assigns:
                    try:
                        v = self.folder.name(mod, name)
                    except Unfoldable as ex:
                        raise Unknown(f"constant {fq}: {ex}")
                    return v
            return FuncRef(fq)
        return FuncRef(fq)

    def regex(self, rc: RegexConst):
        k = id(rc)
        if k not in self._rx:
            self._rx[k] = re.compile(rc.pattern, rc.flags)
        return self._rx[k]

    def val(self, t_: Term, env: dict[Term, t.Any]) -> t.Any:
        k = t_[0]
        if k == "c":
            return t_[2]
        memo = self._memo
        if memo is not None:
            hit = memo.get(id(t_), memo)
            if hit is not memo:
                return hit
            v = self._val(t_, env)
            memo[id(t_)] = v
            return v
        return self._val(t_, env)

    def _val(self, t_: Term, env: dict[Term, t.Any]) -> t.Any:
        if t_ in env:
            return env[t_]
        k = t_[0]
        if k == "g":
            return self.gval(t_[1])
        if k == "cat":
            parts = [self.val(p, env) for p in t_[1]]
            for p in parts:
                if isinstance(p, (FuncRef, RegexConst)):
                    raise Unknown("str() of an object")
            return "".join(p if isinstance(p, str) else str(p) for p in parts)
        if k == "tuple":
            return tuple(self.val(x, env) for x in t_[1])
        if k == "kv":
            return ("kv", self.val(t_[1], env), self.val(t_[2], env))
        if k == "not":
            return not self.val(t_[1], env)
        if k == "and":
            r: t.Any = True
            for x in t_[1]:
                r = self.val(x, env)
                if not r:
                    return r
            return r
        if k == "or":
            r = False
            for x in t_[1]:
                r = self.val(x, env)
                if r:
                    return r
            return r
        if k == "cmp":
            return self.cmp(t_[1], self.val(t_[2], env), self.val(t_[3], env))
        if k == "bin":
            a, b = self.val(t_[2], env), self.val(t_[3], env)
            try:
                return {"+": lambda: a + b, "-": lambda: a - b, "*": lambda: a * b, "//": lambda: a // b, "%": lambda: a % b, "|": lambda: a | b, "&": lambda: a & b}[t_[1]]()
            except KeyError:
                raise Unknown(f"operator {t_[1]}")
            except TypeError:
                raise Raised("TypeError")
            except ZeroDivisionError:
                raise Raised("ZeroDivisionError")
        if k == "idx":
            base, i = self.val(t_[1], env), self.val(t_[2], env)
            if isinstance(base, re.Match):
                try:
                    return base[i]
                except IndexError:
                    raise Raised("IndexError")
            if not isinstance(base, (str, bytes, tuple, list, dict)):
                raise Unknown(f"subscript of {type(base).__name__}")
            try:
                return base[i]
            except IndexError:
                raise Raised("IndexError")
            except KeyError:
                raise Raised("KeyError")
            except TypeError:
                raise Raised("TypeError")
        if k == "slice":
            base = self.val(t_[1], env)
            if not isinstance(base, (str, bytes, tuple, list)):
                raise Unknown(f"slice of {type(base).__name__}")
            lo, hi, stp = (self.val(x, env) for x in t_[2:5])
            return base[lo:hi:stp]
        if k == "meth":
            return self.meth(t_, env)
        if k == "call":
            return self.call(t_, env)
        if k == "join":
            sep = self.val(t_[1], env)
            items = self.val(t_[2], env)
            if isinstance(sep, str) and isinstance(items, (list, tuple)) and all(isinstance(x, str) for x in items):
                return sep.join(items)
            raise Unknown("join of a symbolic collection")
        if k == "coll":
            return self.coll_val(t_, env)
        if k == "alt":
            vals = [self.val(x, env) for x in t_[1]]
            if all(v == vals[0] and type(v) is type(vals[0]) for v in vals):
                return vals[0]
            raise Unknown(f"loop-carried value with several possibilities: {show(t_)[:80]}")
        raise Unknown(f"cannot evaluate {show(t_)[:80]}")

    def coll_val(self, t_: Term, env: dict[Term, t.Any]) -> list:
        """a collection built by one comprehension / loop over a concrete iterable: element-wise evaluation."""
        items = sorted(_COLLS[t_[1]], key=repr)
        its: list[Term] = []
        for x in walk(tuple(items)):
            if x[0] == "it" and x not in its and x not in env:
                its.append(x)
        if not its:
            if len(items) == 1 and not items[0][0]:
                return [self.val(items[0][1], env)]
            if not items:
                return []
            if all(not cs and it_[0] == "kv" for cs, it_ in items):
                # a dict display: as a mapping it does not depend on the order of its entries (keys must differ)
                kvs = [self.val(it_, env) for _, it_ in items]
                try:
                    if len({kv[1] for kv in kvs}) == len(kvs):
                        return kvs
                except TypeError:
                    pass
            raise Unknown("order of a collection filled at several places")
        if len(its) != 1:
            raise Unknown("collection over several iterations")
        if any(not any(x == its[0] for x in walk((cs, it_))) for cs, it_ in items):
            # an item that does not depend on the element (a constant stored before / after / between the per-element
            # stores): how often and where it occurs in the sequence is not part of the abstraction
            raise Unknown("collection filled both per element of a loop and independently of it")
        src = self.val(its[0][1], env)
        if isinstance(src, dict):
            src = list(src)
        if not isinstance(src, (str, list, tuple)):
            raise Unknown(f"iteration over {type(src).__name__}")
        out = []
        saved = self._memo
        try:
            for el in src:
                self._memo = {} if saved is not None else None
                env2 = dict(env)
                env2[its[0]] = el
                hit = []
                for cs, it_ in items:
                    if all(bool(self.val(a, env2)) == tr for a, tr in cs):
                        hit.append((_ITEM_SEQ.get((cs, it_)), self.val(it_, env2)))
                if len(hit) > 1:
                    # several stores for one element (`yield a; yield b` in one iteration): one item per storing
                    # statement (its variants from the two passes over the loop body must agree), in statement order
                    by_site: dict[int, t.Any] = {}
                    for n, v in hit:
                        if n is None or (n in by_site and (by_site[n] != v or type(by_site[n]) is not type(v))):
                            raise Unknown("several items stored per element")
                        by_site[n] = v
                    hit = sorted(by_site.items())
                out.extend(v for _, v in hit)
        finally:
            self._memo = saved
        return out

    def cmp(self, op: str, a: t.Any, b: t.Any) -> bool:
        try:
            if op == "==":
                return a == b
            if op == "!=":
                return a != b
            if op == "is":
                return a is b if (a is None or b is None or isinstance(a, bool) or isinstance(b, bool)) else a == b
            if op == "is not":
                return not self.cmp("is", a, b)
            if op == "in":
                return a in b
            if op == "not in":
                return a not in b
            if op == "<":
                return a < b
            if op == "<=":
                return a <= b
            if op == ">":
                return a > b
            if op == ">=":
                return a >= b
        except TypeError:
            raise Raised("TypeError")
        raise Unknown(f"comparison {op}")

    def meth(self, t_: Term, env: dict[Term, t.Any]) -> t.Any:
        name = t_[1]
        recv = self.val(t_[2], env)
        args = [self.val(a, env) for a in t_[3]]
        kwargs = {kw[1]: self.val(kw[2], env) for kw in t_[4]}
        if isinstance(recv, RegexConst):
            if name in ("match", "fullmatch", "search") and args and isinstance(args[0], (str, bytes)):
                return getattr(self.regex(recv), name)(*args, **kwargs)
            if name in ("sub", "split", "findall") and all(isinstance(a, (str, bytes, int)) for a in args):
                return getattr(self.regex(recv), name)(*args, **kwargs)
            raise Unknown(f"regex method {name}")
        if isinstance(recv, re.Match):
            if name in ("group", "groups", "start", "end", "span", "groupdict"):
                return getattr(recv, name)(*args, **kwargs)
            raise Unknown(f"match method {name}")
        if name == "translate" and isinstance(recv, (str, bytes)):
            args = [_as_mapping(a) for a in args]
        for ty, names in _PURE_METHODS.items():
            if type(recv) is ty and name in names:
                try:
                    return getattr(recv, name)(*args, **kwargs)
                except Exception as ex:  # semantics of the builtin: the program would raise here
                    raise Raised(type(ex).__name__)
        raise Unknown(f"method {name} of {type(recv).__name__}")

    def call(self, t_: Term, env: dict[Term, t.Any]) -> t.Any:
        f = self.val(t_[1], env)
        args = [self.val(a, env) for a in t_[2]]
        kwargs = {kw[1]: self.val(kw[2], env) for kw in t_[3]}
        if not isinstance(f, FuncRef):
            raise Unknown(f"call of {show(t_[1])}")
        if f.fq in _PURE_BUILTINS and _PURE_BUILTINS[f.fq] is not None:
            if f.fq.endswith(".maketrans"):
                args = [_as_mapping(a) for a in args]
            try:
                return _PURE_BUILTINS[f.fq](*args, **kwargs)  # type: ignore[misc]
            except Exception as ex:
                raise Raised(type(ex).__name__)
        if f.fq in ("re.sub", "re.match", "re.fullmatch", "re.search", "re.split", "re.findall") and len(args) >= 2 and all(isinstance(a, (str, int)) for a in args):
            try:
                return getattr(re, f.fq[3:])(*args, **kwargs)  # pattern and replacement are constants of the source
            except re.error as ex:
                raise Unknown(f"{f.fq}: {ex}")
        fi = self.sums.func_by_fq(f.fq)
        if fi is None:
            raise Unknown(f"call of {f.fq}")
        return self.apply(self.sums.of(fi), args, kwargs)

    def apply(self, summ: Summary, args: list[t.Any], kwargs: dict[str, t.Any], extra_env: dict[Term, t.Any] | None = None) -> t.Any:
        """value returned by the summarised function for concrete arguments (Raised if it raises)."""
        self.depth += 1
        if self.depth > 6:
            self.depth -= 1
            raise Unknown("evaluation too deep")
        saved_memo = self._memo
        self._memo = None  # the callee's terms are evaluated under another environment
        try:
            env: dict[Term, t.Any] = dict(extra_env or {})
            params = list(summ.params)
            for p, a in zip(params, args):
                env[("p", p)] = a
            for k, v in kwargs.items():
                env[("p", k)] = v
            for p in params:
                if ("p", p) not in env:
                    if p in summ.defaults:
                        env[("p", p)] = self.val(summ.defaults[p], {})
            kind, value = self.pick(summ.outcomes, env)
            if kind == "raise":
                raise Raised(_exc_name(value))
            return self.val(value, env)
        finally:
            self.depth -= 1
            self._memo = saved_memo

    def pick(self, outcomes: t.Sequence[Outcome], env: dict[Term, t.Any]) -> tuple[str, Term]:
        """the outcome whose path condition holds (paths of `except` handlers only after a raising path)."""
        pending: str | None = None
        for phase in (0, 1):
            if phase == 1 and pending is None:
                break
            for o in outcomes:
                has_exc = any(a[0] == "exc" for a, _ in o.conds)
                if has_exc != (phase == 1):
                    continue
                ok = True
                try:
                    for a, tr in o.conds:
                        if a[0] == "exc":
                            v = pending is not None and _exc_matches(a[1], pending)
                        else:
                            v = bool(self.val(a, env))
                        if v != tr:
                            ok = False
                            break
                    if ok and o.kind == "return":
                        self.val(o.term, env)  # evaluating the value may itself raise inside a try
                except Raised as r:
                    if phase == 0 and pending is None:
                        pending = r.kind
                        break
                    if phase == 1:
                        raise
                    continue
                if ok:
                    return o.kind, o.term
        if pending is not None:
            raise Raised(pending)
        raise NoPath("no path of the summary matches the sample")


def matching_items(conc: Conc, items: t.Sequence[Outcome], env: dict[Term, t.Any]) -> list[t.Any]:
    """values of all collection items whose (loop-relative) condition holds for the sample; an item whose condition
    raises counts as "the loop body raises here"."""
    out: list[t.Any] = []
    conc._memo = {}
    try:
        return _matching_items(conc, items, env, out)
    finally:
        conc._memo = None


def _matching_items(conc: Conc, items: t.Sequence[Outcome], env: dict[Term, t.Any], out: list[t.Any]) -> list[t.Any]:
    for o in items:
        try:
            ok = True
            for a, tr in o.conds:
                if a[0] == "exc":
                    ok = False
                    break
                if bool(conc.val(a, env)) != tr:
                    ok = False
                    break
            if ok:
                v = conc.val(o.term, env)
                if v not in out:
                    out.append(v)
        except Raised as r:
            v = ("<raises>", r.kind)
            if v not in out:
                out.append(v)
    return out


def _exc_name(t_: Term) -> str:
    if t_[0] == "call":
        t_ = t_[1]
    if t_[0] == "g":
        return t_[1].rsplit(".", 1)[-1]
    return "Exception"


# ---------------------------------------------------------------------------------------------------------------
# RFC 9110 5.6.4 quoted-string reference (trusted constant of the checker)


def rfc_quote(s: str) -> str:
    return '"' + s.replace("\\", "\\\\").replace('"', '\\"') + '"'


def rfc_unquote_full(w: str) -> str | None:
    """decode w as exactly one quoted-string; None when w is not one."""
    if len(w) < 2 or w[0] != '"':
        return None
    out = []
    i = 1
    while i < len(w):
        ch = w[i]
        if ch == "\\":
            if i + 1 >= len(w):
                return None
            out.append(w[i + 1])
            i += 2
        elif ch == '"':
            return "".join(out) if i == len(w) - 1 else None
        else:
            out.append(ch)
            i += 1
    return None


def samples(alphabet: t.Iterable[str], maxlen: int) -> list[str]:
    al = sorted(set(alphabet))
    out = []
    for n in range(1, maxlen + 1):
        for tup in itertools.product(al, repeat=n):
            out.append("".join(tup))
    return out


# ---------------------------------------------------------------------------------------------------------------
# Machine: evaluation of whole functions of the source on concrete constants
#
# The summaries above abstract loops (generic element, loop-carried values become "one of"), which is what the pattern
# rules need but cannot follow a *scanner*: a ``while`` loop that consumes its input piece by piece (key / value /
# advance to the next section) or a parser whose verdict on one item depends on what the previous items left behind.
# For laws of the form "for every value v of a finite family, read(write(v)) == v" the Machine walks the syntax trees of
# the writer and the reader statement by statement over concrete Python constants (str / int / list / dict / tuple ...),
# with the semantics of the builtin types, of ``re`` applied to regex constants folded from the source, and of a few
# pure stdlib functions.  Nothing of werkzeug is imported or run: functions and classes of the package exist only as
# syntax trees (instances are records of attributes, methods are looked up along the MRO the loader computes).  A
# construct outside the modelled fragment raises ``NotModelled`` (an AnalysisError -> exit 2), never a verdict.


class NotModelled(AnalysisError):
    """a construct / library call outside the fragment the Machine evaluates."""


class OutOfSteps(Exception):
    """the evaluation did not finish within the step budget (a loop that does not advance)."""


class ExcVal:
    """an exception object of a builtin / stdlib class raised by the evaluated program."""

    def __init__(self, pycls: type, args: tuple = ()):
        self.pycls = pycls
        self.args = args

    @property
    def kind(self) -> str:
        return self.pycls.__name__


class ProgramRaise(Exception):
    def __init__(self, value: t.Any):
        super().__init__(getattr(value, "kind", "exception"))
        self.value = value

    @property
    def kind(self) -> str:
        v = self.value
        return v.kind if isinstance(v, ExcVal) else v.ci.name


class Obj:
    """instance of a class of the package: a record of attributes."""

    __slots__ = ("ci", "attrs")

    def __init__(self, ci: t.Any):
        self.ci = ci
        self.attrs: dict[str, t.Any] = {}

    @property
    def kind(self) -> str:
        return self.ci.name


class _Rec:
    """small immutable record (deliberately not a tuple: program values that are tuples must not be confused with it)."""

    __slots__: tuple[str, ...] = ()

    def __init__(self, *vals: t.Any):
        for k, v in zip(self.__slots__, vals):
            object.__setattr__(self, k, v)

    def _key(self) -> tuple:
        return tuple(id(x) if isinstance(x, (Obj, list, dict, set)) else x for x in (getattr(self, k) for k in self.__slots__))

    def __eq__(self, other: object) -> bool:
        return type(other) is type(self) and self._key() == other._key()  # type: ignore[attr-defined]

    def __hash__(self) -> int:
        return hash((type(self).__name__, self._key()))


class Fn(_Rec):
    __slots__ = ("fi", "selfv", "bound")  # bound: selfv is passed as the first argument

    def __init__(self, fi: FuncInfo, selfv: t.Any = None, bound: bool = False):
        super().__init__(fi, selfv, bound)


class Cls(_Rec):
    __slots__ = ("ci",)


class ModRef(_Rec):
    __slots__ = ("name",)


class Ext(_Rec):
    __slots__ = ("fq",)


class Native(_Rec):
    __slots__ = ("recv", "name")


class SuperRef(_Rec):
    __slots__ = ("obj", "after")


class Closure:
    def __init__(self, node: ast.AST, frame: "Frame"):
        self.node = node
        self.frame = frame


class _GenClose(BaseException):
    """unwinds the body of a generator that is abandoned (its `finally` blocks run, as on generator.close())."""


class GenVal:
    """generator object of the evaluated program: the body of the generator function, suspended at its `yield`s.

    The body is evaluated by the same Machine on a thread of its own that runs only while the consumer waits in
    ``__next__`` (strict hand-over, never concurrently), so the interleaving of producer and consumer - laziness, early
    abandonment, an exception raised after some items were delivered - is the interleaving of the Python semantics.
    Being a plain Python iterator it can be consumed by `for`, comprehensions and the builtins (list, next, join ...)."""

    def __init__(self, machine: "Machine", body: t.Callable[[], None], what: str):
        self.machine = machine
        self.body = body
        self.what = what
        self.state = "new"  # new | suspended | running | done | closed
        self.retval: t.Any = None
        self._msg: tuple = ()
        self._go = __import__("threading").Semaphore(0)
        self._back = __import__("threading").Semaphore(0)
        self._closing = False
        self._frame_tag = ("<gen>", id(self))

    def __iter__(self) -> "GenVal":
        return self

    def _main(self) -> None:
        self._go.acquire()
        try:
            if self._closing:
                raise _GenClose()
            self.body()
            self._msg = ("return", None)
        except _Ret as r:
            self._msg = ("return", r.v)
        except _GenClose:
            self._msg = ("closed",)
        except BaseException as ex:  # noqa: BLE001 - handed to the consumer, which re-raises it
            self._msg = ("raise", ex)
        self._back.release()

    def suspend(self, v: t.Any) -> None:
        """called on the generator's thread by `yield v`"""
        self._msg = ("yield", v)
        self._back.release()
        self._go.acquire()
        if self._closing:
            raise _GenClose()

    def __next__(self) -> t.Any:
        if self.state == "closed":
            raise NotModelled(f"generator {self.what} is used after the evaluation that created it ended")
        if self.state == "done":
            raise StopIteration
        if self.state == "running":
            raise ProgramRaise(ExcVal(ValueError, ("generator already executing",)))
        m = self.machine
        if self.state == "new":
            import threading

            th = threading.Thread(target=self._main, daemon=True)
            m._gens.append(self)
            th.start()
        self.state = "running"
        prev = m._cur_gen
        m._cur_gen = self
        self._go.release()
        self._back.acquire()
        m._cur_gen = prev
        msg = self._msg
        if msg[0] == "yield":
            self.state = "suspended"
            return msg[1]
        self.state = "done"
        if msg[0] == "return":
            self.retval = msg[1]
            raise StopIteration
        if msg[0] == "raise":
            raise msg[1]
        raise StopIteration

    def close(self) -> None:
        if self.state == "suspended":
            self._closing = True
            self.state = "running"
            self._go.release()
            self._back.acquire()
        if self.state != "done":
            self.state = "closed"


class Frame:
    __slots__ = ("env", "module", "limports", "parent", "fi", "is_comp", "outer_names")

    def __init__(self, module: t.Any, limports: dict[str, str], parent: "Frame | None" = None, fi: FuncInfo | None = None, is_comp: bool = False):
        self.env: dict[str, t.Any] = {}
        self.module = module
        self.limports = limports
        self.parent = parent
        self.fi = fi
        self.is_comp = is_comp
        self.outer_names: set[str] = set()

    def find(self, name: str) -> "Frame | None":
        f: Frame | None = self
        while f is not None:
            if name in f.env:
                return f
            f = f.parent
        return None


class _Ret(Exception):
    def __init__(self, v: t.Any):
        self.v = v


class _Brk(Exception):
    pass


class _Cnt(Exception):
    pass


# values of the datetime module are immutable constants to the Machine, like int / str: their operations are CPython's
_DT_TYPES = (_dtm.date, _dtm.time, _dtm.timedelta, _dtm.tzinfo)  # datetime is a date
_NATIVE_TYPES = (str, bytes, bytearray, int, float, list, dict, tuple, set, frozenset, range, type({}.items()), type({}.keys()), type({}.values())) + _DT_TYPES
# constants of the standard library that are read as attributes of a class / module
_EXT_VALUES: dict[str, t.Any] = {"datetime.timezone.utc": _dtm.timezone.utc, "datetime.UTC": _dtm.timezone.utc}
_MACHINE_OBJECTS = (Obj, Fn, Cls, ModRef, Ext, Native, SuperRef, Closure, ExcVal)
_BIN = {
    ast.Add: lambda a, b: a + b, ast.Sub: lambda a, b: a - b, ast.Mult: lambda a, b: a * b, ast.Div: lambda a, b: a / b, ast.FloorDiv: lambda a, b: a // b,
    ast.Mod: lambda a, b: a % b, ast.Pow: lambda a, b: a**b, ast.BitOr: lambda a, b: a | b, ast.BitAnd: lambda a, b: a & b, ast.BitXor: lambda a, b: a ^ b,
    ast.LShift: lambda a, b: a << b, ast.RShift: lambda a, b: a >> b,
}  # fmt: skip
_CMP = {
    ast.Eq: lambda a, b: a == b, ast.NotEq: lambda a, b: a != b, ast.Lt: lambda a, b: a < b, ast.LtE: lambda a, b: a <= b, ast.Gt: lambda a, b: a > b,
    ast.GtE: lambda a, b: a >= b, ast.In: lambda a, b: a in b, ast.NotIn: lambda a, b: a not in b,
}  # fmt: skip


def _stdlib_attr(fq: str) -> t.Any:
    """the object a dotted name of builtins / the standard library denotes (never anything of the analysed package)."""
    import importlib
    import sys

    if fq.startswith(("werkzeug", "?")):
        raise NotModelled(f"name {fq} is not resolved")
    parts = fq.split(".")
    for i in range(len(parts), 0, -1):
        mn = ".".join(parts[:i])
        if parts[0] not in sys.stdlib_module_names:
            break
        try:
            obj: t.Any = importlib.import_module(mn)
        except ImportError:
            continue
        try:
            for p in parts[i:]:
                obj = getattr(obj, p)
        except AttributeError:
            break
        return obj
    raise NotModelled(f"name {fq} is not a builtin / standard library object")


_EXT_PURE = {
    "builtins.len", "builtins.int", "builtins.str", "builtins.bool", "builtins.float", "builtins.list", "builtins.tuple", "builtins.dict", "builtins.set",
    "builtins.frozenset", "builtins.min", "builtins.max", "builtins.sorted", "builtins.abs", "builtins.any", "builtins.all", "builtins.sum", "builtins.repr",
    "builtins.ord", "builtins.chr", "builtins.enumerate", "builtins.zip", "builtins.range", "builtins.reversed", "builtins.divmod", "builtins.round",
    "builtins.bytes", "builtins.bytearray", "builtins.ascii", "builtins.format", "builtins.map", "builtins.filter", "builtins.iter", "builtins.next", "builtins.hex",
    "urllib.parse.unquote", "urllib.parse.quote", "urllib.parse.unquote_to_bytes", "urllib.parse.unquote_plus", "urllib.parse.quote_plus",
    "urllib.request.parse_http_list", "base64.b64encode", "base64.b64decode", "re.escape", "re.sub", "re.match", "re.fullmatch", "re.search", "re.split", "re.findall",
    "operator.itemgetter", "itertools.chain", "itertools.islice", "itertools.chain.from_iterable", "itertools.takewhile", "itertools.dropwhile",
    "itertools.filterfalse", "itertools.starmap", "itertools.zip_longest", "itertools.accumulate", "itertools.compress", "itertools.pairwise", "functools.reduce",
    "datetime.datetime", "datetime.date", "datetime.time", "datetime.timedelta", "datetime.timezone", "datetime.datetime.combine", "datetime.datetime.fromisoformat",
    "email.utils.format_datetime", "email.utils.parsedate_to_datetime", "email.utils.parsedate_tz", "email.utils.parsedate", "email.utils.mktime_tz", "calendar.timegm",
}  # fmt: skip
# iterators of the standard library are materialised (their sources are finite here and their callables pure): a
# sequence with the same elements in the same order.  What only an iterator can do - next() - is refused on them.
_EAGER = {
    "builtins.enumerate", "builtins.zip", "builtins.reversed", "builtins.map", "builtins.filter", "itertools.chain", "itertools.islice", "itertools.chain.from_iterable",
    "itertools.takewhile", "itertools.dropwhile", "itertools.filterfalse", "itertools.starmap", "itertools.zip_longest", "itertools.accumulate", "itertools.compress",
    "itertools.pairwise",
}  # fmt: skip


class Machine:
    def __init__(self, repo: Repo, folder: Folder, max_steps: int = 200_000):
        self.repo = repo
        self.folder = table_folder(repo, folder)
        self.max_steps = max_steps
        self.steps = 0
        self.depth = 0
        self._rx: dict[tuple, t.Any] = {}
        self._limports: dict[int, dict[str, str]] = {}
        self._const: dict[str, t.Any] = {}
        self._plain: dict[int, bool] = {}  # function node -> False: plain function, True: generator function (no coroutine, no foreign decorator)
        self._gens: list[GenVal] = []  # generator objects started during the current evaluation
        self._cur_gen: GenVal | None = None  # the generator whose body is being evaluated
        self._loads: dict[int, ast.AST] = {}
        self._dispatch: dict[type, t.Any] = {}
        self._class_attrs: dict[tuple[str, str], t.Any] = {}
        self._with_as_try: dict[int, ast.Try | None] = {}

    # -- entry points -----------------------------------------------------
    def run(self, f: t.Any, args: t.Sequence[t.Any] = (), kwargs: dict[str, t.Any] | None = None) -> t.Any:
        """value of the call f(*args, **kwargs) (f: FuncInfo, ClassInfo or a Machine callable)."""
        self.steps = 0
        self.depth = 0
        if isinstance(f, FuncInfo):
            f = Fn(f, None)
        elif not isinstance(f, _MACHINE_OBJECTS):
            f = Cls(f)
        try:
            return self.call(f, list(args), dict(kwargs or {}))
        finally:
            self.close_generators()

    def method(self, obj: t.Any, name: str, args: t.Sequence[t.Any] = (), kwargs: dict[str, t.Any] | None = None) -> t.Any:
        self.steps = 0
        self.depth = 0
        try:
            return self.call(self.getattr(obj, name), list(args), dict(kwargs or {}))
        finally:
            self.close_generators()

    def close_generators(self) -> None:
        """the evaluation is over: unwind every generator body that is still suspended (its thread ends)."""
        gens, self._gens = self._gens, []
        for g in reversed(gens):
            try:
                g.close()
            except BaseException:  # noqa: BLE001 - nothing of the finished evaluation may leak into the next one
                pass

    def outcome(self, thunk: t.Callable[[], t.Any]) -> t.Any:
        """snapshot of the value, or a marker for `raises` / `does not finish`."""
        try:
            return snapshot(thunk())
        except ProgramRaise as r:
            return ("<raises>", r.kind)
        except OutOfSteps:
            return ("<no result>", f"not finished after {self.max_steps} steps")
        except RecursionError:
            raise NotModelled("evaluation nests too deeply")

    # -- plumbing ---------------------------------------------------------
    def tick(self) -> None:
        self.steps += 1
        if self.steps > self.max_steps:
            raise OutOfSteps()

    def raise_(self, pycls: type, *args: t.Any) -> t.NoReturn:
        raise ProgramRaise(ExcVal(pycls, args))

    def native(self, fn: t.Callable[..., t.Any], *args: t.Any, **kwargs: t.Any) -> t.Any:
        """apply an operation of a builtin type / stdlib function: what it raises, the program raises."""
        try:
            return fn(*args, **kwargs)
        except (ProgramRaise, OutOfSteps, AnalysisError, _Ret, _Brk, _Cnt):
            raise
        except RecursionError:
            raise
        except Exception as ex:
            raise ProgramRaise(ExcVal(type(ex), ex.args))

    def limports_of(self, fi: FuncInfo) -> dict[str, str]:
        k = id(fi.node)
        if k not in self._limports:
            self._limports[k] = fi.module.local_imports(fi.node)
        return self._limports[k]

    def regex(self, rc: RegexConst) -> t.Any:
        k = (rc.pattern, rc.flags)
        if k not in self._rx:
            self._rx[k] = re.compile(rc.pattern, rc.flags)
        return self._rx[k]

    def value_of_fq(self, fq: str) -> t.Any:
        if not fq.startswith("werkzeug"):
            return _EXT_VALUES[fq] if fq in _EXT_VALUES else Ext(fq)
        if fq in self._const:
            return self._const[fq]
        if fq in self.repo.modules:
            return ModRef(fq)
        fi = self.repo.try_func(fq)
        if fi is not None:
            return Fn(fi, None)
        ci = self.repo.try_cls(fq)
        if ci is not None:
            return Cls(ci)
        mn, _, nm = fq.rpartition(".")
        mod = self.repo.modules.get(mn)
        if mod is not None and nm in mod.assigns:
            try:
                v = self.folder.name(mod, nm)
            except (Unfoldable, AnalysisError) as ex:
                raise NotModelled(f"module constant {fq} is not folded: {ex}")
            self._const[fq] = v
            return v
        raise NotModelled(f"name {fq} is not resolved")

    def load_name(self, name: str, fr: Frame) -> t.Any:
        f = fr.find(name)
        if f is not None:
            return f.env[name]
        fq = self.repo.resolve(fr.module, name, fr.limports)
        if fq is None:
            raise NotModelled(f"name {name} is not resolved")
        if fq.startswith("builtins.") and fq[9:] in ("True", "False", "None"):
            return {"True": True, "False": False, "None": None}[fq[9:]]
        return self.value_of_fq(fq)

    # -- attributes -------------------------------------------------------
    def class_member(self, ci: t.Any, name: str, after: str | None = None) -> tuple[t.Any, t.Any]:
        return self.repo.lookup(ci, name, after)

    def bind_member(self, owner: t.Any, what: t.Any, obj: t.Any, ci: t.Any, name: str) -> t.Any:
        if isinstance(what, FuncInfo):
            decs = what.decorators
            if any(d.endswith("staticmethod") for d in decs):
                return Fn(what, None)
            if any(d.endswith("classmethod") for d in decs):
                return Fn(what, Cls(ci), True)
            if any(d.endswith(("property", "cached_property")) for d in decs):
                if obj is None:
                    raise NotModelled(f"property {what.fq} read on the class")
                return self.call_fn(what, [obj], {})
            if decs:
                raise NotModelled(f"decorated method {what.fq}")
            return Fn(what, obj, True) if obj is not None else Fn(what, None)
        if what == "builtin":
            raise NotModelled(f"inherited builtin member {name} of {ci.fq}")
        v = self.class_attr(owner, what, name)
        if isinstance(v, Obj):
            _, getter = self.class_member(v.ci, "__get__")
            if isinstance(getter, FuncInfo):
                return self.call_fn(getter, [v, obj, Cls(ci)], {})
            if getter is not None:
                raise NotModelled(f"descriptor {ci.fq}.{name}")
        return v

    def class_attr(self, owner: t.Any, what: ast.AST, name: str) -> t.Any:
        """value of a class-level assignment (evaluated once; a descriptor learns its name as at class creation)."""
        k = (owner.fq, name)
        if k not in self._class_attrs:
            v = self.ev(what, Frame(owner.module, {}))
            self._class_attrs[k] = v
            if isinstance(v, Obj):
                _, sn = self.class_member(v.ci, "__set_name__")
                if isinstance(sn, FuncInfo):
                    self.call_fn(sn, [v, Cls(owner), name], {})
        return self._class_attrs[k]

    def getattr(self, v: t.Any, name: str) -> t.Any:
        if isinstance(v, Obj):
            if name in v.attrs:
                return v.attrs[name]
            if name == "__dict__":
                return v.attrs
            if name == "__class__":
                return Cls(v.ci)
            owner, what = self.class_member(v.ci, name)
            if what is None:
                self.raise_(AttributeError, f"{v.ci.name!r} object has no attribute {name!r}")
            return self.bind_member(owner, what, v, v.ci, name)
        if isinstance(v, Cls):
            if name == "__name__":
                return v.ci.name
            if name == "__qualname__":
                return v.ci.qualname
            owner, what = self.class_member(v.ci, name)
            if what is None:
                self.raise_(AttributeError, name)
            return self.bind_member(owner, what, None, v.ci, name)
        if isinstance(v, SuperRef):
            owner, what = self.class_member(v.obj.ci, name, after=v.after)
            if what is None or what == "builtin":
                if name == "__init__":
                    return Ext("<object.__init__>")
                raise NotModelled(f"super().{name} is not defined in the package")
            return self.bind_member(owner, what, v.obj, v.obj.ci, name)
        if isinstance(v, ModRef):
            return self.value_of_fq(self.repo.canonical(f"{v.name}.{name}"))
        if isinstance(v, Ext):
            fq = self.repo.canonical(f"{v.fq}.{name}")
            return _EXT_VALUES[fq] if fq in _EXT_VALUES else Ext(fq)
        if isinstance(v, ExcVal):
            if name == "args":
                return v.args
            return Native(v, name)
        if isinstance(v, (RegexConst, re.Match)) or isinstance(v, _NATIVE_TYPES) or v is None:
            if name.startswith("_"):
                raise NotModelled(f"attribute {name} of a {type(v).__name__}")
            if isinstance(v, re.Match) and name in ("string", "pos", "endpos", "lastindex", "lastgroup"):
                return getattr(v, name)
            if isinstance(v, RegexConst):
                if name in ("pattern", "flags"):
                    return getattr(v, name)
                if not hasattr(re.Pattern, name):
                    self.raise_(AttributeError, name)
                return Native(v, name)
            if not hasattr(v, name):
                self.raise_(AttributeError, f"{type(v).__name__!r} object has no attribute {name!r}")
            if isinstance(v, (int, float)) and name in ("real", "imag", "numerator", "denominator"):
                return getattr(v, name)
            if isinstance(v, _DT_TYPES) and not callable(getattr(v, name)):
                return getattr(v, name)  # year, second, microsecond, tzinfo, days ...: data of an immutable value
            return Native(v, name)
        raise NotModelled(f"attribute {name} of {type(v).__name__}")

    def setattr(self, v: t.Any, name: str, val: t.Any) -> None:
        if not isinstance(v, Obj):
            raise NotModelled(f"attribute store on {type(v).__name__}")
        owner, what = self.class_member(v.ci, name)
        if isinstance(what, FuncInfo) and any(d.endswith("property") for d in what.decorators):
            _, setter = self.class_member(v.ci, f"{name}.setter")
            if not isinstance(setter, FuncInfo):
                self.raise_(AttributeError, f"property {name!r} has no setter")
            self.call_fn(setter, [v, val], {})
            return
        if what is not None and not isinstance(what, (FuncInfo, str)) and isinstance(what, ast.Call):
            d = self.class_attr(owner, what, name)
            if isinstance(d, Obj):
                _, setter = self.class_member(d.ci, "__set__")
                if isinstance(setter, FuncInfo):
                    self.call_fn(setter, [d, v, val], {})
                    return
                if setter is not None:
                    raise NotModelled(f"descriptor {v.ci.fq}.{name}")
        v.attrs[name] = val

    # -- calls ------------------------------------------------------------
    def pyfunc(self, v: t.Any) -> t.Any:
        """a Machine callable as a Python callable (key= of sorted, function of map ...)."""
        if isinstance(v, (Fn, Closure, Cls, Native, Ext)):
            return lambda *a, **k: self.call(v, list(a), k)
        return v

    def call(self, f: t.Any, args: list[t.Any], kwargs: dict[str, t.Any]) -> t.Any:
        self.tick()
        if isinstance(f, Fn):
            return self.call_fn(f.fi, ([f.selfv] if f.bound else []) + args, kwargs)
        if isinstance(f, Closure):
            return self.call_closure(f, args, kwargs)
        if isinstance(f, Cls):
            return self.instantiate(f.ci, args, kwargs)
        if isinstance(f, Native):
            return self.call_native(f, args, kwargs)
        if isinstance(f, Ext):
            return self.call_ext(f.fq, args, kwargs)
        if isinstance(f, Obj):
            _, what = self.class_member(f.ci, "__call__")
            if isinstance(what, FuncInfo):
                return self.call_fn(what, [f] + args, kwargs)
        raise NotModelled(f"call of a {type(f).__name__}")

    def call_native(self, f: Native, args: list[t.Any], kwargs: dict[str, t.Any]) -> t.Any:
        recv = f.recv
        args = [self.pyfunc(a) for a in args]
        kwargs = {k: self.pyfunc(v) for k, v in kwargs.items()}
        if isinstance(recv, RegexConst):
            rx = self.regex(recv)
            r = self.native(getattr(rx, f.name), *args, **kwargs)
            return list(r) if f.name == "finditer" else r
        if isinstance(recv, ExcVal):
            raise NotModelled(f"method {f.name} of an exception")
        for a in list(args) + list(kwargs.values()):
            if isinstance(a, (Obj, ExcVal, ModRef, SuperRef)) and not (isinstance(recv, (list, dict, set)) and f.name in ("append", "add", "insert", "setdefault", "get", "pop", "remove", "index", "count", "extend", "update", "discard")):
                raise NotModelled(f"{type(recv).__name__}.{f.name} applied to an instance")
        if isinstance(recv, _dtm.datetime) and recv.tzinfo is None and f.name in ("astimezone", "timestamp"):
            raise NotModelled(f"datetime.{f.name} of a naive value depends on the time zone of the host")
        if isinstance(recv, (_dtm.datetime, _dtm.date)) and f.name in ("today", "now", "utcnow", "fromtimestamp", "utcfromtimestamp", "strftime", "ctime"):
            raise NotModelled(f"datetime.{f.name} depends on the clock / locale of the host")
        if isinstance(recv, str) and f.name in ("format", "format_map"):
            for a in list(args) + list(kwargs.values()):
                if not isinstance(a, (str, int, float, type(None), bool)):
                    raise NotModelled("str.format of a structured value")
        return self.native(getattr(recv, f.name), *args, **kwargs)

    def call_ext(self, fq: str, args: list[t.Any], kwargs: dict[str, t.Any]) -> t.Any:
        if fq == "<object.__init__>":
            return None
        if fq in ("typing.cast", "t.cast") and len(args) == 2:
            return args[1]
        if fq == "builtins.isinstance" and len(args) == 2:
            return self.isinstance(args[0], args[1])
        if fq == "builtins.callable" and len(args) == 1:
            return isinstance(args[0], (Fn, Closure, Cls, Native, Ext))
        if fq == "builtins.type" and len(args) == 1:
            v = args[0]
            if isinstance(v, Obj):
                return Cls(v.ci)
            if isinstance(v, _NATIVE_TYPES) or v is None:
                return Ext(f"builtins.{type(v).__name__}")
            raise NotModelled("type() of a Machine object")
        if fq in ("builtins.getattr", "builtins.hasattr") and len(args) >= 2 and isinstance(args[1], str):
            try:
                v = self.getattr(args[0], args[1])
            except ProgramRaise as r:
                if r.kind != "AttributeError":
                    raise
                if fq == "builtins.hasattr":
                    return False
                if len(args) == 3:
                    return args[2]
                raise
            return True if fq == "builtins.hasattr" else v
        if fq == "builtins.setattr" and len(args) == 3 and isinstance(args[1], str):
            self.setattr(args[0], args[1], args[2])
            return None
        if fq == "builtins.super":
            raise NotModelled("super() outside a method body")
        if fq == "builtins.str" and len(args) == 1 and not kwargs:
            return self.to_str(args[0])
        if fq == "builtins.repr" and len(args) == 1:
            return self.to_repr(args[0])
        if fq == "builtins.bool" and len(args) == 1:
            return self.truth(args[0])
        if fq == "re.compile":
            if args and isinstance(args[0], (str, bytes)):
                flags = args[1] if len(args) > 1 else kwargs.get("flags", 0)
                return RegexConst(args[0], int(flags))
            raise NotModelled("re.compile of a non-constant")
        if fq == "builtins.next" and args and isinstance(args[0], (list, tuple, str, bytes, dict, set, frozenset)):
            # a materialised iterator cannot be told from a real sequence here (on which next() is a TypeError)
            raise NotModelled("next() of a value that is a sequence in this evaluation (library iterators are materialised)")
        target = _stdlib_attr(fq)
        if isinstance(target, type) and issubclass(target, BaseException):
            return ExcVal(target, tuple(args))
        unbound = fq.startswith("builtins.") and fq.count(".") == 2 and fq.split(".")[1] in ("str", "bytes", "int", "list", "dict", "tuple", "set", "frozenset") and not fq.rsplit(".", 1)[1].startswith("_")
        if fq not in _EXT_PURE and not unbound:
            raise NotModelled(f"call of {fq}")
        for a in list(args) + list(kwargs.values()):
            if isinstance(a, (Obj, ExcVal, ModRef, SuperRef)):
                raise NotModelled(f"{fq} applied to an instance")
            if fq in ("builtins.str", "builtins.repr", "builtins.format", "builtins.ascii") and isinstance(a, (list, tuple, dict, set, frozenset)) and _has_machine_object(a):
                raise NotModelled(f"{fq} of a structure holding instances")
        args = [self.pyfunc(a) for a in args]
        kwargs = {k: self.pyfunc(v) for k, v in kwargs.items()}
        r = self.native(target, *args, **kwargs)
        if fq in _EAGER:
            r = self.native(list, r)
        return r

    def isinstance(self, v: t.Any, c: t.Any) -> bool:
        if isinstance(c, tuple):
            return any(self.isinstance(v, x) for x in c)
        if isinstance(c, Cls):
            if isinstance(v, Obj):
                return any(k.fq == c.ci.fq for k in self.repo.mro(v.ci))
            if isinstance(v, _MACHINE_OBJECTS):
                raise NotModelled("isinstance of a Machine object")
            return False
        if isinstance(c, Ext):
            target = _stdlib_attr(c.fq)
            if not isinstance(target, type):
                raise NotModelled(f"isinstance(.., {c.fq})")
            if isinstance(v, Obj):
                return any(k.fq == c.fq for k in self.repo.mro(v.ci)) or target is object
            if isinstance(v, ExcVal):
                return issubclass(v.pycls, target)
            if isinstance(v, _MACHINE_OBJECTS):
                raise NotModelled("isinstance of a Machine object")
            return isinstance(v, target)
        raise NotModelled("isinstance with a class that is not resolved")

    def instantiate(self, ci: t.Any, args: list[t.Any], kwargs: dict[str, t.Any]) -> t.Any:
        if ci.node.decorator_list:
            raise NotModelled(f"decorated class {ci.fq}")
        mro = self.repo.mro(ci)
        foreign = [k.fq for k in mro if not hasattr(k, "node") and k.fq not in ("builtins.object", "typing.Generic")]
        is_exc = any(fq in ("builtins.Exception", "builtins.BaseException") for fq in foreign)
        if foreign and not is_exc:
            raise NotModelled(f"class {ci.fq} derives from {foreign[0]}")
        if isinstance(self.class_member(ci, "__new__")[1], FuncInfo):
            raise NotModelled(f"class {ci.fq} defines __new__")
        obj = Obj(ci)
        _, init = self.class_member(ci, "__init__")
        if isinstance(init, FuncInfo):
            self.call_fn(init, [obj] + args, kwargs)
        elif is_exc:
            obj.attrs["args"] = tuple(args)
        elif args or kwargs:
            self.raise_(TypeError, f"{ci.name}() takes no arguments")
        return obj

    def bind(self, node: t.Any, args: list[t.Any], kwargs: dict[str, t.Any], fr: Frame, def_frame: Frame, name: str) -> None:
        a = node.args
        pos = a.posonlyargs + a.args
        env = fr.env
        if len(args) > len(pos) and not a.vararg:
            self.raise_(TypeError, f"{name}() takes {len(pos)} positional arguments but {len(args)} were given")
        for p, v in zip(pos, args):
            env[p.arg] = v
        if a.vararg:
            env[a.vararg.arg] = tuple(args[len(pos) :])
        named = {p.arg for p in a.args + a.kwonlyargs}
        extra: dict[str, t.Any] = {}
        for k, v in kwargs.items():
            if k in named:
                if k in env:
                    self.raise_(TypeError, f"{name}() got multiple values for argument {k!r}")
                env[k] = v
            elif a.kwarg:
                extra[k] = v
            else:
                self.raise_(TypeError, f"{name}() got an unexpected keyword argument {k!r}")
        if a.kwarg:
            env[a.kwarg.arg] = extra
        for p, d in zip(pos[len(pos) - len(a.defaults) :], a.defaults):
            if p.arg not in env:
                env[p.arg] = self.ev(d, def_frame)
        for p, d in zip(a.kwonlyargs, a.kw_defaults):
            if p.arg not in env and d is not None:
                env[p.arg] = self.ev(d, def_frame)
        for p in pos + a.kwonlyargs:
            if p.arg not in env:
                self.raise_(TypeError, f"{name}() missing a required argument: {p.arg!r}")

    def enter(self) -> None:
        self.depth += 1
        if self.depth > 60:
            self.depth -= 1
            raise NotModelled("evaluation nests too deeply")

    def call_fn(self, fi: FuncInfo, args: list[t.Any], kwargs: dict[str, t.Any]) -> t.Any:
        node = fi.node
        if id(node) not in self._plain:
            if isinstance(node, ast.AsyncFunctionDef) or any(isinstance(n, ast.Await) for n in walk_no_nested_ast(node)):
                raise NotModelled(f"{fi.fq} is a coroutine")
            other = [d for d in fi.decorators if not d.endswith(("staticmethod", "classmethod", "property", "cached_property", ".setter"))]
            if other:
                raise NotModelled(f"{fi.fq} is decorated with {other[0]}")
            self._plain[id(node)] = any(isinstance(n, (ast.Yield, ast.YieldFrom)) for n in walk_no_nested_ast(node))
        fr = Frame(fi.module, self.limports_of(fi), None, fi)
        self.bind(node, args, kwargs, fr, Frame(fi.module, {}), fi.name)
        if self._plain[id(node)]:
            return self.make_generator(node, fr, fi.fq)
        self.enter()
        try:
            self.block(node.body, fr)  # type: ignore[attr-defined]
        except _Ret as r:
            return r.v
        finally:
            self.depth -= 1
        return None

    def call_closure(self, c: Closure, args: list[t.Any], kwargs: dict[str, t.Any]) -> t.Any:
        node = c.node
        if id(node) not in self._plain:
            if isinstance(node, ast.AsyncFunctionDef) or any(isinstance(n, ast.Await) for n in walk_no_nested_ast(node)):
                raise NotModelled("nested coroutine")
            self._plain[id(node)] = not isinstance(node, ast.Lambda) and any(isinstance(n, (ast.Yield, ast.YieldFrom)) for n in walk_no_nested_ast(node))
        fr = Frame(c.frame.module, c.frame.limports, c.frame, c.frame.fi)
        self.bind(node, args, kwargs, fr, c.frame, getattr(node, "name", "<lambda>"))
        if self._plain[id(node)]:
            return self.make_generator(node, fr, getattr(node, "name", "<nested>"))
        self.enter()
        try:
            if isinstance(node, ast.Lambda):
                return self.ev(node.body, fr)
            self.block(node.body, fr)  # type: ignore[attr-defined]
        except _Ret as r:
            return r.v
        finally:
            self.depth -= 1
        return None

    def make_generator(self, node: t.Any, fr: Frame, what: str) -> GenVal:
        """calling a generator function evaluates nothing of its body: the body runs as the object is iterated."""
        fr.env["<gen>"] = None

        def body() -> None:
            self.block(node.body, fr)

        g = GenVal(self, body, what)
        fr.env["<gen>"] = g
        return g

    def x_Yield(self, e: ast.Yield, fr: Frame) -> t.Any:  # noqa: N802
        f = fr.find("<gen>")
        g = f.env["<gen>"] if f is not None else None
        if not isinstance(g, GenVal) or g is not self._cur_gen:
            raise NotModelled("yield outside the generator body being evaluated")
        g.suspend(self.ev(e.value, fr) if e.value is not None else None)
        return None  # plain iteration sends None

    def x_YieldFrom(self, e: ast.YieldFrom, fr: Frame) -> t.Any:  # noqa: N802
        f = fr.find("<gen>")
        g = f.env["<gen>"] if f is not None else None
        if not isinstance(g, GenVal) or g is not self._cur_gen:
            raise NotModelled("yield from outside the generator body being evaluated")
        src = self.ev(e.value, fr)
        it = self.iterate(src)
        for v in it:
            self.tick()
            g.suspend(v)
        return src.retval if isinstance(src, GenVal) else None

    # -- conversions ------------------------------------------------------
    def truth(self, v: t.Any) -> bool:
        if isinstance(v, Obj):
            for nm in ("__bool__", "__len__"):
                _, what = self.class_member(v.ci, nm)
                if isinstance(what, FuncInfo):
                    return bool(self.call_fn(what, [v], {}))
                if what == "builtin":
                    raise NotModelled(f"truth of a {v.ci.fq}")
            return True
        if isinstance(v, (Fn, Cls, ModRef, Ext, Native, Closure, ExcVal, RegexConst, GenVal)):
            return True
        return bool(v)

    def to_str(self, v: t.Any) -> str:
        if isinstance(v, Obj):
            for nm in ("__str__", "__repr__"):
                _, what = self.class_member(v.ci, nm)
                if isinstance(what, FuncInfo):
                    return self.call_fn(what, [v], {})
            raise NotModelled(f"str() of a {v.ci.fq}")
        if isinstance(v, ExcVal):
            return str(v.args[0]) if len(v.args) == 1 else str(v.args) if v.args else ""
        if isinstance(v, _MACHINE_OBJECTS) or isinstance(v, (RegexConst, GenVal)) or _has_machine_object(v):
            raise NotModelled(f"str() of a {type(v).__name__}")
        return self.native(str, v)

    def to_repr(self, v: t.Any) -> str:
        if isinstance(v, Obj):
            _, what = self.class_member(v.ci, "__repr__")
            if isinstance(what, FuncInfo):
                return self.call_fn(what, [v], {})
            raise NotModelled(f"repr() of a {v.ci.fq}")
        if isinstance(v, _MACHINE_OBJECTS) or isinstance(v, (RegexConst, GenVal)) or _has_machine_object(v):
            raise NotModelled(f"repr() of a {type(v).__name__}")
        return repr(v)

    def iterate(self, v: t.Any) -> t.Iterable[t.Any]:
        if isinstance(v, Obj):
            _, what = self.class_member(v.ci, "__iter__")
            if isinstance(what, FuncInfo):
                return self.iterate(self.call_fn(what, [v], {}))
            raise NotModelled(f"iteration over a {v.ci.fq}")
        if isinstance(v, _MACHINE_OBJECTS) or isinstance(v, RegexConst):
            raise NotModelled(f"iteration over a {type(v).__name__}")
        if isinstance(v, GenVal):
            return v
        if isinstance(v, (dict, set)):
            return list(v)  # the body may change the container: Python would raise; a snapshot is enough here
        return self.native(iter, v)

    # -- statements -------------------------------------------------------
    def block(self, stmts: list[ast.stmt], fr: Frame) -> None:
        for s in stmts:
            self.stmt(s, fr)

    def stmt(self, s: ast.stmt, fr: Frame) -> None:
        self.tick()
        if isinstance(s, ast.Expr):
            self.ev(s.value, fr)
        elif isinstance(s, ast.Assign):
            v = self.ev(s.value, fr)
            for tg in s.targets:
                self.assign(tg, v, fr)
        elif isinstance(s, ast.AnnAssign):
            if s.value is not None:
                self.assign(s.target, self.ev(s.value, fr), fr)
        elif isinstance(s, ast.AugAssign):
            load = self._loads.get(id(s))
            if load is None:
                load = self._loads[id(s)] = _as_load(s.target)
            cur = self.ev(load, fr)
            v = self.ev(s.value, fr)
            if isinstance(cur, list) and isinstance(s.op, ast.Add):
                self.native(cur.extend, self.iterate(v))
                r: t.Any = cur
            else:
                r = self.binop(s.op, cur, v)
            self.assign(s.target, r, fr)
        elif isinstance(s, ast.Return):
            raise _Ret(self.ev(s.value, fr) if s.value is not None else None)
        elif isinstance(s, ast.Raise):
            if s.exc is None:
                cur = fr.find("<exc>")
                if cur is None:
                    self.raise_(RuntimeError, "No active exception to reraise")
                raise ProgramRaise(cur.env["<exc>"])
            v = self.ev(s.exc, fr)
            if isinstance(v, (Ext, Cls)):
                v = self.call(v, [], {})
            if not isinstance(v, (ExcVal, Obj)):
                raise NotModelled("raise of a value that is not an exception")
            raise ProgramRaise(v)
        elif isinstance(s, ast.If):
            self.block(s.body if self.truth(self.ev(s.test, fr)) else s.orelse, fr)
        elif isinstance(s, ast.For):
            broke = False
            for el in self.iterate(self.ev(s.iter, fr)):
                self.tick()
                self.assign(s.target, el, fr)
                try:
                    self.block(s.body, fr)
                except _Brk:
                    broke = True
                    break
                except _Cnt:
                    continue
            if not broke:
                self.block(s.orelse, fr)
        elif isinstance(s, ast.While):
            broke = False
            while self.truth(self.ev(s.test, fr)):
                self.tick()
                try:
                    self.block(s.body, fr)
                except _Brk:
                    broke = True
                    break
                except _Cnt:
                    continue
            if not broke:
                self.block(s.orelse, fr)
        elif isinstance(s, ast.Try):
            self.try_(s, fr)
        elif isinstance(s, ast.With):
            as_try = self._with_as_try.get(id(s), _MISSING_EXC)
            if as_try is _MISSING_EXC:
                as_try = self._with_as_try[id(s)] = _suppress_as_try(s, lambda d: self.repo.resolve(fr.module, d, fr.limports) if fr.find(d.split(".", 1)[0]) is None else None)
            if as_try is None:
                raise NotModelled("statement With (other than contextlib.suppress)")
            self.try_(as_try, fr)  # type: ignore[arg-type]
        elif isinstance(s, ast.Break):
            raise _Brk()
        elif isinstance(s, ast.Continue):
            raise _Cnt()
        elif isinstance(s, ast.Assert):
            if not self.truth(self.ev(s.test, fr)):
                self.raise_(AssertionError, *([self.ev(s.msg, fr)] if s.msg is not None else []))
        elif isinstance(s, ast.FunctionDef):
            if s.decorator_list:
                raise NotModelled(f"decorated nested function {s.name}")
            fr.env[s.name] = Closure(s, fr)
        elif isinstance(s, (ast.Pass, ast.Import, ast.ImportFrom)):
            pass
        elif isinstance(s, ast.Nonlocal):
            fr.outer_names.update(s.names)
        elif isinstance(s, ast.Delete):
            for tg in s.targets:
                if isinstance(tg, ast.Name):
                    f = fr.find(tg.id)
                    if f is None:
                        self.raise_(NameError, tg.id)
                    del f.env[tg.id]
                elif isinstance(tg, ast.Subscript):
                    base = self.ev(tg.value, fr)
                    ix = self.index(tg.slice, fr)
                    if not isinstance(base, (list, dict)):
                        raise NotModelled("del on a value that is not a list / dict")
                    self.native(base.__delitem__, ix)
                else:
                    raise NotModelled("del of an attribute")
        else:
            raise NotModelled(f"statement {type(s).__name__}")

    def try_(self, s: ast.Try, fr: Frame) -> None:
        try:
            try:
                self.block(s.body, fr)
            except ProgramRaise as r:
                for h in s.handlers:
                    if h.type is None or self.exc_matches(r.value, self.ev(h.type, fr)):
                        saved = fr.env.get("<exc>", _MISSING_EXC)
                        fr.env["<exc>"] = r.value
                        if h.name:
                            fr.env[h.name] = r.value
                        try:
                            self.block(h.body, fr)
                        finally:
                            if saved is _MISSING_EXC:
                                fr.env.pop("<exc>", None)
                            else:
                                fr.env["<exc>"] = saved
                            if h.name:
                                fr.env.pop(h.name, None)
                        break
                else:
                    raise
            else:
                self.block(s.orelse, fr)
        finally:
            if s.finalbody:
                self.block(s.finalbody, fr)

    def exc_matches(self, raised: t.Any, handler: t.Any) -> bool:
        if isinstance(handler, tuple):
            return any(self.exc_matches(raised, h) for h in handler)
        if isinstance(handler, Ext):
            target = _stdlib_attr(handler.fq)
            if not (isinstance(target, type) and issubclass(target, BaseException)):
                raise NotModelled(f"except {handler.fq}")
            if isinstance(raised, ExcVal):
                return issubclass(raised.pycls, target)
            fqs = [k.fq for k in self.repo.mro(raised.ci)]
            return handler.fq in fqs or target in (Exception, BaseException) or any(fq.startswith("builtins.") and isinstance(getattr(__import__("builtins"), fq[9:], None), type) and issubclass(getattr(__import__("builtins"), fq[9:]), target) for fq in fqs)
        if isinstance(handler, Cls):
            if isinstance(raised, ExcVal):
                return False
            return any(k.fq == handler.ci.fq for k in self.repo.mro(raised.ci))
        raise NotModelled("except clause with a class that is not resolved")

    def assign(self, tg: ast.AST, v: t.Any, fr: Frame) -> None:
        if isinstance(tg, ast.Name):
            if tg.id in fr.outer_names and fr.parent is not None:
                f = fr.parent.find(tg.id)
                if f is None:
                    raise NotModelled(f"nonlocal {tg.id} is not bound")
                f.env[tg.id] = v
            else:
                fr.env[tg.id] = v
        elif isinstance(tg, (ast.Tuple, ast.List)):
            vals = self.native(list, self.iterate(v))
            stars = [i for i, e in enumerate(tg.elts) if isinstance(e, ast.Starred)]
            if not stars:
                if len(vals) != len(tg.elts):
                    self.raise_(ValueError, f"expected {len(tg.elts)} values to unpack, got {len(vals)}")
                for e, x in zip(tg.elts, vals):
                    self.assign(e, x, fr)
            else:
                i = stars[0]
                after = len(tg.elts) - i - 1
                if len(stars) > 1 or len(vals) < len(tg.elts) - 1:
                    self.raise_(ValueError, "not enough values to unpack")
                for e, x in zip(tg.elts[:i], vals[:i]):
                    self.assign(e, x, fr)
                self.assign(tg.elts[i].value, vals[i : len(vals) - after], fr)  # type: ignore[attr-defined]
                for e, x in zip(tg.elts[i + 1 :], vals[len(vals) - after :]):
                    self.assign(e, x, fr)
        elif isinstance(tg, ast.Subscript):
            base = self.ev(tg.value, fr)
            ix = self.index(tg.slice, fr)
            if not isinstance(base, (list, dict, bytearray)):
                raise NotModelled(f"item store on a {type(base).__name__}")
            self.native(base.__setitem__, ix, v)
        elif isinstance(tg, ast.Attribute):
            self.setattr(self.ev(tg.value, fr), tg.attr, v)
        else:
            raise NotModelled(f"assignment target {type(tg).__name__}")

    # -- expressions ------------------------------------------------------
    def binop(self, op: ast.operator, a: t.Any, b: t.Any) -> t.Any:
        fn = _BIN.get(type(op))
        if fn is None:
            raise NotModelled(f"operator {type(op).__name__}")
        for x in (a, b):
            if isinstance(x, _MACHINE_OBJECTS) or isinstance(x, RegexConst):
                raise NotModelled(f"operator {type(op).__name__} on a {type(x).__name__}")
        if isinstance(op, ast.Mod) and isinstance(a, (str, bytes)) and _has_machine_object(b):
            raise NotModelled("%-formatting of an instance")
        if isinstance(op, (ast.Pow, ast.LShift, ast.Mult)) and isinstance(b, int) and not isinstance(a, (str, bytes, list, tuple)) and abs(b) > 4096:
            raise NotModelled("large arithmetic")
        if isinstance(op, ast.Mult) and ((isinstance(a, (str, bytes, list, tuple)) and isinstance(b, int) and b > 100_000) or (isinstance(b, (str, bytes, list, tuple)) and isinstance(a, int) and a > 100_000)):
            raise NotModelled("large repetition")
        return self.native(fn, a, b)

    def index(self, sl: ast.AST, fr: Frame) -> t.Any:
        if isinstance(sl, ast.Slice):
            return slice(*(self.ev(p, fr) if p is not None else None for p in (sl.lower, sl.upper, sl.step)))
        return self.ev(sl, fr)

    def compare(self, op: ast.cmpop, a: t.Any, b: t.Any) -> bool:
        if isinstance(op, (ast.Is, ast.IsNot)):
            if isinstance(a, Obj) or isinstance(b, Obj) or a is None or b is None or isinstance(a, bool) or isinstance(b, bool):
                same = a is b
            elif isinstance(a, _MACHINE_OBJECTS) or isinstance(b, _MACHINE_OBJECTS):
                same = a == b
            else:
                same = a is b or (type(a) is type(b) and isinstance(a, (int, str, bytes)) and a == b)
            return same if isinstance(op, ast.Is) else not same
        if isinstance(a, Obj) or isinstance(b, Obj):
            if isinstance(op, (ast.Eq, ast.NotEq)):
                for x, y in ((a, b), (b, a)):
                    if isinstance(x, Obj):
                        _, what = self.class_member(x.ci, "__eq__")
                        if isinstance(what, FuncInfo):
                            raise NotModelled(f"{x.ci.fq}.__eq__")
                same = a is b
                return same if isinstance(op, ast.Eq) else not same
            if isinstance(op, (ast.In, ast.NotIn)) and isinstance(b, (list, tuple, set, frozenset, dict)):
                return self.native(_CMP[type(op)], a, b)
            raise NotModelled("comparison of an instance")
        return bool(self.native(_CMP[type(op)], a, b))

    def ev(self, e: ast.AST, fr: Frame) -> t.Any:
        self.steps += 1
        if self.steps > self.max_steps:
            raise OutOfSteps()
        m = self._dispatch.get(type(e))
        if m is None:
            m = getattr(self, "x_" + type(e).__name__, None)
            if m is None:
                raise NotModelled(f"expression {type(e).__name__}")
            self._dispatch[type(e)] = m
        return m(e, fr)

    def x_Constant(self, e: ast.Constant, fr: Frame) -> t.Any:  # noqa: N802
        return e.value

    def x_Name(self, e: ast.Name, fr: Frame) -> t.Any:  # noqa: N802
        return self.load_name(e.id, fr)

    def x_Attribute(self, e: ast.Attribute, fr: Frame) -> t.Any:  # noqa: N802
        return self.getattr(self.ev(e.value, fr), e.attr)

    def x_JoinedStr(self, e: ast.JoinedStr, fr: Frame) -> t.Any:  # noqa: N802
        return "".join(self.ev(v, fr) for v in e.values)

    def x_FormattedValue(self, e: ast.FormattedValue, fr: Frame) -> t.Any:  # noqa: N802
        v = self.ev(e.value, fr)
        if e.conversion == 114:
            v = self.to_repr(v)
        elif e.conversion == 115:
            v = self.to_str(v)
        elif e.conversion == 97:
            v = ascii(self.to_repr(v))[1:-1]
        if e.format_spec is not None:
            spec = self.ev(e.format_spec, fr)
            if isinstance(v, _MACHINE_OBJECTS):
                raise NotModelled("format spec applied to an instance")
            return self.native(format, v, spec)
        return self.to_str(v)

    def x_BinOp(self, e: ast.BinOp, fr: Frame) -> t.Any:  # noqa: N802
        return self.binop(e.op, self.ev(e.left, fr), self.ev(e.right, fr))

    def x_UnaryOp(self, e: ast.UnaryOp, fr: Frame) -> t.Any:  # noqa: N802
        v = self.ev(e.operand, fr)
        if isinstance(e.op, ast.Not):
            return not self.truth(v)
        if isinstance(v, _MACHINE_OBJECTS):
            raise NotModelled("unary operator on an instance")
        if isinstance(e.op, ast.USub):
            return self.native(lambda x: -x, v)
        if isinstance(e.op, ast.UAdd):
            return self.native(lambda x: +x, v)
        return self.native(lambda x: ~x, v)

    def x_BoolOp(self, e: ast.BoolOp, fr: Frame) -> t.Any:  # noqa: N802
        is_or = isinstance(e.op, ast.Or)
        v: t.Any = None
        for x in e.values:
            v = self.ev(x, fr)
            if self.truth(v) == is_or:
                return v
        return v

    def x_Compare(self, e: ast.Compare, fr: Frame) -> t.Any:  # noqa: N802
        left = self.ev(e.left, fr)
        for op, c in zip(e.ops, e.comparators):
            right = self.ev(c, fr)
            if not self.compare(op, left, right):
                return False
            left = right
        return True

    def x_IfExp(self, e: ast.IfExp, fr: Frame) -> t.Any:  # noqa: N802
        return self.ev(e.body if self.truth(self.ev(e.test, fr)) else e.orelse, fr)

    def x_NamedExpr(self, e: ast.NamedExpr, fr: Frame) -> t.Any:  # noqa: N802
        v = self.ev(e.value, fr)
        f = fr
        while f.is_comp and f.parent is not None:
            f = f.parent
        f.env[e.target.id] = v
        return v

    def seq(self, elts: list[ast.expr], fr: Frame) -> list[t.Any]:
        out: list[t.Any] = []
        for x in elts:
            if isinstance(x, ast.Starred):
                out.extend(self.iterate(self.ev(x.value, fr)))
            else:
                out.append(self.ev(x, fr))
        return out

    def x_Tuple(self, e: ast.Tuple, fr: Frame) -> t.Any:  # noqa: N802
        return tuple(self.seq(e.elts, fr))

    def x_List(self, e: ast.List, fr: Frame) -> t.Any:  # noqa: N802
        return self.seq(e.elts, fr)

    def x_Set(self, e: ast.Set, fr: Frame) -> t.Any:  # noqa: N802
        return self.native(set, self.seq(e.elts, fr))

    def x_Dict(self, e: ast.Dict, fr: Frame) -> t.Any:  # noqa: N802
        out: dict[t.Any, t.Any] = {}
        for k, v in zip(e.keys, e.values):
            if k is None:
                d = self.ev(v, fr)
                if not isinstance(d, dict):
                    raise NotModelled("** of a value that is not a dict")
                out.update(d)
            else:
                kk = self.ev(k, fr)
                self.native(out.__setitem__, kk, self.ev(v, fr))
        return out

    def comp(self, gens: list[ast.comprehension], fr: Frame, emit: t.Callable[[Frame], None]) -> None:
        cf = Frame(fr.module, fr.limports, fr, fr.fi, True)

        def rec(i: int) -> None:
            if i == len(gens):
                emit(cf)
                return
            g = gens[i]
            if g.is_async:
                raise NotModelled("async comprehension")
            for el in self.iterate(self.ev(g.iter, cf)):
                self.tick()
                self.assign(g.target, el, cf)
                if all(self.truth(self.ev(c, cf)) for c in g.ifs):
                    rec(i + 1)

        rec(0)

    def x_ListComp(self, e: ast.ListComp, fr: Frame) -> t.Any:  # noqa: N802
        out: list[t.Any] = []
        self.comp(e.generators, fr, lambda cf: out.append(self.ev(e.elt, cf)))
        return out

    x_GeneratorExp = x_ListComp  # noqa: N815  (evaluated eagerly: the fragment has no side effects that could tell)

    def x_SetComp(self, e: ast.SetComp, fr: Frame) -> t.Any:  # noqa: N802
        out: list[t.Any] = []
        self.comp(e.generators, fr, lambda cf: out.append(self.ev(e.elt, cf)))
        return self.native(set, out)

    def x_DictComp(self, e: ast.DictComp, fr: Frame) -> t.Any:  # noqa: N802
        out: dict[t.Any, t.Any] = {}

        def emit(cf: Frame) -> None:
            k = self.ev(e.key, cf)
            self.native(out.__setitem__, k, self.ev(e.value, cf))

        self.comp(e.generators, fr, emit)
        return out

    def x_Subscript(self, e: ast.Subscript, fr: Frame) -> t.Any:  # noqa: N802
        base = self.ev(e.value, fr)
        ix = self.index(e.slice, fr)
        if isinstance(base, Obj):
            _, what = self.class_member(base.ci, "__getitem__")
            if isinstance(what, FuncInfo):
                return self.call_fn(what, [base, ix], {})
            raise NotModelled(f"subscript of a {base.ci.fq}")
        if isinstance(base, _MACHINE_OBJECTS) or isinstance(base, RegexConst):
            raise NotModelled(f"subscript of a {type(base).__name__}")
        return self.native(lambda b, i: b[i], base, ix)

    def x_Lambda(self, e: ast.Lambda, fr: Frame) -> t.Any:  # noqa: N802
        return Closure(e, fr)

    def x_Call(self, e: ast.Call, fr: Frame) -> t.Any:  # noqa: N802
        if isinstance(e.func, ast.Name) and e.func.id == "super" and not e.args and fr.find("super") is None:
            f: Frame | None = fr
            while f is not None and f.is_comp:
                f = f.parent
            fi = f.fi if f is not None else None
            if fi is None or fi.cls is None or not fi.params:
                raise NotModelled("super() outside a method")
            owner = f.find(fi.params[0])  # type: ignore[union-attr]
            if owner is None:
                raise NotModelled("super() without a receiver")
            return SuperRef(owner.env[fi.params[0]], fi.cls.fq)
        fv = self.ev(e.func, fr)
        args = self.seq(e.args, fr)
        kwargs: dict[str, t.Any] = {}
        for k in e.keywords:
            v = self.ev(k.value, fr)
            if k.arg is None:
                if not isinstance(v, dict):
                    raise NotModelled("** of a value that is not a dict")
                kwargs.update(v)
            else:
                kwargs[k.arg] = v
        return self.call(fv, args, kwargs)


_MISSING_EXC = object()


def _has_machine_object(v: t.Any, depth: int = 0) -> bool:
    if isinstance(v, _MACHINE_OBJECTS) or isinstance(v, GenVal):
        return True
    if depth > 6:
        return False
    if isinstance(v, (list, tuple, set, frozenset)):
        return any(_has_machine_object(x, depth + 1) for x in v)
    if isinstance(v, dict):
        return any(_has_machine_object(x, depth + 1) for x in v.values())
    return False


def snapshot(v: t.Any, depth: int = 0) -> t.Any:
    """plain, comparable picture of a Machine value: instances become (class, {attribute: value})."""
    if depth > 12:
        raise NotModelled("value nests too deeply")
    if isinstance(v, Obj):
        return ("<instance>", v.ci.fq, tuple(sorted((k, snapshot(x, depth + 1)) for k, x in v.attrs.items())))
    if isinstance(v, ExcVal):
        return ("<exception>", v.kind)
    if isinstance(v, (Fn, Cls, ModRef, Ext, Native, Closure, SuperRef)):
        return ("<object>", type(v).__name__)
    if isinstance(v, GenVal):
        raise NotModelled(f"a generator object ({v.what}) is part of the compared value")
    if isinstance(v, list):
        return [snapshot(x, depth + 1) for x in v]
    if isinstance(v, tuple):
        return tuple(snapshot(x, depth + 1) for x in v)
    if isinstance(v, dict):
        return {k: snapshot(x, depth + 1) for k, x in v.items()}
    return v
