"""C06 helpers: symbolic summaries of the header serialisers / parsers and their bounded evaluation.

The rules of C06 compare what a *writer* emits with what its *parser* reads.  Neither side may be recognised by the way
it is spelled (f-string vs. concatenation, loop vs. comprehension, helper extracted or inlined, test flipped, value
through a local ...).  So every function of interest is first turned into a **summary**: a structured symbolic execution
of its body (no werkzeug code is imported or run - the executor walks the AST) that yields, per path, the path
condition and the returned value as a *term* over the parameters:

    ("c", type, value)                  constant
    ("p", name)                         parameter
    ("g", fq)                           module-level object (function, class, constant), fully qualified
    ("v", text)                         opaque value
    ("attr", base, name)                attribute
    ("cat", parts)                      string concatenation / f-string / str(x)   (``("cat", (x,))`` is ``str(x)``)
    ("bin", op, a, b)                   arithmetic; ``x - 1`` is normalised to ``("bin", "+", x, c(-1))``
    ("cmp", op, a, b) ("not", a) ("and", parts) ("or", parts)
    ("idx", base, i) ("slice", base, lo, hi, step) ("tuple", items)
    ("call", func, args, kwargs) ("meth", name, recv, args, kwargs)      kwargs = (("kw", name, term), ...)
    ("join", sep, coll)
    ("it", coll)                        the generic element of an iteration over coll
    ("coll", cid)                       a collection built by a loop / comprehension / literal (interned): its possible
                                        items `coll_items(t)` = {(conds, item)}, each under the conditions (relative to
                                        the loop) it is added with
    ("kv", key, value)                  item of a dict collection
    ("alt", frozenset(values))          loop-carried value: one of several

``if`` / conditional expressions / ``a or b`` fork the state; private helpers of the same module or class are inlined
(their summary is substituted), so "operation in a helper" and "operation inline" give the same terms.  Loops are
abstracted: the body is run for the generic element, twice (the second time with the loop-carried values of the first),
and what it appends to collections is recorded per item with the item's own condition.

Summaries are then used in two ways: **pattern rules** look at the terms (which constants does the template contain,
which call wraps the value, what offset is applied to the stop) and **bounded evaluation** (`Conc`) evaluates a summary
of a small pure string function - or of the per-element part of a parser loop - on an exhaustive set of short sample
strings over the alphabet that matters, with the semantics of the builtin ``str`` methods and of ``re`` applied to
constants folded from the source.
"""

from __future__ import annotations

import ast
import itertools
import re
import typing as t

from ..fold import Folder, RegexConst, Unfoldable
from ..loader import AnalysisError, FuncInfo, Repo, dotted, norm
from ..loader import walk_no_nested as walk_no_nested_ast

Term = tuple
Cond = tuple  # (atom, truth)


# ---------------------------------------------------------------------------------------------------------------
# terms


def C(v: t.Any) -> Term:
    return ("c", type(v).__name__, v)


NONE = C(None)
TRUE = C(True)
FALSE = C(False)


# collections are interned: ("coll", cid) refers to _COLLS[cid], a frozenset of (conds, item).  Terms stay small even when
# a collection is mentioned many times (each(parts) in every item of a second loop).
_COLLS: list[frozenset] = []
_COLL_IDS: dict[frozenset, int] = {}


def intern_coll(items: frozenset) -> Term:
    cid = _COLL_IDS.get(items)
    if cid is None:
        cid = len(_COLLS)
        _COLLS.append(items)
        _COLL_IDS[items] = cid
    return ("coll", cid)


def coll_items(t_: Term) -> frozenset | None:
    if isinstance(t_, tuple) and len(t_) == 2 and t_[0] == "coll":
        return _COLLS[t_[1]]
    return None


def is_c(t_: t.Any) -> bool:
    return isinstance(t_, tuple) and len(t_) == 3 and t_[0] == "c"


def is_cstr(t_: t.Any) -> bool:
    return is_c(t_) and isinstance(t_[2], str)


def cv(t_: Term) -> t.Any:
    return t_[2]


def is_stringy(t_: Term) -> bool:
    return is_cstr(t_) or (isinstance(t_, tuple) and t_ and t_[0] in ("cat", "join"))


def cat(parts: t.Iterable[Term]) -> Term:
    flat: list[Term] = []
    for p in parts:
        if isinstance(p, tuple) and p and p[0] == "cat":
            flat.extend(p[1])
        else:
            flat.append(p)
    out: list[Term] = []
    for p in flat:
        if is_cstr(p) and out and is_cstr(out[-1]):
            out[-1] = C(cv(out[-1]) + cv(p))
        else:
            out.append(p)
    out = [p for p in out if not (is_cstr(p) and cv(p) == "")]
    if not out:
        return C("")
    if len(out) == 1 and is_cstr(out[0]):
        return out[0]
    return ("cat", tuple(out))


def strof(x: Term) -> Term:
    if is_cstr(x) or (isinstance(x, tuple) and x and x[0] == "cat"):
        return x
    if is_c(x):
        return C(str(cv(x)))
    return ("cat", (x,))


def add_int(x: Term, k: int) -> Term:
    if is_c(x) and isinstance(cv(x), int) and not isinstance(cv(x), bool):
        return C(cv(x) + k)
    if isinstance(x, tuple) and x and x[0] == "bin" and x[1] == "+" and is_c(x[3]) and isinstance(cv(x[3]), int):
        k2 = cv(x[3]) + k
        return x[2] if k2 == 0 else ("bin", "+", x[2], C(k2))
    if k == 0:
        return x
    return ("bin", "+", x, C(k))


def walk(t_: t.Any) -> t.Iterator[Term]:
    """all sub-terms (pre-order), descending into tuples and frozensets."""
    stack = [t_]
    while stack:
        x = stack.pop()
        if isinstance(x, tuple):
            if x and isinstance(x[0], str):
                yield x
                if x[0] == "c":
                    continue
            stack.extend(x)
        elif isinstance(x, frozenset):
            stack.extend(x)


def walk_deep(t_: t.Any) -> t.Iterator[Term]:
    """like walk, but also enters the items (and item conditions) of interned collections, once each."""
    seen: set[int] = set()
    stack = [t_]
    while stack:
        x = stack.pop()
        if isinstance(x, tuple):
            if x and isinstance(x[0], str):
                yield x
                if x[0] == "c":
                    continue
                if x[0] == "coll" and len(x) == 2:
                    if x[1] not in seen:
                        seen.add(x[1])
                        stack.append(_COLLS[x[1]])
                    continue
            stack.extend(x)
        elif isinstance(x, frozenset):
            stack.extend(x)


def size(t_: t.Any) -> int:
    n = 0
    stack = [t_]
    while stack:
        x = stack.pop()
        n += 1
        if isinstance(x, (tuple, frozenset)) and not is_c(x):
            stack.extend(x)
    return n


def subst(t_: t.Any, m: dict[str, Term]) -> t.Any:
    if isinstance(t_, tuple):
        if is_c(t_):
            return t_
        if len(t_) == 2 and t_[0] == "p" and isinstance(t_[1], str):
            return m.get(t_[1], t_)
        if t_ and t_[0] == "cat":
            return cat([subst(p, m) for p in t_[1]])
        if t_ and t_[0] == "bin" and t_[1] == "+" and is_c(t_[3]) and isinstance(cv(t_[3]), int):
            return add_int(subst(t_[2], m), cv(t_[3]))
        if len(t_) == 2 and t_[0] == "coll":
            return intern_coll(subst(_COLLS[t_[1]], m))
        return tuple(subst(x, m) for x in t_)
    if isinstance(t_, frozenset):
        return frozenset(subst(x, m) for x in t_)
    return t_


def show(t_: t.Any, depth: int = 0) -> str:
    """compact rendering for facts."""
    if not isinstance(t_, tuple) or not t_:
        if isinstance(t_, frozenset):
            return "{" + ", ".join(sorted(show(x, depth + 1) for x in t_)) + "}"
        return repr(t_)
    k = t_[0]
    if k == "c":
        return repr(t_[2])
    if k == "p":
        return t_[1]
    if k == "g":
        return t_[1].rsplit(".", 1)[-1]
    if k == "v":
        return f"<{t_[1]}>"
    if k == "attr":
        return f"{show(t_[1])}.{t_[2]}"
    if k == "cat":
        return "f'" + "".join(cv(p) if is_cstr(p) else "{" + show(p) + "}" for p in t_[1]) + "'"
    if k == "bin":
        if t_[1] == "+" and is_c(t_[3]) and isinstance(cv(t_[3]), int) and cv(t_[3]) < 0:
            return f"{show(t_[2])} - {-cv(t_[3])}"
        return f"{show(t_[2])} {t_[1]} {show(t_[3])}"
    if k == "cmp":
        return f"{show(t_[2])} {t_[1]} {show(t_[3])}"
    if k == "not":
        return f"not {show(t_[1])}"
    if k in ("and", "or"):
        return "(" + f" {k} ".join(show(x) for x in t_[1]) + ")"
    if k == "idx":
        return f"{show(t_[1])}[{show(t_[2])}]"
    if k == "slice":
        return f"{show(t_[1])}[{'' if t_[2] == NONE else show(t_[2])}:{'' if t_[3] == NONE else show(t_[3])}]"
    if k == "tuple":
        return "(" + ", ".join(show(x) for x in t_[1]) + ")"
    if k == "call":
        return f"{show(t_[1])}(" + ", ".join([show(a) for a in t_[2]] + [f"{kw[1]}={show(kw[2])}" for kw in t_[3]]) + ")"
    if k == "meth":
        return f"{show(t_[2])}.{t_[1]}(" + ", ".join([show(a) for a in t_[3]] + [f"{kw[1]}={show(kw[2])}" for kw in t_[4]]) + ")"
    if k == "join":
        return f"{show(t_[1])}.join({show(t_[2])})"
    if k == "it":
        return f"each({show(t_[1], depth + 2)})"
    if k == "coll":
        if depth > 3:
            return "[..]"
        return "[" + " | ".join(sorted(show(i, depth + 1) for _, i in _COLLS[t_[1]])) + "]"
    if k == "kv":
        return f"{show(t_[1])}: {show(t_[2])}"
    if k == "alt":
        return "one-of{" + ", ".join(sorted(show(x) for x in t_[1])) + "}"
    return repr(t_)


def show_conds(conds: t.Iterable[Cond]) -> str:
    return " and ".join((("" if tr else "not ") + show(a)) for a, tr in conds) or "always"


# ---------------------------------------------------------------------------------------------------------------
# condition atoms

_SWAP = {">": "<", ">=": "<="}


def atomize(t_: Term) -> tuple[Term, bool]:
    """(atom, polarity): the term is true iff atom's truth == polarity."""
    if isinstance(t_, tuple) and t_:
        if t_[0] == "not":
            a, p = atomize(t_[1])
            return a, not p
        if t_[0] == "cmp":
            op, a, b = t_[1], t_[2], t_[3]
            if op == "!=":
                x, y = sorted([a, b], key=repr)
                return ("cmp", "==", x, y), False
            if op == "==":
                x, y = sorted([a, b], key=repr)
                return ("cmp", "==", x, y), True
            if op == "is not":
                return ("cmp", "is", a, b), False
            if op == "not in":
                return ("cmp", "in", a, b), False
            if op in _SWAP:
                return ("cmp", _SWAP[op], b, a), True
    return t_, True


_NOT_NONE_KINDS = {"cat", "tuple", "coll", "ref", "bin", "join", "cmp", "not", "kv"}


def static_truth(a: Term) -> bool | None:
    if not isinstance(a, tuple) or not a:
        return None
    k = a[0]
    if k == "c":
        return bool(a[2])
    if k == "cat":
        if any(is_cstr(p) and cv(p) for p in a[1]):
            return True
        return None
    if k == "tuple":
        return bool(a[1])
    if k == "cmp":
        op, x, y = a[1], a[2], a[3]
        if is_c(x) and is_c(y):
            try:
                if op == "is":
                    return x == y if (cv(x) is None or cv(y) is None or isinstance(cv(x), bool)) else None
                if op == "==":
                    return cv(x) == cv(y)
                if op == "in":
                    return cv(x) in cv(y)
                if op == "<":
                    return cv(x) < cv(y)
                if op == "<=":
                    return cv(x) <= cv(y)
            except TypeError:
                return None
        if op == "is":
            for u, w in ((x, y), (y, x)):
                if u == NONE and isinstance(w, tuple) and w and (w[0] in _NOT_NONE_KINDS or (is_c(w) and cv(w) is not None)):
                    return False
        if op == "==" and x == y:
            return True
    return None


# ---------------------------------------------------------------------------------------------------------------
# symbolic execution


class State:
    __slots__ = ("env", "conds", "heap", "flow", "loop_base")

    def __init__(self, env: dict[str, Term], conds: tuple[Cond, ...] = (), heap: dict[int, frozenset] | None = None, flow: str | None = None, loop_base: int | None = None):
        self.env = env
        self.conds = conds
        self.heap = heap if heap is not None else {}
        self.flow = flow
        self.loop_base = loop_base

    def set(self, name: str, v: Term) -> "State":
        env = dict(self.env)
        env[name] = v
        return State(env, self.conds, self.heap, self.flow, self.loop_base)

    def cond(self, term: Term, truth: bool) -> "State":
        a, p = atomize(term)
        c = (a, truth == p)
        if c in self.conds:
            return self
        return State(self.env, self.conds + (c,), self.heap, self.flow, self.loop_base)

    def with_flow(self, flow: str | None) -> "State":
        return State(self.env, self.conds, self.heap, flow, self.loop_base)

    def heap_set(self, oid: int, items: frozenset) -> "State":
        heap = dict(self.heap)
        heap[oid] = items
        return State(self.env, self.conds, heap, self.flow, self.loop_base)

    def local_conds(self) -> tuple[Cond, ...]:
        return self.conds[self.loop_base :] if self.loop_base is not None else ()

    def heap_add(self, oid: int, item: Term) -> "State":
        return self.heap_set(oid, self.heap.get(oid, frozenset()) | {(self.local_conds(), item)})


class Outcome(t.NamedTuple):
    kind: str  # "return" | "raise"
    conds: tuple[Cond, ...]
    term: Term
    node: ast.AST | None


class Summary:
    def __init__(self, fi: FuncInfo, params: list[str], defaults: dict[str, Term], outcomes: list[Outcome]):
        self.fi = fi
        self.params = params
        self.defaults = defaults
        self.outcomes = outcomes
        self._deep: list[Term] | None = None

    @property
    def returns(self) -> list[Outcome]:
        return [o for o in self.outcomes if o.kind == "return"]

    def terms_deep(self) -> list[Term]:
        """every sub-term of every outcome (value and path condition), collections entered once."""
        if self._deep is None:
            self._deep = list(walk_deep(tuple((o.term, o.conds) for o in self.outcomes)))
        return self._deep


MAX_STATES = 6000
MAX_TERM = 1500

_STR_BUILTINS = {"builtins.str"}
_LISTY_BUILTINS = {"builtins.list", "builtins.tuple", "builtins.sorted", "builtins.iter", "builtins.set", "builtins.frozenset"}


class Summaries:
    """cache of function summaries for one repo."""

    def __init__(self, repo: Repo, folder: Folder | None = None):
        self.repo = repo
        self.folder = folder or Folder(repo)
        self._memo: dict[str, Summary] = {}
        self._busy: list[str] = []
        self._oid = itertools.count(1)

    def of(self, fi: FuncInfo) -> Summary:
        s = self._memo.get(fi.fq)
        if s is None:
            if fi.fq in self._busy:
                raise AnalysisError(f"recursive helper {fi.fq}")
            self._busy.append(fi.fq)
            try:
                s = _Exec(self, fi).run()
            finally:
                self._busy.pop()
            self._memo[fi.fq] = s
        return s

    def func_by_fq(self, fq: str) -> FuncInfo | None:
        if not fq.startswith("werkzeug."):
            return None
        return self.repo.try_func(fq)


def _locals_of(fn: ast.AST) -> set[str]:
    out: set[str] = set()
    stack = list(ast.iter_child_nodes(fn))
    while stack:
        n = stack.pop()
        if isinstance(n, (ast.FunctionDef, ast.AsyncFunctionDef, ast.ClassDef)):
            out.add(n.name)
            continue
        if isinstance(n, ast.Lambda):
            continue
        if isinstance(n, ast.Name) and isinstance(n.ctx, (ast.Store, ast.Del)):
            out.add(n.id)
        if isinstance(n, ast.ExceptHandler) and n.name:
            out.add(n.name)
        if isinstance(n, (ast.Import, ast.ImportFrom)):
            for a in n.names:
                pass  # local imports are resolved through local_imports
        stack.extend(ast.iter_child_nodes(n))
    return out


class _Exec:
    def __init__(self, sums: Summaries, fi: FuncInfo):
        self.sums = sums
        self.repo = sums.repo
        self.fi = fi
        self.fn = fi.node
        self.module = fi.module
        self.local_imports = fi.module.local_imports(fi.node)
        a = self.fn.args  # type: ignore[attr-defined]
        self.params = [x.arg for x in a.posonlyargs + a.args + a.kwonlyargs]
        self.vararg = a.vararg.arg if a.vararg else None
        self.kwarg = a.kwarg.arg if a.kwarg else None
        self.locals = _locals_of(self.fn) | set(self.params) | ({self.vararg} if self.vararg else set()) | ({self.kwarg} if self.kwarg else set())
        self.outcomes: list[Outcome] = []
        self.handlers: list[list[str]] = []  # handler types of the try bodies being executed (innermost last)
        self._seen_out: set[tuple] = set()
        self.n_states = 0
        decs = fi.decorators
        self.is_static = any(d.endswith("staticmethod") for d in decs)
        self.self_name = self.params[0] if (fi.cls is not None and self.params and not self.is_static) else None

    # -- driver -----------------------------------------------------------
    def run(self) -> Summary:
        env: dict[str, Term] = {p: ("p", p) for p in self.params}
        if self.vararg:
            env[self.vararg] = ("p", self.vararg)
        if self.kwarg:
            env[self.kwarg] = ("p", self.kwarg)
        for n in walk_no_nested_ast(self.fn):
            if isinstance(n, (ast.Yield, ast.YieldFrom, ast.Await)):
                raise AnalysisError(f"{self.fi.fq}: generator / coroutine bodies are not modelled")
        ends = self.block(self.fn.body, [State(env)])  # type: ignore[attr-defined]
        for st in ends:
            if st.flow is None:
                self.record("return", st, NONE, None)
        a = self.fn.args  # type: ignore[attr-defined]
        defaults: dict[str, Term] = {}
        pos = a.posonlyargs + a.args
        for arg, d in zip(pos[len(pos) - len(a.defaults) :], a.defaults):
            defaults[arg.arg] = self.const_default(d)
        for arg, d in zip(a.kwonlyargs, a.kw_defaults):
            if d is not None:
                defaults[arg.arg] = self.const_default(d)
        return Summary(self.fi, self.params, defaults, self.outcomes)

    def const_default(self, d: ast.AST) -> Term:
        r = self.ev(d, State({}))
        return r[0][1] if len(r) == 1 else ("v", norm(d))

    def record(self, kind: str, st: State, term: Term, node: ast.AST | None) -> None:
        if kind == "raise" and any(_exc_matches(h, _exc_name(term)) for hs in self.handlers for h in hs):
            return  # caught by an enclosing handler, whose body is explored from the state at the `try`
        memo: dict = {}
        term = self.deref(term, st.heap, (), memo)
        conds = tuple((self.deref(a, st.heap, (), memo), tr) for a, tr in st.conds)
        key = (kind, conds, term)
        if key in self._seen_out:
            return
        self._seen_out.add(key)
        self.outcomes.append(Outcome(kind, conds, term, node))

    def deref(self, t_: t.Any, heap: dict[int, frozenset], seen: tuple[int, ...] = (), memo: dict | None = None) -> t.Any:
        """close a term over the heap: every ("ref", oid) becomes an interned ("coll", cid)."""
        if memo is None:
            memo = {}
        if isinstance(t_, tuple):
            if is_c(t_):
                return t_
            k = (id(t_), seen)
            if k in memo:
                return memo[k][1]
            if len(t_) == 2 and t_[0] == "ref":
                oid = t_[1]
                if oid in seen:
                    r: t.Any = ("v", "cyclic")
                else:
                    items = heap.get(oid, frozenset())
                    s2 = seen + (oid,)
                    r = intern_coll(frozenset((tuple((self.deref(a, heap, s2, memo), tr) for a, tr in cs), self.deref(i, heap, s2, memo)) for cs, i in items))
            else:
                r = tuple(self.deref(x, heap, seen, memo) for x in t_)
            memo[k] = (t_, r)
            return r
        if isinstance(t_, frozenset):
            return frozenset(self.deref(x, heap, seen, memo) for x in t_)
        return t_

    def items_of(self, v: Term, st: State) -> frozenset | None:
        if v[0] == "ref":
            return st.heap.get(v[1], frozenset())
        return coll_items(v)

    def tick(self, n: int = 1) -> None:
        self.n_states += n
        if self.n_states > MAX_STATES:
            raise AnalysisError(f"symbolic execution of {self.fi.fq}: too many paths")

    # -- statements -------------------------------------------------------
    def block(self, stmts: list[ast.stmt], states: list[State]) -> list[State]:
        cur = states
        for s in stmts:
            live = [x for x in cur if x.flow is None]
            dead = [x for x in cur if x.flow is not None]
            if not live:
                return dead
            self.tick(len(live))
            nxt: list[State] = []
            for x in live:
                nxt.extend(self.stmt(s, x))
            cur = dead + nxt
        return cur

    def stmt(self, s: ast.stmt, st: State) -> list[State]:
        if isinstance(s, ast.Expr):
            return [x for x, _ in self.ev(s.value, st)]
        if isinstance(s, ast.Assign):
            out = []
            for x, v in self.ev(s.value, st):
                for tg in s.targets:
                    x = self.assign(tg, v, x)
                out.append(x)
            return out
        if isinstance(s, ast.AnnAssign):
            if s.value is None:
                return [st]
            return [self.assign(s.target, v, x) for x, v in self.ev(s.value, st)]
        if isinstance(s, ast.AugAssign):
            out = []
            load = ast.copy_location(_as_load(s.target), s.target)
            for x, cur in self.ev(load, st):
                for y, v in self.ev(s.value, x):
                    if isinstance(s.op, ast.Add) and cur[0] == "ref":
                        out.append(self.extend(y, cur, v))
                    else:
                        out.append(self.assign(s.target, self.binop(s.op, cur, v, y)[1], y))
            return out
        if isinstance(s, ast.Return):
            if s.value is None:
                self.record("return", st, NONE, s)
            else:
                for x, v in self.ev(s.value, st):
                    self.record("return", x, v, s)
            return []
        if isinstance(s, ast.Raise):
            if s.exc is None:
                self.record("raise", st, ("v", "reraise"), s)
            else:
                for x, v in self.ev(s.exc, st):
                    self.record("raise", x, v, s)
            return []
        if isinstance(s, ast.If):
            ts, fs = self.branch(s.test, st)
            return self.block(s.body, ts) + self.block(s.orelse, fs)
        if isinstance(s, (ast.For, ast.AsyncFor)):
            return self.loop(st, s.body, s.orelse, for_node=s)
        if isinstance(s, ast.While):
            return self.loop(st, s.body, s.orelse, test=s.test)
        if isinstance(s, ast.Try) or s.__class__.__name__ == "TryStar":
            return self.try_(s, st)  # type: ignore[arg-type]
        if isinstance(s, (ast.With, ast.AsyncWith)):
            x = st
            for it in s.items:
                r = self.ev(it.context_expr, x)
                x, v = r[0]
                if it.optional_vars is not None:
                    x = self.assign(it.optional_vars, ("v", f"with:{norm(it.context_expr)}"), x)
            return self.block(s.body, [x])
        if isinstance(s, ast.Break):
            return [st.with_flow("break")]
        if isinstance(s, ast.Continue):
            return [st.with_flow("continue")]
        if isinstance(s, ast.Assert):
            ts, _ = self.branch(s.test, st)
            return ts
        if isinstance(s, (ast.FunctionDef, ast.AsyncFunctionDef, ast.ClassDef)):
            return [st.set(s.name, ("v", f"def:{s.name}"))]
        if isinstance(s, (ast.Pass, ast.Import, ast.ImportFrom, ast.Global, ast.Nonlocal, ast.Delete)):
            return [st]
        raise AnalysisError(f"{self.fi.fq}: statement {type(s).__name__} is not modelled")

    def assign(self, tg: ast.AST, v: Term, st: State) -> State:
        if isinstance(tg, ast.Name):
            return st.set(tg.id, v)
        if isinstance(tg, (ast.Tuple, ast.List)):
            for i, e in enumerate(tg.elts):
                if isinstance(e, ast.Starred):
                    st = self.assign(e.value, ("v", f"star:{show(v)}"), st)
                    continue
                if v[0] == "tuple" and len(v[1]) == len(tg.elts):
                    st = self.assign(e, v[1][i], st)
                else:
                    st = self.assign(e, ("idx", v, C(i)), st)
            return st
        if isinstance(tg, ast.Subscript):
            r = self.ev(tg.value, st)
            st, base = r[0]
            r = self.ev_index(tg.slice, st)
            st, key = r[0]
            if base[0] == "ref":
                return st.heap_add(base[1], ("kv", key, v))
            return st
        return st  # attribute store etc.: not tracked

    def extend(self, st: State, ref: Term, v: Term) -> State:
        """ref.extend(v) / ref += v"""
        items = self.items_of(v, st)
        if items is not None:
            lc = st.local_conds()
            return st.heap_set(ref[1], st.heap.get(ref[1], frozenset()) | frozenset((lc + cs, i) for cs, i in items))
        return st.heap_add(ref[1], ("it", v))

    def loop(self, st: State, body: list[ast.stmt], orelse: list[ast.stmt], for_node: ast.For | None = None, test: ast.AST | None = None) -> list[State]:
        pre_conds = st.conds
        outer = st.loop_base
        base = len(pre_conds) if outer is None else outer
        heads: list[tuple[State, Term | None]] = [(st, None)]
        if for_node is not None:
            heads = [(x, itv) for x, itv in self.ev(for_node.iter, st)]
        out: list[State] = []
        for st0, itv in heads:
            cur = State(st0.env, pre_conds, st0.heap, None, outer)
            for _pass in (1, 2):
                s0 = State(cur.env, pre_conds, cur.heap, None, base)
                exits: list[State] = []
                if for_node is not None:
                    starts = [self.assign(for_node.target, ("it", itv), s0)]
                else:
                    starts, exits = self.branch(test, s0)  # type: ignore[arg-type]
                ends = self.block(body, starts)
                cur = self.merge([cur] + ends + exits, pre_conds, outer)
            out.extend(self.block(orelse, [cur]) if orelse else [cur])
        return out

    def merge(self, states: list[State], conds: tuple[Cond, ...], loop_base: int | None) -> State:
        names: dict[str, list[Term]] = {}
        for s in states:
            for k, v in s.env.items():
                lst = names.setdefault(k, [])
                if v not in lst:
                    lst.append(v)
        env: dict[str, Term] = {}
        for k, vs in names.items():
            if len(vs) == 1:
                env[k] = vs[0]
            else:
                flat: set[Term] = set()
                for v in vs:
                    if v[0] == "alt":
                        flat |= set(v[1])
                    else:
                        flat.add(v)
                v2: Term = ("alt", frozenset(flat))
                nested = any(x is not f and (x[0] == "alt" or (x[0] == "v" and str(x[1]).startswith("loop-carried:"))) for f in flat for x in walk(f))
                if nested or len(flat) > 12 or size(v2) > 400:
                    v2 = ("v", f"loop-carried:{k}")
                env[k] = v2
        heap: dict[int, frozenset] = {}
        for s in states:
            for oid, items in s.heap.items():
                heap[oid] = heap.get(oid, frozenset()) | items
        return State(env, conds, heap, None, loop_base)

    def try_(self, node: ast.Try, st: State) -> list[State]:
        self.handlers.append([norm(h.type) if h.type is not None else "BaseException" for h in node.handlers])
        try:
            body_end = self.block(node.body, [st])
        finally:
            self.handlers.pop()
        if node.orelse:
            body_end = self.block(node.orelse, body_end)
        ends = list(body_end)
        for h in node.handlers:
            typ = norm(h.type) if h.type is not None else "BaseException"
            s = State(st.env, st.conds + ((("exc", typ), True),), st.heap, None, st.loop_base)
            if h.name:
                s = s.set(h.name, ("v", f"exc:{typ}"))
            ends.extend(self.block(h.body, [s]))
        if node.finalbody:
            live = [x for x in ends if x.flow is None]
            dead = [x for x in ends if x.flow is not None]
            ends = self.block(node.finalbody, live) + dead
        return ends

    # -- conditions -------------------------------------------------------
    def decide(self, term: Term, st: State) -> bool | None:
        a, p = atomize(term)
        v = static_truth(a)
        if v is not None:
            return v == p
        for ca, tr in st.conds:
            if ca == a:
                return tr == p
        # x is None  <->  truthiness of x
        if a[0] == "cmp" and a[1] == "is" and a[3] == NONE:
            for ca, tr in st.conds:
                if ca == a[2] and tr:
                    return not p  # x truthy -> `x is None` false
        else:
            for ca, tr in st.conds:
                if ca[0] == "cmp" and ca[1] == "is" and ca[3] == NONE and ca[2] == a and tr:
                    return not p  # x is None -> x falsy
        return None

    def branch(self, e: ast.AST, st: State) -> tuple[list[State], list[State]]:
        if isinstance(e, ast.BoolOp):
            if isinstance(e.op, ast.And):
                ts, fs = [st], []
                for v in e.values:
                    nts: list[State] = []
                    for s in ts:
                        a, b = self.branch(v, s)
                        nts += a
                        fs += b
                    ts = nts
                return ts, fs
            ts, fs = [], [st]
            for v in e.values:
                nfs: list[State] = []
                for s in fs:
                    a, b = self.branch(v, s)
                    ts += a
                    nfs += b
                fs = nfs
            return ts, fs
        if isinstance(e, ast.UnaryOp) and isinstance(e.op, ast.Not):
            a, b = self.branch(e.operand, st)
            return b, a
        if isinstance(e, ast.Compare) and len(e.ops) > 1:
            # a == b == c  ->  a == b and b == c
            parts = []
            left = e.left
            for op, c in zip(e.ops, e.comparators):
                parts.append(ast.copy_location(ast.Compare(left=left, ops=[op], comparators=[c]), e))
                left = c
            return self.branch(ast.copy_location(ast.BoolOp(op=ast.And(), values=parts), e), st)
        ts, fs = [], []
        for s, v in self.ev(e, st):
            d = self.decide(v, s)
            if d is True:
                ts.append(s)
            elif d is False:
                fs.append(s)
            else:
                ts.append(s.cond(v, True))
                fs.append(s.cond(v, False))
        self.tick(len(ts) + len(fs))
        return ts, fs

    # -- expressions ------------------------------------------------------
    def ev(self, e: ast.AST, st: State) -> list[tuple[State, Term]]:
        m = getattr(self, "ev_" + type(e).__name__, None)
        if m is None:
            return [(st, ("v", norm(e)))]
        return m(e, st)

    def ev_many(self, es: t.Sequence[ast.AST], st: State) -> list[tuple[State, list[Term]]]:
        acc: list[tuple[State, list[Term]]] = [(st, [])]
        for e in es:
            nxt = []
            for s, vals in acc:
                for s2, v in self.ev(e, s):
                    nxt.append((s2, vals + [v]))
            acc = nxt
        return acc

    def ev_Constant(self, e: ast.Constant, st: State):  # noqa: N802
        return [(st, C(e.value))]

    def resolve_global(self, d: str) -> Term:
        fq = self.repo.resolve(self.module, d, self.local_imports)
        return ("g", fq or f"?.{d}")

    def ev_Name(self, e: ast.Name, st: State):  # noqa: N802
        if e.id in st.env:
            return [(st, st.env[e.id])]
        if e.id in self.locals and e.id not in self.local_imports:
            return [(st, ("v", f"unbound:{e.id}"))]
        return [(st, self.resolve_global(e.id))]

    def ev_Attribute(self, e: ast.Attribute, st: State):  # noqa: N802
        d = dotted(e)
        if d:
            head = d.split(".", 1)[0]
            if head not in st.env and not (head in self.locals and head not in self.local_imports):
                return [(st, self.resolve_global(d))]
        return [(s, ("attr", b, e.attr)) for s, b in self.ev(e.value, st)]

    def ev_JoinedStr(self, e: ast.JoinedStr, st: State):  # noqa: N802
        return [(s, cat(vals)) for s, vals in self.ev_many(e.values, st)]

    def ev_FormattedValue(self, e: ast.FormattedValue, st: State):  # noqa: N802
        out = []
        for s, v in self.ev(e.value, st):
            if e.conversion == 114:
                v = ("call", ("g", "builtins.repr"), (v,), ())
            if e.format_spec is not None:
                v = ("v", f"format:{show(v)}:{norm(e.format_spec)}")
            out.append((s, strof(v)))
        return out

    def binop(self, op: ast.operator, a: Term, b: Term, st: State) -> tuple[State, Term]:
        if isinstance(op, ast.Add):
            if is_stringy(a) or is_stringy(b):
                return st, cat([a, b])
            if is_c(b) and isinstance(cv(b), int) and not isinstance(cv(b), bool):
                return st, add_int(a, cv(b))
            if is_c(a) and isinstance(cv(a), int) and not isinstance(cv(a), bool):
                return st, add_int(b, cv(a))
            ia, ib = self.items_of(a, st), self.items_of(b, st)
            if ia is not None and ib is not None:
                oid = next(self.sums._oid)
                return st.heap_set(oid, ia | ib), ("ref", oid)
            return st, ("bin", "+", a, b)
        if isinstance(op, ast.Sub):
            if is_c(b) and isinstance(cv(b), int) and not isinstance(cv(b), bool):
                return st, add_int(a, -cv(b))
            return st, ("bin", "-", a, b)
        if isinstance(op, ast.Mod) and is_cstr(a):
            r = _printf_parts(cv(a), list(b[1]) if b[0] == "tuple" else [b])
            if r is not None:
                return st, cat(r)
        sym = {ast.Mult: "*", ast.Div: "/", ast.FloorDiv: "//", ast.Mod: "%", ast.BitOr: "|", ast.BitAnd: "&", ast.BitXor: "^", ast.Pow: "**", ast.LShift: "<<", ast.RShift: ">>", ast.MatMult: "@"}.get(type(op), "?")
        if is_c(a) and is_c(b) and sym in ("*", "//", "%") and isinstance(cv(a), int) and isinstance(cv(b), int) and cv(b) != 0:
            return st, C({"*": cv(a) * cv(b), "//": cv(a) // cv(b), "%": cv(a) % cv(b)}[sym])
        return st, ("bin", sym, a, b)

    def ev_BinOp(self, e: ast.BinOp, st: State):  # noqa: N802
        out = []
        for s, (a, b) in self.ev_many([e.left, e.right], st):
            out.append(self.binop(e.op, a, b, s))
        return out

    def ev_UnaryOp(self, e: ast.UnaryOp, st: State):  # noqa: N802
        out = []
        for s, v in self.ev(e.operand, st):
            if isinstance(e.op, ast.Not):
                d = self.decide(v, s)
                out.append((s, C(not d) if d is not None else ("not", v)))
            elif isinstance(e.op, ast.USub) and is_c(v) and isinstance(cv(v), (int, float)):
                out.append((s, C(-cv(v))))
            else:
                out.append((s, ("un", type(e.op).__name__, v)))
        return out

    def ev_BoolOp(self, e: ast.BoolOp, st: State):  # noqa: N802
        is_or = isinstance(e.op, ast.Or)
        res: list[tuple[State, Term]] = []
        pending = [st]
        for i, v in enumerate(e.values):
            last = i == len(e.values) - 1
            nxt: list[State] = []
            for s in pending:
                for s2, tv in self.ev(v, s):
                    if last:
                        res.append((s2, tv))
                        continue
                    d = self.decide(tv, s2)
                    if d is None:
                        # value is tv when its truth ends the evaluation
                        res.append((s2.cond(tv, is_or), tv))
                        nxt.append(s2.cond(tv, not is_or))
                    elif d == is_or:
                        res.append((s2, tv))
                    else:
                        nxt.append(s2)
            pending = nxt
            if not pending:
                break
        self.tick(len(res))
        return res

    def ev_Compare(self, e: ast.Compare, st: State):  # noqa: N802
        ops = {ast.Eq: "==", ast.NotEq: "!=", ast.Lt: "<", ast.LtE: "<=", ast.Gt: ">", ast.GtE: ">=", ast.Is: "is", ast.IsNot: "is not", ast.In: "in", ast.NotIn: "not in"}
        out = []
        for s, vals in self.ev_many([e.left, *e.comparators], st):
            parts = []
            for i, op in enumerate(e.ops):
                t_: Term = ("cmp", ops[type(op)], vals[i], vals[i + 1])
                a, p = atomize(t_)
                sv = static_truth(a)
                if sv is not None:
                    t_ = C(sv == p)
                parts.append(t_)
            if len(parts) == 1:
                out.append((s, parts[0]))
            elif any(p == FALSE for p in parts):
                out.append((s, FALSE))
            else:
                parts = [p for p in parts if p != TRUE]
                out.append((s, TRUE if not parts else parts[0] if len(parts) == 1 else ("and", tuple(parts))))
        return out

    def ev_IfExp(self, e: ast.IfExp, st: State):  # noqa: N802
        ts, fs = self.branch(e.test, st)
        out = []
        for s in ts:
            out.extend(self.ev(e.body, s))
        for s in fs:
            out.extend(self.ev(e.orelse, s))
        return out

    def ev_NamedExpr(self, e: ast.NamedExpr, st: State):  # noqa: N802
        return [(s.set(e.target.id, v), v) for s, v in self.ev(e.value, st)]

    def ev_Tuple(self, e: ast.Tuple, st: State):  # noqa: N802
        if any(isinstance(x, ast.Starred) for x in e.elts):
            return [(st, ("v", norm(e)))]
        return [(s, ("tuple", tuple(vals))) for s, vals in self.ev_many(e.elts, st)]

    def _new_ref(self, st: State, items: t.Iterable[Term]) -> tuple[State, Term]:
        oid = next(self.sums._oid)
        st = st.heap_set(oid, frozenset(((), i) for i in items))
        return st, ("ref", oid)

    def ev_List(self, e: ast.List, st: State):  # noqa: N802
        if any(isinstance(x, ast.Starred) for x in e.elts):
            # [*a, x, *b]: the union of the unpacked collections and the plain elements
            out = []
            for s, vals in self.ev_many([x.value if isinstance(x, ast.Starred) else x for x in e.elts], st):
                s, ref = self._new_ref(s, [])
                for x, v in zip(e.elts, vals):
                    s = self.extend(s, ref, v) if isinstance(x, ast.Starred) else s.heap_add(ref[1], v)
                out.append((s, ref))
            return out
        return [self._new_ref(s, vals) for s, vals in self.ev_many(e.elts, st)]

    def ev_Set(self, e: ast.Set, st: State):  # noqa: N802
        if all(isinstance(x, ast.Constant) for x in e.elts):
            return [(st, C(frozenset(x.value for x in e.elts)))]  # type: ignore[attr-defined]
        return self.ev_List(e, st)  # type: ignore[arg-type]

    def ev_Dict(self, e: ast.Dict, st: State):  # noqa: N802
        if any(k is None for k in e.keys):
            return [(st, ("v", norm(e)))]
        out = []
        for s, vals in self.ev_many([*e.keys, *e.values], st):  # type: ignore[list-item]
            n = len(e.keys)
            out.append(self._new_ref(s, [("kv", vals[i], vals[n + i]) for i in range(n)]))
        return out

    def _comp(self, e: ast.AST, elt: ast.AST | tuple[ast.AST, ast.AST], gens: list[ast.comprehension], st: State):
        saved_env = st.env
        pre = st.conds
        base = st.loop_base if st.loop_base is not None else len(pre)
        cur = [State(st.env, st.conds, st.heap, None, base)]
        for g in gens:
            nxt = []
            for s in cur:
                for s2, itv in self.ev(g.iter, s):
                    s3 = self.assign(g.target, ("it", itv), s2)
                    ss = [s3]
                    for cnd in g.ifs:
                        ss2: list[State] = []
                        for q in ss:
                            ts, _ = self.branch(cnd, q)
                            ss2 += ts
                        ss = ss2
                    nxt += ss
            cur = nxt
        items: set[tuple] = set()
        heap = dict(st.heap)
        for s in cur:
            if isinstance(elt, tuple):
                for s2, (k, v) in self.ev_many(list(elt), s):
                    items.add((s2.conds[len(pre) :], ("kv", k, v)))
                    heap.update(s2.heap)
            else:
                for s2, v in self.ev(elt, s):
                    items.add((s2.conds[len(pre) :], v))
                    heap.update(s2.heap)
        oid = next(self.sums._oid)
        heap[oid] = frozenset(items)
        return [(State(saved_env, pre, heap, st.flow, st.loop_base), ("ref", oid))]

    def ev_ListComp(self, e: ast.ListComp, st: State):  # noqa: N802
        return self._comp(e, e.elt, e.generators, st)

    ev_SetComp = ev_ListComp  # noqa: N815
    ev_GeneratorExp = ev_ListComp  # noqa: N815

    def ev_DictComp(self, e: ast.DictComp, st: State):  # noqa: N802
        return self._comp(e, (e.key, e.value), e.generators, st)

    def ev_index(self, sl: ast.AST, st: State) -> list[tuple[State, Term]]:
        if isinstance(sl, ast.Slice):
            parts = [sl.lower, sl.upper, sl.step]
            acc: list[tuple[State, list[Term]]] = [(st, [])]
            for p in parts:
                nxt = []
                for s, vals in acc:
                    if p is None:
                        nxt.append((s, vals + [NONE]))
                    else:
                        for s2, v in self.ev(p, s):
                            nxt.append((s2, vals + [v]))
                acc = nxt
            return [(s, ("sl", v[0], v[1], v[2])) for s, v in acc]
        return self.ev(sl, st)

    def ev_Subscript(self, e: ast.Subscript, st: State):  # noqa: N802
        out = []
        for s, base in self.ev(e.value, st):
            for s2, ix in self.ev_index(e.slice, s):
                if ix[0] == "sl":
                    out.append((s2, ("slice", base, ix[1], ix[2], ix[3])))
                elif base[0] == "tuple" and is_c(ix) and isinstance(cv(ix), int) and -len(base[1]) <= cv(ix) < len(base[1]):
                    out.append((s2, base[1][cv(ix)]))
                else:
                    out.append((s2, ("idx", base, ix)))
        return out

    # -- calls ------------------------------------------------------------
    def inline_target(self, f: ast.AST, st: State) -> tuple[FuncInfo, Term | None] | None:
        if isinstance(f, ast.Name) and f.id not in st.env and f.id.startswith("_") and not f.id.startswith("__"):
            fi = self.module.functions.get(f.id)
            if fi is not None and f.id not in self.locals and fi.fq not in self.sums._busy:
                return fi, None
        if isinstance(f, ast.Attribute) and isinstance(f.value, ast.Name) and self.fi.cls is not None and f.attr.startswith("_") and not f.attr.startswith("__"):
            recv = f.value.id
            if (recv == self.self_name and recv in st.env) or recv == self.fi.cls.name:
                m = self.fi.cls.methods.get(f.attr)
                if m is not None and m.fq not in self.sums._busy:
                    decs = m.decorators
                    if any(d.endswith("staticmethod") for d in decs):
                        return m, None
                    if any(d.endswith("property") for d in decs):
                        return None
                    return m, st.env.get(recv, ("g", self.fi.cls.fq))
        return None

    def is_module_constant(self, d: str) -> bool:
        fq = self.repo.resolve(self.module, d, self.local_imports)
        if not fq or not fq.startswith("werkzeug."):
            return False
        mn, _, name = fq.rpartition(".")
        mod = self.repo.modules.get(mn)
        return mod is not None and name in mod.assigns and name not in mod.functions and name not in mod.classes

    def kwargs_of(self, names: list[str | None], vals: list[Term]) -> tuple:
        return tuple(("kw", n or "**", v) for n, v in zip(names, vals))

    def ev_Call(self, e: ast.Call, st: State):  # noqa: N802
        if any(isinstance(a, ast.Starred) for a in e.args):
            return [(st, ("v", norm(e)))]
        kwn = [k.arg for k in e.keywords]
        arg_exprs = list(e.args) + [k.value for k in e.keywords]
        tgt = self.inline_target(e.func, st)
        out: list[tuple[State, Term]] = []
        if tgt is not None and None not in kwn:
            fi, selfv = tgt
            for s, vals in self.ev_many(arg_exprs, st):
                out.extend(self.inline(fi, selfv, vals[: len(e.args)], dict(zip(kwn, vals[len(e.args) :])), s, e))  # type: ignore[arg-type]
            return out
        f = e.func
        if isinstance(f, ast.Attribute) and f.attr == "join" and len(e.args) == 1 and not e.keywords and isinstance(e.args[0], (ast.List, ast.Tuple)) and not any(isinstance(x, ast.Starred) for x in e.args[0].elts):
            # sep.join([a, b, c]) with a literal sequence: an ordered concatenation
            for s, vals in self.ev_many([f.value, *e.args[0].elts], st):
                sep, items = vals[0], vals[1:]
                if is_cstr(sep):
                    parts: list[Term] = []
                    for i, it_ in enumerate(items):
                        if i:
                            parts.append(sep)
                        parts.append(strof(it_))
                    out.append((s, cat(parts)))
                else:
                    out.append((s, ("v", norm(e))))
            return out
        if isinstance(f, ast.Attribute):
            d = dotted(f)
            head = d.split(".", 1)[0] if d else None
            is_global = d is not None and head not in st.env and not (head in self.locals and head not in self.local_imports)
            if is_global and self.is_module_constant(d.rsplit(".", 1)[0]):  # type: ignore[union-attr]
                is_global = False
            if not is_global:
                for s, recv in self.ev(f.value, st):
                    for s2, vals in self.ev_many(arg_exprs, s):
                        out.append(self.method(f.attr, recv, vals[: len(e.args)], self.kwargs_of(kwn, vals[len(e.args) :]), s2, e))
                return out
        for s, fv in self.ev(f, st):
            for s2, vals in self.ev_many(arg_exprs, s):
                out.append(self.call(fv, vals[: len(e.args)], self.kwargs_of(kwn, vals[len(e.args) :]), s2, e))
        return out

    def call(self, fv: Term, args: list[Term], kwargs: tuple, st: State, e: ast.Call) -> tuple[State, Term]:
        fq = fv[1] if fv[0] == "g" else None
        if fq in _STR_BUILTINS and len(args) == 1 and not kwargs:
            return st, strof(args[0])
        if fq == "builtins.map" and len(args) == 2:
            st, ref = self._new_ref(st, [("call", args[0], (("it", args[1]),), ())])
            return st, ref
        if fq in _LISTY_BUILTINS and not kwargs:
            if not args:
                return self._new_ref(st, [])
            if len(args) == 1 and self.items_of(args[0], st) is not None:
                oid = next(self.sums._oid)
                return st.heap_set(oid, self.items_of(args[0], st)), ("ref", oid)  # type: ignore[arg-type]
        if fq == "builtins.dict" and not args and not kwargs:
            return self._new_ref(st, [])
        if fq in ("typing.cast", "t.cast") and len(args) == 2:
            return st, args[1]
        return st, ("call", fv, tuple(args), kwargs)

    def method(self, name: str, recv: Term, args: list[Term], kwargs: tuple, st: State, e: ast.Call) -> tuple[State, Term]:
        if name == "join" and len(args) == 1 and not kwargs:
            return st, ("join", recv, args[0])
        if recv[0] == "ref":
            if name in ("append", "add") and len(args) == 1:
                return st.heap_add(recv[1], args[0]), NONE
            if name == "insert" and len(args) == 2:
                return st.heap_add(recv[1], args[1]), NONE
            if name in ("extend", "update") and len(args) == 1:
                return self.extend(st, recv, args[0]), NONE
            if name == "setdefault" and len(args) == 2:
                return st.heap_add(recv[1], ("kv", args[0], args[1])), ("meth", name, recv, tuple(args), kwargs)
            if name == "copy" and not args:
                oid = next(self.sums._oid)
                return st.heap_set(oid, st.heap.get(recv[1], frozenset())), ("ref", oid)
        if name == "format" and is_cstr(recv):
            r = _format_parts(cv(recv), args, kwargs)
            if r is not None:
                return st, cat(r)
        return st, ("meth", name, recv, tuple(args), kwargs)

    def inline(self, fi: FuncInfo, selfv: Term | None, args: list[Term], kwargs: dict[str, Term], st: State, e: ast.Call) -> list[tuple[State, Term]]:
        summ = self.sums.of(fi)
        params = list(summ.params)
        m: dict[str, Term] = {}
        pos = list(args)
        if fi.cls is not None and not any(d.endswith("staticmethod") for d in fi.decorators) and params:
            m[params[0]] = selfv if selfv is not None else ("v", "self?")
            params = params[1:]
        for p, a in zip(params, pos):
            m[p] = a
        for k, v in kwargs.items():
            m[k] = v
        for p in params:
            if p not in m:
                m[p] = summ.defaults.get(p, ("v", f"missing-arg:{p}"))
        res: list[tuple[State, Term]] = []
        for o in summ.outcomes:
            s = st
            dead = False
            for a, tr in o.conds:
                a2 = subst(a, m)
                d = self.decide(a2, s)
                if d is None:
                    s = s.cond(a2, tr)
                elif d != tr:
                    dead = True
                    break
            if dead:
                continue
            if o.kind == "raise":
                self.record("raise", s, subst(o.term, m), e)
                continue
            v = subst(o.term, m)
            if size(v) > MAX_TERM:
                raise AnalysisError(f"term too large while inlining {fi.fq}")
            res.append((s, v))
        self.tick(len(res))
        return res


def _as_load(tg: ast.AST) -> ast.AST:
    x = ast.parse(ast.unparse(tg), mode="eval").body
    return x


def _printf_parts(fmt: str, args: list[Term]) -> list[Term] | None:
    out: list[Term] = []
    i = 0
    pieces = re.split(r"(%[sd%])", fmt)
    if any("%" in p for p in pieces[0::2]):
        return None
    for j, p in enumerate(pieces):
        if j % 2 == 0:
            if p:
                out.append(C(p))
        elif p == "%%":
            out.append(C("%"))
        else:
            if i >= len(args):
                return None
            out.append(strof(args[i]))
            i += 1
    return out if i == len(args) else None


def _format_parts(fmt: str, args: list[Term], kwargs: tuple) -> list[Term] | None:
    import string

    out: list[Term] = []
    auto = 0
    kw = {k[1]: k[2] for k in kwargs}
    try:
        for lit, field, spec, conv in string.Formatter().parse(fmt):
            if lit:
                out.append(C(lit))
            if field is None:
                continue
            if spec or conv:
                return None
            if field == "":
                v = args[auto]
                auto += 1
            elif field.isdigit():
                v = args[int(field)]
            elif field in kw:
                v = kw[field]
            else:
                return None
            out.append(strof(v))
    except (ValueError, IndexError):
        return None
    return out


# ---------------------------------------------------------------------------------------------------------------
# bounded (concrete) evaluation of terms and summaries


class Unknown(AnalysisError):
    """a term outside the evaluable fragment."""


class NoPath(Unknown):
    """no alternative's condition holds for the sample."""


class Raised(Exception):
    def __init__(self, kind: str):
        super().__init__(kind)
        self.kind = kind


class FuncRef(t.NamedTuple):
    fq: str


_PURE_METHODS = {
    str: {"strip", "lstrip", "rstrip", "lower", "upper", "title", "casefold", "partition", "rpartition", "split", "rsplit", "startswith", "endswith", "replace", "find", "rfind", "index", "rindex", "removeprefix", "removesuffix", "isdigit", "isascii", "isalnum", "isalpha", "isspace", "encode", "join", "count", "splitlines", "translate", "zfill", "capitalize", "swapcase", "format", "center", "ljust", "rjust", "expandtabs", "isdecimal", "isnumeric", "isidentifier", "islower", "isupper", "istitle", "isprintable"},
    bytes: {"decode", "strip", "lower", "upper", "startswith", "endswith", "replace", "partition", "split"},
    tuple: {"index", "count"},
    list: {"index", "count", "copy"},
    frozenset: {"issuperset", "issubset", "isdisjoint", "union", "intersection", "difference"},
    set: {"issuperset", "issubset", "isdisjoint", "union", "intersection", "difference"},
    dict: {"get", "items", "keys", "values"},
}
_PURE_BUILTINS = {"builtins.str": str, "builtins.len": len, "builtins.int": int, "builtins.set": set, "builtins.frozenset": frozenset, "builtins.bool": bool, "builtins.list": list, "builtins.tuple": tuple, "builtins.min": min, "builtins.max": max, "builtins.isinstance": None, "builtins.all": all, "builtins.any": any, "builtins.sorted": sorted, "builtins.repr": repr, "builtins.ord": ord, "builtins.chr": chr, "builtins.abs": abs}
_EXC_PARENTS = {"IndexError": {"LookupError", "Exception", "BaseException"}, "KeyError": {"LookupError", "Exception", "BaseException"}, "ValueError": {"Exception", "BaseException"}, "TypeError": {"Exception", "BaseException"}, "UnicodeDecodeError": {"UnicodeError", "ValueError", "Exception", "BaseException"}, "UnicodeEncodeError": {"UnicodeError", "ValueError", "Exception", "BaseException"}, "AttributeError": {"Exception", "BaseException"}, "OverflowError": {"ArithmeticError", "Exception", "BaseException"}}


def _exc_matches(handler_text: str, kind: str) -> bool:
    names = {x.strip().rsplit(".", 1)[-1] for x in handler_text.strip("()").split(",")}
    return kind in names or bool(names & _EXC_PARENTS.get(kind, {"Exception", "BaseException"}))


class Conc:
    def __init__(self, sums: Summaries):
        self.sums = sums
        self.repo = sums.repo
        self.folder = sums.folder
        self._rx: dict[int, t.Any] = {}
        self.depth = 0
        self._memo: dict[int, t.Any] | None = None  # per-sample cache (terms are shared objects)

    def gval(self, fq: str) -> t.Any:
        if fq.startswith("builtins."):
            n = fq.split(".", 1)[1]
            if n in ("True", "False", "None"):
                return {"True": True, "False": False, "None": None}[n]
            return FuncRef(fq)
        if fq.startswith("werkzeug."):
            mn, _, name = fq.rpartition(".")
            mod = self.repo.modules.get(mn)
            if mod is not None:
                if name in mod.functions:
                    return FuncRef(fq)
                if name in mod.assigns:
                    try:
                        v = self.folder.name(mod, name)
                    except Unfoldable as ex:
                        raise Unknown(f"constant {fq}: {ex}")
                    return v
            return FuncRef(fq)
        return FuncRef(fq)

    def regex(self, rc: RegexConst):
        k = id(rc)
        if k not in self._rx:
            self._rx[k] = re.compile(rc.pattern, rc.flags)
        return self._rx[k]

    def val(self, t_: Term, env: dict[Term, t.Any]) -> t.Any:
        k = t_[0]
        if k == "c":
            return t_[2]
        memo = self._memo
        if memo is not None:
            hit = memo.get(id(t_), memo)
            if hit is not memo:
                return hit
            v = self._val(t_, env)
            memo[id(t_)] = v
            return v
        return self._val(t_, env)

    def _val(self, t_: Term, env: dict[Term, t.Any]) -> t.Any:
        if t_ in env:
            return env[t_]
        k = t_[0]
        if k == "g":
            return self.gval(t_[1])
        if k == "cat":
            parts = [self.val(p, env) for p in t_[1]]
            for p in parts:
                if isinstance(p, (FuncRef, RegexConst)):
                    raise Unknown("str() of an object")
            return "".join(p if isinstance(p, str) else str(p) for p in parts)
        if k == "tuple":
            return tuple(self.val(x, env) for x in t_[1])
        if k == "kv":
            return ("kv", self.val(t_[1], env), self.val(t_[2], env))
        if k == "not":
            return not self.val(t_[1], env)
        if k == "and":
            r: t.Any = True
            for x in t_[1]:
                r = self.val(x, env)
                if not r:
                    return r
            return r
        if k == "or":
            r = False
            for x in t_[1]:
                r = self.val(x, env)
                if r:
                    return r
            return r
        if k == "cmp":
            return self.cmp(t_[1], self.val(t_[2], env), self.val(t_[3], env))
        if k == "bin":
            a, b = self.val(t_[2], env), self.val(t_[3], env)
            try:
                return {"+": lambda: a + b, "-": lambda: a - b, "*": lambda: a * b, "//": lambda: a // b, "%": lambda: a % b, "|": lambda: a | b, "&": lambda: a & b}[t_[1]]()
            except KeyError:
                raise Unknown(f"operator {t_[1]}")
            except TypeError:
                raise Raised("TypeError")
            except ZeroDivisionError:
                raise Raised("ZeroDivisionError")
        if k == "idx":
            base, i = self.val(t_[1], env), self.val(t_[2], env)
            if isinstance(base, re.Match):
                try:
                    return base[i]
                except IndexError:
                    raise Raised("IndexError")
            if not isinstance(base, (str, bytes, tuple, list, dict)):
                raise Unknown(f"subscript of {type(base).__name__}")
            try:
                return base[i]
            except IndexError:
                raise Raised("IndexError")
            except KeyError:
                raise Raised("KeyError")
            except TypeError:
                raise Raised("TypeError")
        if k == "slice":
            base = self.val(t_[1], env)
            if not isinstance(base, (str, bytes, tuple, list)):
                raise Unknown(f"slice of {type(base).__name__}")
            lo, hi, stp = (self.val(x, env) for x in t_[2:5])
            return base[lo:hi:stp]
        if k == "meth":
            return self.meth(t_, env)
        if k == "call":
            return self.call(t_, env)
        if k == "join":
            sep = self.val(t_[1], env)
            items = self.val(t_[2], env)
            if isinstance(sep, str) and isinstance(items, (list, tuple)) and all(isinstance(x, str) for x in items):
                return sep.join(items)
            raise Unknown("join of a symbolic collection")
        if k == "coll":
            return self.coll_val(t_, env)
        if k == "alt":
            vals = [self.val(x, env) for x in t_[1]]
            if all(v == vals[0] and type(v) is type(vals[0]) for v in vals):
                return vals[0]
            raise Unknown(f"loop-carried value with several possibilities: {show(t_)[:80]}")
        raise Unknown(f"cannot evaluate {show(t_)[:80]}")

    def coll_val(self, t_: Term, env: dict[Term, t.Any]) -> list:
        """a collection built by one comprehension / loop over a concrete iterable: element-wise evaluation."""
        items = sorted(_COLLS[t_[1]], key=repr)
        its: list[Term] = []
        for x in walk(tuple(items)):
            if x[0] == "it" and x not in its and x not in env:
                its.append(x)
        if not its:
            if len(items) == 1 and not items[0][0]:
                return [self.val(items[0][1], env)]
            if not items:
                return []
            raise Unknown("order of a collection filled at several places")
        if len(its) != 1:
            raise Unknown("collection over several iterations")
        src = self.val(its[0][1], env)
        if isinstance(src, dict):
            src = list(src)
        if not isinstance(src, (str, list, tuple)):
            raise Unknown(f"iteration over {type(src).__name__}")
        out = []
        saved = self._memo
        try:
            for el in src:
                self._memo = {} if saved is not None else None
                env2 = dict(env)
                env2[its[0]] = el
                hit = []
                for cs, it_ in items:
                    if all(bool(self.val(a, env2)) == tr for a, tr in cs):
                        hit.append(self.val(it_, env2))
                if len(hit) > 1:
                    raise Unknown("several items stored per element")
                out.extend(hit)
        finally:
            self._memo = saved
        return out

    def cmp(self, op: str, a: t.Any, b: t.Any) -> bool:
        try:
            if op == "==":
                return a == b
            if op == "!=":
                return a != b
            if op == "is":
                return a is b if (a is None or b is None or isinstance(a, bool) or isinstance(b, bool)) else a == b
            if op == "is not":
                return not self.cmp("is", a, b)
            if op == "in":
                return a in b
            if op == "not in":
                return a not in b
            if op == "<":
                return a < b
            if op == "<=":
                return a <= b
            if op == ">":
                return a > b
            if op == ">=":
                return a >= b
        except TypeError:
            raise Raised("TypeError")
        raise Unknown(f"comparison {op}")

    def meth(self, t_: Term, env: dict[Term, t.Any]) -> t.Any:
        name = t_[1]
        recv = self.val(t_[2], env)
        args = [self.val(a, env) for a in t_[3]]
        kwargs = {kw[1]: self.val(kw[2], env) for kw in t_[4]}
        if isinstance(recv, RegexConst):
            if name in ("match", "fullmatch", "search") and args and isinstance(args[0], (str, bytes)):
                return getattr(self.regex(recv), name)(*args, **kwargs)
            if name in ("sub", "split", "findall") and all(isinstance(a, (str, bytes, int)) for a in args):
                return getattr(self.regex(recv), name)(*args, **kwargs)
            raise Unknown(f"regex method {name}")
        if isinstance(recv, re.Match):
            if name in ("group", "groups", "start", "end", "span", "groupdict"):
                return getattr(recv, name)(*args, **kwargs)
            raise Unknown(f"match method {name}")
        for ty, names in _PURE_METHODS.items():
            if type(recv) is ty and name in names:
                try:
                    return getattr(recv, name)(*args, **kwargs)
                except Exception as ex:  # semantics of the builtin: the program would raise here
                    raise Raised(type(ex).__name__)
        raise Unknown(f"method {name} of {type(recv).__name__}")

    def call(self, t_: Term, env: dict[Term, t.Any]) -> t.Any:
        f = self.val(t_[1], env)
        args = [self.val(a, env) for a in t_[2]]
        kwargs = {kw[1]: self.val(kw[2], env) for kw in t_[3]}
        if not isinstance(f, FuncRef):
            raise Unknown(f"call of {show(t_[1])}")
        if f.fq in _PURE_BUILTINS and _PURE_BUILTINS[f.fq] is not None:
            try:
                return _PURE_BUILTINS[f.fq](*args, **kwargs)  # type: ignore[misc]
            except Exception as ex:
                raise Raised(type(ex).__name__)
        if f.fq in ("re.sub", "re.match", "re.fullmatch", "re.search", "re.split", "re.findall") and len(args) >= 2 and all(isinstance(a, (str, int)) for a in args):
            try:
                return getattr(re, f.fq[3:])(*args, **kwargs)  # pattern and replacement are constants of the source
            except re.error as ex:
                raise Unknown(f"{f.fq}: {ex}")
        fi = self.sums.func_by_fq(f.fq)
        if fi is None:
            raise Unknown(f"call of {f.fq}")
        return self.apply(self.sums.of(fi), args, kwargs)

    def apply(self, summ: Summary, args: list[t.Any], kwargs: dict[str, t.Any], extra_env: dict[Term, t.Any] | None = None) -> t.Any:
        """value returned by the summarised function for concrete arguments (Raised if it raises)."""
        self.depth += 1
        if self.depth > 6:
            self.depth -= 1
            raise Unknown("evaluation too deep")
        saved_memo = self._memo
        self._memo = None  # the callee's terms are evaluated under another environment
        try:
            env: dict[Term, t.Any] = dict(extra_env or {})
            params = list(summ.params)
            for p, a in zip(params, args):
                env[("p", p)] = a
            for k, v in kwargs.items():
                env[("p", k)] = v
            for p in params:
                if ("p", p) not in env:
                    if p in summ.defaults:
                        env[("p", p)] = self.val(summ.defaults[p], {})
            kind, value = self.pick(summ.outcomes, env)
            if kind == "raise":
                raise Raised(_exc_name(value))
            return self.val(value, env)
        finally:
            self.depth -= 1
            self._memo = saved_memo

    def pick(self, outcomes: t.Sequence[Outcome], env: dict[Term, t.Any]) -> tuple[str, Term]:
        """the outcome whose path condition holds (paths of `except` handlers only after a raising path)."""
        pending: str | None = None
        for phase in (0, 1):
            if phase == 1 and pending is None:
                break
            for o in outcomes:
                has_exc = any(a[0] == "exc" for a, _ in o.conds)
                if has_exc != (phase == 1):
                    continue
                ok = True
                try:
                    for a, tr in o.conds:
                        if a[0] == "exc":
                            v = pending is not None and _exc_matches(a[1], pending)
                        else:
                            v = bool(self.val(a, env))
                        if v != tr:
                            ok = False
                            break
                    if ok and o.kind == "return":
                        self.val(o.term, env)  # evaluating the value may itself raise inside a try
                except Raised as r:
                    if phase == 0 and pending is None:
                        pending = r.kind
                        break
                    if phase == 1:
                        raise
                    continue
                if ok:
                    return o.kind, o.term
        if pending is not None:
            raise Raised(pending)
        raise NoPath("no path of the summary matches the sample")


def matching_items(conc: Conc, items: t.Sequence[Outcome], env: dict[Term, t.Any]) -> list[t.Any]:
    """values of all collection items whose (loop-relative) condition holds for the sample; an item whose condition
    raises counts as "the loop body raises here"."""
    out: list[t.Any] = []
    conc._memo = {}
    try:
        return _matching_items(conc, items, env, out)
    finally:
        conc._memo = None


def _matching_items(conc: Conc, items: t.Sequence[Outcome], env: dict[Term, t.Any], out: list[t.Any]) -> list[t.Any]:
    for o in items:
        try:
            ok = True
            for a, tr in o.conds:
                if a[0] == "exc":
                    ok = False
                    break
                if bool(conc.val(a, env)) != tr:
                    ok = False
                    break
            if ok:
                v = conc.val(o.term, env)
                if v not in out:
                    out.append(v)
        except Raised as r:
            v = ("<raises>", r.kind)
            if v not in out:
                out.append(v)
    return out


def _exc_name(t_: Term) -> str:
    if t_[0] == "call":
        t_ = t_[1]
    if t_[0] == "g":
        return t_[1].rsplit(".", 1)[-1]
    return "Exception"


# ---------------------------------------------------------------------------------------------------------------
# RFC 9110 5.6.4 quoted-string reference (trusted constant of the checker)


def rfc_quote(s: str) -> str:
    return '"' + s.replace("\\", "\\\\").replace('"', '\\"') + '"'


def rfc_unquote_full(w: str) -> str | None:
    """decode w as exactly one quoted-string; None when w is not one."""
    if len(w) < 2 or w[0] != '"':
        return None
    out = []
    i = 1
    while i < len(w):
        ch = w[i]
        if ch == "\\":
            if i + 1 >= len(w):
                return None
            out.append(w[i + 1])
            i += 2
        elif ch == '"':
            return "".join(out) if i == len(w) - 1 else None
        else:
            out.append(ch)
            i += 1
    return None


def samples(alphabet: t.Iterable[str], maxlen: int) -> list[str]:
    al = sorted(set(alphabet))
    out = []
    for n in range(1, maxlen + 1):
        for tup in itertools.product(al, repeat=n):
            out.append("".join(tup))
    return out
