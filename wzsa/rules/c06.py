"""C06 - every HTTP header serialiser is inverted by its parser (quoting layer and framing constants)."""

from __future__ import annotations

import ast
import re

from .. import astq
from ..fold import Folder, RegexConst, Unfoldable, classes_in, single_class
from ..loader import AnalysisError, FuncInfo, dotted, norm, walk_no_nested
from ..report import Ctx
from ._shared import optional_int_rule

LEVEL_TEXT = (
    "Static decision of the quoting layer and framing constants behind C06: (R6.1) the alphabet that quote_header_value "
    "leaves unquoted is contained in every parser's token class and disjoint from all separators; (R6.2) the escape "
    "chain (backslash first, then quote) and every unquoting chain carry the inverse pairs; (R6.3) the empty value is "
    "emitted as a quoted empty string; (R6.4) the inclusive/exclusive offsets of Range / Content-Range writers and "
    "parsers cancel; (R6.5) separators written by CSP / ETag / HeaderSet / Range serialisers are the ones their parsers "
    "split on, and the ETag regex reads both written forms; (R6.6) each typed header's to_header and parser reach the "
    "paired shared dumper / parser. It decides these necessary structural conditions, not the round-trip law over all "
    "values (dates, base64 credentials, cache-control typing are delegated to library code and not decided)."
)
TRUSTED = ["CPython ast and re._parser", "RFC 9110 section 5.6.2 token / 5.6.4 quoted-string tables embedded as constants", "urllib.request.parse_http_list drops the backslash of an escaped character inside quotes"]
ASSUMPTIONS = ["keys are tokens free of '*' (as the property states)", "option values do not contain the literal %22"]

RFC_TCHAR = frozenset("!#$%&'*+-.^_`|~0123456789ABCDEFGHIJKLMNOPQRSTUVWXYZabcdefghijklmnopqrstuvwxyz")
SEPARATORS = frozenset('"\\,;= \t')


def _replace_chain(expr: ast.AST) -> list[tuple[str, str]] | None:
    ch = astq.method_chain(expr)
    out = []
    for name, c in ch:
        if name == "replace" and len(c.args) >= 2:
            a, b = astq.const_str(c.args[0]), astq.const_str(c.args[1])
            if a is None or b is None:
                return None
            out.append((a, b))
    return out


def _all_replace_chains(fn: ast.AST) -> list[tuple[ast.AST, list[tuple[str, str]]]]:
    """outermost replace chains in a function."""
    res = []
    for c in astq.method_calls(fn, "replace"):
        p = astq.parent(c)
        if isinstance(p, ast.Attribute) and p.attr == "replace":
            continue  # inner link
        ch = _replace_chain(c)
        if ch:
            res.append((c, ch))
    return res


def _with_helpers(fi: FuncInfo) -> list[FuncInfo]:
    """fi plus the module-level private helpers it calls (one level): an extracted helper is read as part of fi."""
    out = [fi]
    for c in astq.calls(fi.node):
        d = dotted(c.func)
        if d and d.startswith("_") and d in fi.module.functions and fi.module.functions[d] not in out:
            out.append(fi.module.functions[d])
    return out


def _calls_resolved(ctx: Ctx, fi: FuncInfo, follow: bool = True) -> set[str]:
    if follow:
        res: set[str] = set()
        for g in _with_helpers(fi):
            res |= _calls_resolved(ctx, g, follow=False)
        return res
    return _calls_resolved_one(ctx, fi)


def _calls_resolved_one(ctx: Ctx, fi: FuncInfo) -> set[str]:
    li = fi.module.local_imports(fi.node)
    out = set()
    for c in astq.calls(fi.node):
        d = dotted(c.func)
        if d:
            fq = ctx.repo.resolve(fi.module, d, li)
            if fq:
                out.add(fq)
        # map(http.quote_header_value, ...) style references
        for a in c.args:
            d2 = dotted(a)
            if d2 and "." in d2 or (d2 and d2 in fi.module.imports):
                fq = ctx.repo.resolve(fi.module, d2, li)
                if fq:
                    out.add(fq)
    return out


def run(ctx: Ctx) -> None:
    repo = ctx.repo
    folder = Folder(repo)
    http = repo.module("http")
    for rid, text in {
        "R6.1": "alphabet left bare by quote_header_value is within RFC tchar, within the token class of every option/list parser, and disjoint from separators",
        "R6.2": "quote chain is [backslash->2 backslashes, quote->backslash quote] in that order; each unquote chain has both inverse pairs",
        "R6.3": "empty value is emitted as a quoted empty string",
        "R6.4": "Range / Content-Range writers print stop-1 and parsers store value+1 (offsets cancel)",
        "R6.5": "separator constants written by serialisers equal the ones their parsers split on; _etag_re reads both written ETag forms",
        "R6.6": "typed header to_header / parser reach the paired shared dumper / parser",
    }.items():
        ctx.rule(rid, text)

    # ---------------- R6.1 / R6.2 / R6.3: quote_header_value ----------
    q = repo.func("http.quote_header_value")
    ctx.saw(q)
    sup = [c for c in astq.method_calls(q.node, "issuperset")]
    rxsup = [c for c in astq.method_calls(q.node, "fullmatch") + astq.method_calls(q.node, "match") + astq.method_calls(q.node, "search")]
    if len(sup) == 1 and not rxsup:
        recv = sup[0].func.value  # type: ignore[attr-defined]
        tname = dotted(recv)
        # follow one local alias: token_chars = _token_chars
        for _, v in astq.assigns_to(q.node, tname or ""):
            if v is not None and dotted(v):
                tname = dotted(v)
        T = folder.name(http, tname or "")
        if not isinstance(T, (set, frozenset)):
            raise AnalysisError(f"{tname} does not fold to a set")
        T = frozenset(T)
    elif len(rxsup) == 1 and not sup:
        # regex form of the same test: the bare alphabet is the class of the pattern (must be a full match)
        sup = rxsup
        tname = dotted(sup[0].func.value)  # type: ignore[attr-defined]
        rxv = folder.name(http, tname or "")
        if not isinstance(rxv, RegexConst):
            raise AnalysisError(f"{tname} does not fold to a regex")
        cls_, rep_ = single_class(rxv, 0x3000)
        T = frozenset(chr(c) for c in cls_)
        ctx.ob("R6.1", "bare-token regex test is a full match", sup[0].func.attr == "fullmatch", f"{tname}.{sup[0].func.attr}(...)", q, sup[0], "bare test fullmatch")  # type: ignore[attr-defined]
    else:
        raise AnalysisError("quote_header_value: expected exactly one bare-token test (.issuperset(...) or <regex>.fullmatch(...))")
    # the bare return is guarded by the superset test and returns the string unchanged
    guard_if = astq.enclosing(sup[0], (ast.If,))
    bare_ok = isinstance(guard_if, ast.If) and any(isinstance(s, ast.Return) and isinstance(s.value, ast.Name) for s in guard_if.body)
    ctx.ob("R6.1", "bare return only under the token test", bare_ok, f"`if {norm(guard_if.test) if guard_if else '?'}: return <str>`", q, sup[0], "bare return guard")
    bad = sorted(T - RFC_TCHAR)
    ctx.ob("R6.1", "bare alphabet within RFC 9110 tchar", not bad, f"|T|={len(T)}; outside tchar: {bad}", q, sup[0], "T subset tchar")
    inter = sorted(T & SEPARATORS)
    ctx.ob("R6.1", "bare alphabet disjoint from separators", not inter, f"T & separators = {inter}", q, sup[0], "T disjoint separators")
    nonascii = [c for c in T if ord(c) > 127]
    ctx.ob("R6.1", "bare alphabet is ASCII", not nonascii, f"{nonascii}", q, sup[0], "T ascii")

    po = repo.func("http.parse_options_header")
    ctx.saw(po)
    tok_re = key_re = None
    for c in astq.method_calls(po.node, "match"):
        d = dotted(c.func.value)  # type: ignore[attr-defined]
        if not d:
            continue
        try:
            rx = folder.name(http, d)
        except Unfoldable:
            continue
        if not isinstance(rx, RegexConst):
            continue
        try:
            cls, rep = single_class(rx, 256)
            if rep[0] >= 1 and rep[1] > 1000:
                tok_re = (d, rx, cls, c)
                continue
        except Unfoldable:
            pass
        items = list(rx.parsed())
        if len(items) == 2 and str(items[1][0]) == "LITERAL" and items[1][1] == ord("="):
            kc = classes_in(rx, 256)
            if len(kc) == 1:
                key_re = (d, rx, kc[0], c)
    if tok_re is None or key_re is None:
        raise AnalysisError("parse_options_header: token-value / key regex slots not found")
    tcls = {chr(c) for c in tok_re[2]}
    ctx.ob("R6.1", "option parser token class contains the bare alphabet", T <= tcls, f"{tok_re[0]} class has {len(tcls)} chars; T - class = {sorted(T - tcls)}", po, tok_re[3], "token class superset")
    ctx.ob("R6.1", "option parser token class stops at separators", not (tcls & set(';"')), f"class & {{; \"}} = {sorted(tcls & set(';\"'))}", po, tok_re[3], "token class stops")
    kcls = {chr(c) for c in key_re[2]}
    ctx.ob("R6.1", "option parser key class contains the token alphabet and not '='", T <= kcls and "=" not in kcls, f"{key_re[0]}: T - class = {sorted(T - kcls)}", po, key_re[3], "key class")
    # the match must be anchored at the start of the rest (match, not search) - by construction of the slot search
    # quoted alternative: rest[:1] == '"' is tested when the token regex fails
    has_quoted_alt = any(norm(n) == "rest[:1] == '\"'" for n in ast.walk(po.node) if isinstance(n, ast.Compare))
    ctx.ob("R6.1", "option parser tries the quoted form when the token form fails", has_quoted_alt, "elif rest[:1] == '\"'", po, po.node, "quoted alternative")

    # R6.2
    chains = _all_replace_chains(q.node)
    want_q = [("\\", "\\\\"), ('"', '\\"')]
    okq = len(chains) == 1 and chains[0][1] == want_q
    ctx.ob("R6.2", "quote chain escapes backslash first, then quote", okq, f"chains={[c for _, c in chains]}", q, chains[0][0] if chains else q.node, "quote chain")
    # result wrapped in quotes
    rets = astq.returns_of(q.node)
    wrap = [r for r in rets if isinstance(r.value, ast.JoinedStr) and len(r.value.values) == 3 and astq.const_str(r.value.values[0]) == '"' and astq.const_str(r.value.values[2]) == '"']
    ctx.ob("R6.2", "escaped value wrapped in double quotes", len(wrap) == 1 and bool(chains) and wrap[0].lineno > chains[0][0].lineno, "return f'\"{value_str}\"' after the chain", q, q.node, "quote wrap")
    inv = {("\\\\", "\\"), ('\\"', '"')}
    n_unq = 0
    for fq in ("http.unquote_header_value", "http.parse_options_header"):
        f = repo.func(fq)
        ctx.saw(f)
        chs = _all_replace_chains(f.node)
        good = [c for c in chs if inv <= set(c[1])]
        n_unq += len(good)
        ctx.ob("R6.2", f"{f.name} unquote chain has both inverse pairs", len(good) >= 1, f"chains={[c for _, c in chs]}", f, good[0][0] if good else f.node, "unquote chain")
        for node, ch in good:
            extra = [p for p in ch if p not in inv and p != ("%22", '"')]
            ctx.ob("R6.2", f"{f.name} unquote chain has no other rewriting", not extra, f"extra pairs {extra}", f, node, "unquote chain extras")
            # chain root strips the surrounding quotes: x[1:-1]
            root = node
            while isinstance(root, ast.Call) and isinstance(root.func, ast.Attribute) and root.func.attr == "replace":
                root = root.func.value
            strip_ok = isinstance(root, ast.Subscript) and norm(root.slice) == "1:-1" or isinstance(root, ast.Name) and any(v is not None and isinstance(v, ast.Subscript) and norm(v.slice) == "1:-1" for _, v in astq.assigns_to(f.node, root.id))
            ctx.ob("R6.2", f"{f.name} strips exactly the surrounding quotes before unescaping", bool(strip_ok), norm(root), f, node, "unquote strip")
    # list parser: quotes stripped, escapes undone by the stdlib splitter
    pl = repo.func("http.parse_list_header")
    ctx.saw(pl)
    uses_std = "urllib.request.parse_http_list" in _calls_resolved(ctx, pl)
    strip = any(isinstance(n, ast.Subscript) and norm(n.slice) == "1:-1" for n in ast.walk(pl.node))
    ctx.ob("R6.2", "parse_list_header splits with parse_http_list and strips quotes", uses_std and strip, f"parse_http_list={uses_std}, [1:-1]={strip}", pl, pl.node, "list parser")
    pd = repo.func("http.parse_dict_header")
    ctx.saw(pd)
    ctx.ob("R6.2", "parse_dict_header builds on parse_list_header and partitions at the first '='", "werkzeug.http.parse_list_header" in _calls_resolved(ctx, pd) and any(astq.const_str(c.args[0]) == "=" for c in astq.method_calls(pd.node, "partition") if c.args), "", pd, pd.node, "dict parser")

    # R6.3
    empties = []
    for n in ast.walk(q.node):
        if isinstance(n, ast.If) and isinstance(n.test, ast.UnaryOp) and isinstance(n.test.op, ast.Not):
            for s in n.body:
                if isinstance(s, ast.Return) and astq.const_str(s.value) == '""':
                    empties.append(n)
    ctx.ob("R6.3", "empty value emitted as \"\"", len(empties) == 1 and empties[0].lineno < sup[0].lineno, "if not value_str: return '\"\"' before the token test", q, empties[0] if empties else q.node, "empty value")

    # ---------------- R6.4 offsets --------------------------------------
    n64 = 0
    for wfq, desc in (("datastructures.range.Range.to_header", "Range"), ("datastructures.range.ContentRange.to_header", "Content-Range"), ("datastructures.range.Range.to_content_range_header", "Range->Content-Range")):
        f = repo.func(wfq)
        ctx.saw(f)
        offs = _fstring_offsets(f.node)
        n64 += 1
        ctx.ob("R6.4", f"{desc} writer prints stop - 1", offs == [-1], f"integer offsets inside f-strings: {offs}", f, f.node, "writer offset")
    for pfq, var, desc in (("http.parse_range_header", "end", "Range"), ("http.parse_content_range_header", "stop", "Content-Range")):
        f = repo.func(pfq)
        ctx.saw(f)
        offs = []
        for s_, v in astq.assigns_to(f.node, var, nested=True):
            if v is None or astq.is_none(v):
                continue
            cands = [v] if not isinstance(v, ast.IfExp) else [v.body, v.orelse]
            for cnd in cands:
                if astq.is_none(cnd):
                    continue
                if isinstance(cnd, ast.BinOp) and isinstance(cnd.right, ast.Constant) and isinstance(cnd.right.value, int) and isinstance(cnd.left, ast.Call):
                    offs.append(cnd.right.value if isinstance(cnd.op, ast.Add) else -cnd.right.value if isinstance(cnd.op, ast.Sub) else None)
                elif isinstance(cnd, ast.Call):
                    offs.append(0)
        n64 += 1
        ctx.ob("R6.4", f"{desc} parser stores value + 1", offs == [1], f"offsets applied to `{var}`: {offs}", f, f.node, "parser offset")
    ctx.floor("R6.4", "offset sites", n64, 5)
    for cn in ("ContentRange", "Range"):
        optional_int_rule(ctx, "R6.4", repo.cls(f"datastructures.range.{cn}"))

    # ---------------- R6.5 separators -------------------------------------
    dc = repo.func("http.dump_csp_header")
    pc = repo.func("http.parse_csp_header")
    ctx.saw(dc, pc)
    joins = [astq.const_str(c.func.value) for c in astq.method_calls(dc.node, "join")]  # type: ignore[attr-defined]
    inner = None
    for n in ast.walk(dc.node):
        if isinstance(n, ast.JoinedStr) and len(n.values) == 3:
            inner = astq.const_str(n.values[1])
    splits = [(astq.const_str(c.args[0]) if c.args else None, len(c.args)) for c in astq.method_calls(pc.node, "split")]
    ok = joins == ["; "] and inner == " " and (";", 1) in splits and (" ", 2) in splits
    ctx.ob("R6.5", "CSP separators agree", ok, f"writer joins {joins} with inner {inner!r}; parser splits {splits}", dc, dc.node, "csp separators")

    et = repo.func("datastructures.etag.ETags.to_header")
    pe = repo.func("http.parse_etags")
    ctx.saw(et, pe)
    forms = sorted({"".join(v.value if isinstance(v, ast.Constant) else "x" for v in n.values) for n in ast.walk(et.node) if isinstance(n, ast.JoinedStr)})
    ejoin = [astq.const_str(c.func.value) for c in astq.method_calls(et.node, "join")]  # type: ignore[attr-defined]
    ctx.ob("R6.5", "ETags written as \"x\" and W/\"x\" joined by ', '", forms == ['"x"', 'W/"x"'] and ejoin == [", "], f"forms={forms} join={ejoin}", et, et.node, "etag forms")
    erx = None
    for c in astq.method_calls(pe.node, "match"):
        d = dotted(c.func.value)  # type: ignore[attr-defined]
        if d:
            v = folder.name(http, d)
            if isinstance(v, RegexConst):
                erx = (d, v)
    if erx is None:
        raise AnalysisError("parse_etags: regex slot not found")
    cre = re.compile(erx[1].pattern, erx[1].flags)
    sample = '"a b", W/"c,d", "e"'
    got = []
    pos = 0
    while pos < len(sample):
        m = cre.match(sample, pos)
        if m is None or m.end() == pos:
            break
        got.append(m.groups())
        pos = m.end()
    exp = [(None, "a b", None), ("W/", "c,d", None), (None, "e", None)]
    ctx.ob("R6.5", "_etag_re reads both written forms and the ', ' separator", got == exp, f"{erx[0]} over the writer's constant forms {sample!r} -> {got}", pe, pe.node, "etag regex")
    # unpack order and use: is_weak, quoted, raw
    r_ok, r_fact = _etag_routing(pe)
    ctx.ob("R6.5", "parse_etags routes weak/strong by the W/ group and keeps the quoted text when present", r_ok, r_fact, pe, pe.node, "etag routing")
    qe = repo.func("http.quote_etag")
    ue = repo.func("http.unquote_etag")
    ctx.saw(qe, ue)
    refuses = any(isinstance(n, ast.If) and norm(n.test) == "'\"' in etag" and astq.raises_of(n) for n in ast.walk(qe.node))
    ctx.ob("R6.5", "quote_etag refuses a value containing a quote", refuses, "if '\"' in etag: raise", qe, qe.node, "etag quote refusal")
    pre = [norm(c.args[0]) for c in astq.method_calls(ue.node, "startswith") if c.args]
    ctx.ob("R6.5", "unquote_etag strips the W/ prefix quote_etag writes", any("'W/'" in p for p in pre) and any(norm(n) == "f'W/{etag}'" for n in ast.walk(qe.node) if isinstance(n, ast.JoinedStr)), f"prefixes {pre}", ue, ue.node, "etag prefix")

    hs = repo.func("datastructures.structures.HeaderSet.to_header")
    ps = repo.func("http.parse_set_header")
    ctx.saw(hs, ps)
    hj = [astq.const_str(c.func.value) for c in astq.method_calls(hs.node, "join")]  # type: ignore[attr-defined]
    ctx.ob("R6.5", "HeaderSet joined with ', ' of quoted items, parsed by the list parser", hj == [", "] and "werkzeug.http.quote_header_value" in _calls_resolved(ctx, hs) and "werkzeug.http.parse_list_header" in _calls_resolved(ctx, ps), f"join={hj}", hs, hs.node, "headerset")
    for fq, sep, label in (("http.dump_header", ", ", "dump_header"), ("http.dump_options_header", "; ", "dump_options_header")):
        dh = repo.func(fq)
        ctx.saw(dh)
        fam = _with_helpers(dh)
        dj = sorted({astq.const_str(c.func.value) for c in astq.method_calls(dh.node, "join")} - {None})  # type: ignore[attr-defined]
        fstrs = [n for g in fam for n in ast.walk(g.node) if isinstance(n, ast.JoinedStr)]
        kv = sorted({"".join(v.value if isinstance(v, ast.Constant) else "x" for v in n.values) for n in fstrs})
        ctx.ob("R6.5", f"{label} joins with {sep!r} and writes key=value", dj == [sep] and kv == ["x=x"], f"join={dj} forms={kv}", dh, dh.node, f"{label} separators")
        quoted_values = bool(fstrs) and all(_fstring_value_quoted(n) for n in fstrs if not _under_star_branch(n)) and any(_fstring_value_quoted(n) and not _under_star_branch(n) and len(n.values) == 3 for n in fstrs)
        ctx.ob("R6.5", f"{label} quotes every value except under a key ending in '*'", quoted_values, f"{len(fstrs)} key=value f-string(s) in {[g.name for g in fam]}", dh, dh.node, f"{label} quoting")
    semis = [c for c in astq.method_calls(po.node, "partition") + astq.method_calls(po.node, "find") if c.args and astq.const_str(c.args[0]) == ";"]
    ctx.ob("R6.5", "parse_options_header cuts at ';'", len(semis) >= 2, f"{len(semis)} uses of ';'", po, po.node, "options separators")

    rt = repo.func("datastructures.range.Range.to_header")
    pr = repo.func("http.parse_range_header")
    ctx.saw(rt, pr)
    rj = [astq.const_str(c.func.value) for c in astq.method_calls(rt.node, "join")]  # type: ignore[attr-defined]
    rsplits = sorted({astq.const_str(c.args[0]) for c in astq.method_calls(pr.node, "split") + astq.method_calls(pr.node, "partition") if c.args} - {None})
    ctx.ob("R6.5", "Range written units=a-b,c-d and split on = , -", rj == [","] and rsplits == [",", "-", "="], f"join={rj} splits={rsplits}", rt, rt.node, "range separators")

    # ---------------- R6.6 pairing ---------------------------------------
    pairs = [
        ("datastructures.cache_control._CacheControl.to_header", "werkzeug.http.dump_header"),
        ("http.parse_cache_control_header", "werkzeug.http.parse_dict_header"),
        ("datastructures.csp.ContentSecurityPolicy.to_header", "werkzeug.http.dump_csp_header"),
        ("datastructures.auth.Authorization.to_header", "werkzeug.http.dump_header"),
        ("datastructures.auth.Authorization.from_header", "werkzeug.http.parse_dict_header"),
        ("datastructures.auth.WWWAuthenticate.to_header", "werkzeug.http.dump_header"),
        ("datastructures.auth.WWWAuthenticate.to_header", "werkzeug.http.quote_header_value"),
        ("datastructures.auth.WWWAuthenticate.from_header", "werkzeug.http.parse_dict_header"),
        ("datastructures.range.IfRange.to_header", "werkzeug.http.http_date"),
        ("datastructures.range.IfRange.to_header", "werkzeug.http.quote_etag"),
        ("http.parse_if_range_header", "werkzeug.http.parse_date"),
        ("http.parse_if_range_header", "werkzeug.http.unquote_etag"),
        ("http.http_date", "email.utils.format_datetime"),
        ("http.parse_date", "email.utils.parsedate_to_datetime"),
        ("http.dump_options_header", "werkzeug.http.quote_header_value"),
        ("http.dump_header", "werkzeug.http.quote_header_value"),
    ]
    n66 = 0
    for src, dst in pairs:
        f = repo.func(src)
        ctx.saw(f)
        got_ = _calls_resolved(ctx, f)
        n66 += 1
        ctx.ob("R6.6", f"{src} reaches {dst}", dst in got_, f"resolved callees: {sorted(x for x in got_ if x.startswith(('werkzeug', 'email')))[:8]}", f, f.node, f"calls {dst}")
    ctx.floor("R6.6", "pairs", n66, 16)
    # Authorization basic: b64encode of "user:pass" utf-8 / b64decode(...).decode() partition ':'
    at = repo.func("datastructures.auth.Authorization.to_header")
    af = repo.func("datastructures.auth.Authorization.from_header")
    enc = "base64.b64encode" in _calls_resolved(ctx, at)
    dec = "base64.b64decode" in _calls_resolved(ctx, af) and any(astq.const_str(c.args[0]) == ":" for c in astq.method_calls(af.node, "partition") if c.args)
    colon = any(isinstance(n, ast.JoinedStr) and [astq.const_str(v) for v in n.values if isinstance(v, ast.Constant)] == [":"] for n in ast.walk(at.node))
    ctx.ob("R6.6", "Basic credentials: b64(user ':' pass) written, decoded and cut at the first ':'", enc and dec and colon, f"b64encode={enc} b64decode+partition(':')={dec} colon-join={colon}", at, at.node, "basic pairing")
    # scheme normal form: written .title(), read .lower()
    lower = any(isinstance(s, ast.Assign) and norm(s) == "scheme = scheme.lower()" for s in ast.walk(af.node))
    ctx.ob("R6.6", "auth scheme lower-cased on parse", lower, "scheme = scheme.lower()", af, af.node, "scheme lower")
    da, pa = repo.func("http.dump_age"), repo.func("http.parse_age")
    ctx.saw(da, pa)
    ctx.ob("R6.6", "age is written and read as a base-10 integer", any(dotted(c.func) == "str" for c in astq.calls(da.node)) and any(dotted(c.func) == "int" for c in astq.calls(pa.node)), "", da, da.node, "age pairing")


def _fstring_offsets(fn: ast.AST) -> list[int]:
    out = []
    for n in ast.walk(fn):
        if isinstance(n, ast.FormattedValue):
            for b in ast.walk(n.value):
                if isinstance(b, ast.BinOp) and isinstance(b.right, ast.Constant) and isinstance(b.right.value, int) and isinstance(b.op, (ast.Add, ast.Sub)):
                    out.append(b.right.value if isinstance(b.op, ast.Add) else -b.right.value)
    return out


def _etag_routing(pe: FuncInfo) -> tuple[bool, str]:
    """interpret one iteration of the parse loop for the four cases (weak?, quoted?) and see which list receives which text."""
    from ..cfg import cfg_of
    from ..guards import canon, simulate

    fn = pe.node
    unpack = [s for s in ast.walk(fn) if isinstance(s, ast.Assign) and isinstance(s.targets[0], ast.Tuple) and isinstance(s.value, ast.Call) and isinstance(s.value.func, ast.Attribute) and s.value.func.attr == "groups"]
    if len(unpack) != 1 or len(unpack[0].targets[0].elts) != 3 or not all(isinstance(e, ast.Name) for e in unpack[0].targets[0].elts):
        return False, "no `<weak>, <quoted>, <raw> = match.groups()` unpacking"
    W, Q, R = [e.id for e in unpack[0].targets[0].elts]
    rets = [r for r in astq.returns_of(fn) if isinstance(r.value, ast.Call) and (dotted(r.value.func) or "").endswith("ETags") and len(r.value.args) == 2]
    if len(rets) != 1:
        return False, "no `return ETags(<strong>, <weak>)`"
    strong, weak = norm(rets[0].value.args[0]), norm(rets[0].value.args[1])
    cfg = cfg_of(pe)
    start = cfg.node_of(unpack[0])
    facts = []
    ok = True
    for wv in (False, True):
        for qv in (False, True):
            truth = {W: wv, Q: qv}

            def val(k):
                if k in truth:
                    return truth[k]
                if k.endswith(" is None"):
                    return False
                if "'*'" in k:
                    return False
                return None

            outs = simulate(cfg, val, start=start)
            got = set()
            for o in outs:
                env = {W: "W", Q: "Q", R: "R", strong: strong, weak: weak}

                def ev(e):
                    if isinstance(e, ast.Name):
                        return env.get(e.id, e.id)
                    if isinstance(e, ast.IfExp):
                        t_ = ev(e.test)
                        tv = {"W": wv, "Q": qv}.get(t_)
                        return ev(e.body if tv else e.orelse) if tv is not None else "?"
                    if isinstance(e, ast.BoolOp) and isinstance(e.op, ast.Or):
                        for v_ in e.values[:-1]:
                            x = ev(v_)
                            tv = {"W": wv, "Q": qv}.get(x, True if x == "R" else None)
                            if tv:
                                return x
                        return ev(e.values[-1])
                    return norm(e)

                for n_ in o.passed[1:]:
                    a = n_.ast
                    if n_.kind != "stmt" or a is None:
                        continue
                    if isinstance(a, ast.Assign) and len(a.targets) == 1 and isinstance(a.targets[0], ast.Name):
                        env[a.targets[0].id] = ev(a.value)
                    if isinstance(a, ast.Expr) and isinstance(a.value, ast.Call) and isinstance(a.value.func, ast.Attribute) and a.value.func.attr == "append" and a.value.args:
                        got.add((ev(a.value.func.value), ev(a.value.args[0])))
                    if n_ is not start and isinstance(a, ast.Assign) and a is unpack[0]:
                        break
            want = {(weak if wv else strong, "Q" if qv else "R")}
            facts.append(f"weak={wv}, quoted={qv}: {sorted(got)}")
            if got != want:
                ok = False
    # the wildcard is the *unquoted* '*' only: the value compared with '*' must be the raw group itself
    from ..dataflow import ReachingDefs

    rd = ReachingDefs(cfg, pe.params)
    stars = [t for t in cfg.tests() if t.kind == "test" and isinstance(t.ast, ast.Compare) and len(t.ast.ops) == 1 and any(astq.const_str(x) == "*" for x in (t.ast.left, t.ast.comparators[0]))]
    star_ok = bool(stars)
    for t in stars:
        other = t.ast.left if astq.const_str(t.ast.comparators[0]) == "*" else t.ast.comparators[0]
        if not isinstance(other, ast.Name):
            star_ok = False
            continue
        defs = rd.reaching(t, other.id)
        star_ok = star_ok and bool(defs) and all(d.stmt is unpack[0] and d.index == 2 for d in defs)
    facts.append(f"'*' is compared with the raw (unquoted) group only: {star_ok}")
    return ok and star_ok, "; ".join(facts) + f" (lists: strong=`{strong}`, weak=`{weak}`; Q = quoted group, R = raw group)"


def _under_star_branch(n: ast.AST) -> bool:
    cur = astq.parent(n)
    child = n
    while cur is not None:
        if isinstance(cur, ast.If) and "key[-1] == '*'" in norm(cur.test):
            # in body (true branch)?
            for s in cur.body:
                if any(x is child for x in ast.walk(s)):
                    return True
        child = cur
        cur = astq.parent(cur)
    return False


def _fstring_value_quoted(n: ast.JoinedStr) -> bool:
    """f"{key}={quote_header_value(value)}": the part after '=' is a call to quote_header_value."""
    vals = n.values
    if len(vals) == 3 and astq.const_str(vals[1]) == "=" and isinstance(vals[2], ast.FormattedValue):
        v = vals[2].value
        return isinstance(v, ast.Call) and (dotted(v.func) or "").endswith("quote_header_value")
    return True  # not a key=value f-string
