"""C06 - every HTTP header serialiser is inverted by its parser (quoting layer and framing constants).

The rules do not look at how a serialiser or parser is spelled.  Each function of interest is turned into a symbolic
summary (`_c06_helpers`: per path the condition and the returned term, private helpers inlined, loops abstracted to
"collection of items, each with its own condition").  Rules then either inspect the terms (which separator constants
does the written template contain, which call wraps a value, which offset is applied to the exclusive stop) or evaluate
the summary of a small pure string function - or of the per-element part of a parser loop - on an exhaustive set of
short strings over the characters that matter (bounded check of the round trip through the two summaries).  Two laws
need the loops themselves (the scanner of parse_options_header; the item-to-item state of parse_range_header): R6.7 and
R6.8 evaluate writer and reader as whole functions, statement by statement over constants (`_c06_helpers.Machine`), on
finite families of values chosen by shape class; R6.10 does the same for the typed single values (HTTP dates, ages,
If-Range as date or entity tag; datetime values are constants to the Machine).  R6.9 is a discipline over *all* writers of
the quoted-string grammars: whatever text a template places between literal double quotes must be the escaped form of
its value (bounded evaluation of that text's term).
"""

from __future__ import annotations

import ast
import datetime as _dtm
import re
import typing as t

from .. import astq
from ..cfg import cfg_of
from ..fold import Folder, RegexConst, Unfoldable, classes_in, single_class
from ..loader import AnalysisError, FuncInfo, dotted, norm
from ..report import Ctx
from . import _c06_helpers as H
from ._c06_helpers import NONE, C, Conc, Raised, Summaries, Summary, Term, coll_items, cv, is_c, is_cstr, show, show_conds, walk, walk_deep
from ._shared import optional_int_rule

LEVEL_TEXT = (
    "Static decision of the quoting layer and framing constants behind C06, on symbolic summaries of the functions "
    "(path condition -> returned term; private helpers inlined, loops abstracted; a private generator helper is read as "
    "the loop that produces its items - fused into the loop that consumes it, or as the list of what it yields - and a "
    "two-entry table indexed by a truth value as the choice between its entries; a `for` over a short sequence known in "
    "full - a tuple / list display, a constant tuple of the module - as the sequence of its iterations; a function defined "
    "inside a function as a helper whose free variables are bound where it is called; a text / number constant of the "
    "module as that constant; `with contextlib.suppress(..)` as try / except / pass; map / filter / starmap over a private "
    "helper passed by name as the generator expression; a writer that returns the result of another public writer as it "
    "is, as that writer with the arguments put in), independent of how they are spelled: "
    "(R6.1) the alphabet that quote_header_value leaves unquoted is contained in RFC tchar and in every option parser's "
    "token class and disjoint from all separators, and the bare return is taken only under that test (a token test that "
    "is none of the recognised spellings is decided by evaluation: the alphabet is then every character of a value the "
    "default call returns unchanged, over all one-character strings below U+3000 and all strings up to length 3 over two "
    "of them plus the separators; where no test of the first character after `=` is written out, the quoted alternative "
    "is decided by evaluating parse_options_header on 7 headers with quoted values); where a summary abstracts too much "
    "to be evaluated (a text assembled piece by piece in a list) the function itself is evaluated statement by statement; (R6.2) on every "
    "string up to length 4 over {backslash, quote, letter, ';', ',', space, and every character a rewriting constant "
    "mentions - arguments of replace and the entries of a translate table, i.e. a dict or str.maketrans(...) constant "
    "of the module, a local or an inline one} the quoted form is an RFC 9110 quoted-string that decodes to the value, and unquote_header_value, the "
    "value step of parse_options_header and the item steps of parse_list_header / parse_dict_header give the value back "
    "(no second unescaping after urllib's splitter); (R6.3) the empty value is emitted as a quoted empty string; (R6.4) "
    "Range / Content-Range writers print the exclusive stop minus 1 wherever they print it and the parsers store the "
    "parsed number plus 1 in the stop slot of the object they build; (R6.5) separators written by CSP / ETag / HeaderSet "
    "/ Range / dump_header / dump_options_header are the ones their parsers cut on (CSP and ETag by evaluating the "
    "parser's element step / regex on text composed from the writer's constants), key=value items quote the value "
    "unless the key ends in '*', parse_etags routes by the W/ group and compares only the raw group with '*', "
    "unquote_etag inverts quote_etag on a bounded sample; (R6.6) the value returned by each typed header's to_header / "
    "parser contains the call of the paired shared dumper / parser, Basic credentials are b64(user ':' pass) both ways, "
    "and the auth scheme is stored lower-cased; (R6.7) whole-function law, evaluated statement by statement on constants "
    "(scanner loop of parse_options_header included: key, token or quoted value, advance to the next section): "
    "parse_options_header(dump_options_header(h, d)) == (h, d) for every d of a finite family - one option with every "
    "string up to length 3 (thorough tier: 4) over {backslash, quote, letter, ';', ',', '=', space}, options whose quoted "
    "value contains a delimiter followed by a parameter look-alike (own key, another option's key, a new key, RFC 2231 "
    "forms) next to a genuine option, and two / three options with delimiters and escapes in the values; (R6.8) "
    "whole-function law on the shape classes of the typed range values: parse_range_header(Range(u, rs).to_header()) "
    "and parse_content_range_header(ContentRange(..).to_header()) build an object of the same class with equal "
    "attributes, for closed ranges from byte 0 and from a positive byte (one byte long and longer), open-ended ranges "
    "from 0 and from a positive byte, suffix ranges, several ranges ending closed / open-ended / suffix, and content "
    "ranges with start/stop and length set or unset (length 0 included); (R6.9) quoting discipline over all writers of "
    "the quoted-string grammars (quote_header_value, dump_header, dump_options_header, HeaderSet / Cache-Control / "
    "Authorization / WWW-Authenticate to_header; private helpers inlined, public package functions whose result is part "
    "of the text followed): wherever a non-constant text stands between literal double quotes of the written template "
    "(f-string, concatenation, % / format), '\"' + text + '\"' decodes as an RFC 9110 quoted-string to the value the text is "
    "computed from, on every string up to length 3 over {backslash, quote, letter, ',', ' '} that satisfies the "
    "conditions the text is written under - a value interpolated raw, or escaped for one of the two characters only, "
    "fails (a quoted text assembled fragment by fragment in a list has no template: the writer itself is evaluated on those strings, a quoted result must decode to the value); the entity-tag writers are exempt (their reader takes the quoted text literally, the domain has no '\"' in "
    "tags); (R6.10) whole-function laws for typed single values, evaluated by the Machine with CPython's datetime / "
    "email.utils semantics on constants: parse_date(http_date(d)) is the aware datetime of the same instant and "
    "parse_if_range_header(IfRange(date=d).to_header()) carries that date and no tag, for naive datetimes on every "
    "weekday of every month plus years 1000 / 9999 and aware ones at UTC, +05:30, -08:00, +14:00, -12:00; IfRange(tag) "
    "comes back as that tag and no date for tags beginning like weekday names or the weak marker and for tags whose text "
    "is an HTTP date; IfRange() stays empty; re-serialising a parsed If-Range text (weak / strong / unquoted tags, dates "
    "in several spellings) and parsing again gives the same value; parse_age(dump_age(x)) is x whole seconds for int and "
    "timedelta x. It decides these necessary conditions, not the "
    "round-trip law over all values: R6.7 / R6.8 are decided for the members of their families only (a finite sample of "
    "the domain chosen by shape class, not all strings / integers; non-ASCII text, '*'-suffixed keys and %-encoded "
    "continuations are not in the families; R6.10 likewise for the listed dates, tags and ages - sub-second values, "
    "offsets that leave the year range and timestamps given as int / float / struct_time are not in them); what "
    "email.utils / datetime do is trusted, base64 credentials and cache-control typing are delegated to library code and "
    "not decided; the round trip of Authorization / WWW-Authenticate objects as wholes is not evaluated (their "
    "parameter container is not modelled) - R6.5 / R6.6 / R6.9 decide their quoting and pairing; the item loops of parse_list_header / parse_dict_header are decided per item (R6.2), "
    "not as whole functions."
)
TRUSTED = [
    "CPython ast and re._parser; semantics of builtin str / bytes / frozenset methods and of `re` applied to constants folded from the source",
    "RFC 9110 section 5.6.2 token / 5.6.4 quoted-string tables embedded as constants",
    "urllib.request.parse_http_list keeps the quotes of a quoted item and drops the backslash of an escaped character inside them",
    "CPython's datetime arithmetic and email.utils.format_datetime / parsedate_to_datetime applied to constants (R6.10); operations on naive datetimes that depend on the host's time zone are refused, not evaluated",
    "the Machine of _c06_helpers (R6.7 / R6.8 / R6.10): its reading of Python statements and expressions over constants; it never imports the package - functions and classes of werkzeug exist only as syntax trees, instances as attribute records, generator functions as bodies suspended at their yields (resumed strictly in turn with their consumer)",
]
ASSUMPTIONS = ["keys are tokens free of '*' (as the property states)", "option values do not contain the literal %22"]

RFC_TCHAR = frozenset("!#$%&'*+-.^_`|~0123456789ABCDEFGHIJKLMNOPQRSTUVWXYZabcdefghijklmnopqrstuvwxyz")
SEPARATORS = frozenset('"\\,;= \t')
BASE_ALPHABET = "\\\"a;,= "
CUT_METHODS = ("split", "rsplit", "partition", "rpartition", "find", "rfind", "index", "rindex")
RX_METHODS = ("match", "fullmatch", "search", "finditer", "findall", "sub", "split")


# ---------------------------------------------------------------------------------------------------------------
# small term queries


def _gfq(t_: Term) -> str | None:
    return t_[1] if isinstance(t_, tuple) and len(t_) == 2 and t_[0] == "g" else None


def _is_call_to(t_: Term, last: str) -> bool:
    return t_[0] == "call" and (_gfq(t_[1]) or "").rsplit(".", 1)[-1] == last


def _arg(call: Term, pos: int, name: str) -> Term | None:
    for kw in call[3]:
        if kw[1] == name:
            return kw[2]
    return call[2][pos] if pos < len(call[2]) else None


def _parts(t_: Term) -> list[Term]:
    return list(t_[1]) if t_[0] == "cat" else [t_]


def _const_parts(t_: Term) -> list[str]:
    return [cv(p) for p in _parts(t_) if is_cstr(p)]


def _replace_consts(terms: t.Iterable[Term], conc: Conc | None = None) -> list[tuple[str, str]]:
    """(old, new) of every constant rewriting the terms apply to a string: ``.replace(old, new)`` and, read off the
    table, every entry of a ``.translate(table)`` (table = a folded ``str.maketrans(...)`` / dict constant)."""
    out = []
    for x in terms:
        if x[0] == "meth" and x[1] == "replace" and len(x[3]) >= 2 and is_cstr(x[3][0]) and is_cstr(x[3][1]):
            out.append((cv(x[3][0]), cv(x[3][1])))
        elif x[0] == "meth" and x[1] == "translate" and len(x[3]) == 1 and conc is not None:
            try:
                table = H._as_mapping(conc.val(x[3][0], {}))
            except (H.Unknown, Raised) as ex:
                raise AnalysisError(f"translation table `{show(x[3][0])[:60]}` is not a constant of the source: {ex}")
            if not isinstance(table, dict):
                raise AnalysisError(f"translation table `{show(x[3][0])[:60]}` is a {type(table).__name__}, not a mapping")
            for k, v in table.items():
                k_ = chr(k) if isinstance(k, int) else k
                v_ = "" if v is None else chr(v) if isinstance(v, int) else v
                if not isinstance(k_, str) or not isinstance(v_, str):
                    raise AnalysisError(f"translation table entry {k!r}: {v!r} is not understood")
                out.append((k_, v_))
    return out


def _its(terms: t.Iterable[Term]) -> list[Term]:
    out: list[Term] = []
    for x in terms:
        if x[0] == "it" and x not in out:
            out.append(x)
    return out


def _element_term(summ: Summary, what: str, accept: t.Callable[[Term], bool]) -> Term:
    """the generic loop element ("it", X) of the parser loop whose collection X satisfies ``accept``."""
    cands = [x for x in _its(summ.terms_deep()) if accept(x[1])]
    if len(cands) != 1:
        raise AnalysisError(f"{summ.fi.name}: expected one loop over {what}, found {len(cands)}")
    return cands[0]


def _item_outcomes(summ: Summary, pred: t.Callable[[Term], bool]) -> list[H.Outcome]:
    """items of all collections reachable from the returned values, as pseudo-outcomes (loop-relative condition -> item)."""
    out: list[H.Outcome] = []
    seen: set[tuple] = set()
    for o in summ.returns:
        for x in walk_deep(o.term):
            items = coll_items(x)
            if items is None:
                continue
            for cs, it_ in sorted(items, key=repr):
                if pred(it_) and (cs, it_) not in seen:
                    seen.add((cs, it_))
                    out.append(H.Outcome("return", cs, it_, None))
    return out


def _first_bad(pairs: t.Iterable[tuple[t.Any, t.Any, t.Any]]) -> str:
    for inp, got, want in pairs:
        if got != want:
            return f"e.g. {inp!r} -> {got!r}, expected {want!r}"
    return "all samples agree"


def _apply(conc: Conc, summ: Summary, args: list[t.Any], kwargs: dict[str, t.Any] | None = None) -> t.Any:
    """value of the summarised function on constants; where the summary abstracts too much to be evaluated (a text
    assembled piecewise in a list, order-dependent), the function itself is evaluated statement by statement."""
    try:
        return conc.apply(summ, args, kwargs or {})
    except Raised as r:
        return ("<raises>", r.kind)
    except H.Unknown:
        machine = getattr(conc, "machine", None)
        if machine is None or summ.fi.cls is not None:
            raise
        return machine.outcome(lambda: machine.run(summ.fi, list(args), dict(kwargs or {})))


# ---------------------------------------------------------------------------------------------------------------


def run(ctx: Ctx) -> None:
    repo = ctx.repo
    folder = H.TableFolder(repo)
    sums = Summaries(repo, folder)
    conc = Conc(sums)
    machine = H.Machine(repo, folder)
    conc.machine = machine  # type: ignore[attr-defined]
    for rid, text in {
        "R6.1": "alphabet left bare by quote_header_value is within RFC tchar, within the token class of every option/list parser, and disjoint from separators",
        "R6.2": "the quoted form is an RFC quoted-string decoding to the value, and every unquoting step gives the value back (bounded check on summaries)",
        "R6.3": "empty value is emitted as a quoted empty string",
        "R6.4": "Range / Content-Range writers print stop-1 and parsers store value+1 (offsets cancel)",
        "R6.5": "separator constants written by serialisers are the ones their parsers cut on; key=value items quote the value; ETag forms are read back",
        "R6.6": "typed header to_header / parser return the result of the paired shared dumper / parser; Basic credentials and the scheme normal form agree",
        "R6.7": "whole-function law on a finite family: parse_options_header(dump_options_header(h, options)) == (h, options) for option values that place every delimiter, escape and parameter look-alike inside the quoted value (the scanner loop - key, value, advance to the next section - is evaluated statement by statement)",
        "R6.8": "whole-function law on a finite family: the text Range.to_header / ContentRange.to_header writes is read back by parse_range_header / parse_content_range_header as an equal object, for every shape class of the value (closed, open-ended from 0 and from a positive byte, suffix, several ranges; start/stop and length set or unset)",
        "R6.9": "quoting discipline of every writer of the quoted-string grammars (quote_header_value, dump_header, dump_options_header, HeaderSet / Cache-Control / Authorization / WWW-Authenticate to_header, private helpers inlined, public callees followed): a text placed between literal double quotes is the escaped form of the value it is computed from - '\"' + text + '\"' decodes as an RFC 9110 quoted-string to that value on every short string over backslash, quote, letter, comma, space",
        "R6.10": "whole-function laws on finite families of typed single values: parse_date(http_date(d)) is the aware datetime of the same instant; parse_if_range_header(IfRange(date=d).to_header()) carries that date and no tag - for naive datetimes on every weekday of every month and at the ends of the year range, and aware ones with UTC / positive / negative offsets; IfRange(tag) comes back as that tag and no date (tags that begin like a weekday name or the weak marker, tags that read as a date); the empty If-Range stays empty; re-serialising a parsed If-Range and parsing again is stable; parse_age(dump_age(x)) is the timedelta of x whole seconds",
    }.items():
        ctx.rule(rid, text)

    def S(fq: str) -> Summary:
        f = repo.func(fq)
        ctx.saw(f)
        return sums.of(f)

    # ---------------- R6.1 / R6.2 / R6.3: quote_header_value -----------
    Q = S("http.quote_header_value")
    q = Q.fi
    if not Q.params:
        raise AnalysisError("quote_header_value has no parameter")
    P = ("p", Q.params[0])
    subj = {P, ("cat", (P,))}
    flag = Q.params[1] if len(Q.params) > 1 else None
    bare = [o for o in Q.returns if o.term in subj]
    T: frozenset[str] = frozenset()
    guard_ok = True
    guard_facts = []
    for o in bare:
        tests = [r for a, tr in o.conds for r in [_alphabet_test(a, subj, conc)] if r is not None and r[1] == tr]
        if not tests:
            sem = _evaluated_alphabet(Q, conc)
            if sem is not None:
                T = T | sem
                guard_facts.append(f"bare return under `{show_conds(o.conds)}` (evaluated: the characters of the values it lets through)")
                continue
            other = [a for a, _ in o.conds if a not in subj and any(x in subj for x in walk_deep(a))]
            if other:
                raise AnalysisError(f"quote_header_value: the bare return is guarded by a test that is not understood: {show(other[0])}")
            guard_ok = False
            guard_facts.append(f"bare return under `{show_conds(o.conds)}` has no alphabet test")
            continue
        for tset, _, rxm in tests:
            T = T | tset
            guard_facts.append(f"bare return under `{show_conds(o.conds)}`")
            if rxm is not None:
                ctx.ob("R6.1", "bare-token regex test is a full match", rxm == "fullmatch", f"<regex>.{rxm}(...)", q, o.node, "bare test fullmatch")
    ctx.ob("R6.1", "bare return only under the token test", guard_ok, "; ".join(guard_facts) or "no bare return: every value is quoted", q, bare[0].node if bare else q.node, "bare return guard")
    anchor = bare[0].node if bare else q.node
    bad = sorted(T - RFC_TCHAR)
    ctx.ob("R6.1", "bare alphabet within RFC 9110 tchar", not bad, f"|T|={len(T)}; outside tchar: {bad[:12]}", q, anchor, "T subset tchar")
    inter = sorted(T & SEPARATORS)
    ctx.ob("R6.1", "bare alphabet disjoint from separators", not inter, f"T & separators = {inter}", q, anchor, "T disjoint separators")
    nonascii = sorted(c for c in T if ord(c) > 127)
    ctx.ob("R6.1", "bare alphabet is ASCII", not nonascii, f"{nonascii[:12]}", q, anchor, "T ascii")

    po = repo.func("http.parse_options_header")
    ctx.saw(po)
    tok_re, key_re = _option_regex_slots(ctx, folder, po)
    tcls = {chr(c) for c in tok_re[2]}
    ctx.ob("R6.1", "option parser token class contains the bare alphabet", T <= tcls and tok_re[3].func.attr in ("match", "fullmatch"), f"{tok_re[0]}.{tok_re[3].func.attr} class has {len(tcls)} chars; T - class = {sorted(T - tcls)}", tok_re[4], tok_re[3], "token class superset")
    ctx.ob("R6.1", "option parser token class stops at separators", not (tcls & set(';"')), f"class & {{; \"}} = {sorted(tcls & set(';\"'))}", tok_re[4], tok_re[3], "token class stops")
    kcls = {chr(c) for c in key_re[2]}
    ctx.ob("R6.1", "option parser key class contains the token alphabet and not '='", T <= kcls and "=" not in kcls, f"{key_re[0]}: T - class = {sorted(T - kcls)}", key_re[4], key_re[3], "key class")
    alt_ok, alt_fact = _quoted_alternative(po, tok_re, machine)
    ctx.ob("R6.1", "option parser tries the quoted form when the token form fails", alt_ok, alt_fact, po, po.node, "quoted alternative")

    # R6.2 / R6.3: bounded round trip through the summaries
    alphabet = set(BASE_ALPHABET)
    for c_ in _replace_consts(Q.terms_deep(), conc):
        alphabet |= set(c_[0]) | set(c_[1])
    U = S("http.unquote_header_value")
    for a_, b_ in _replace_consts(U.terms_deep(), conc):
        alphabet |= set(a_) | set(b_)
    smp = H.samples(alphabet, 4 if len(alphabet) <= 7 else 3)
    kw_quote = {flag: False} if flag else {}
    rows = []
    for s_ in smp:
        w = _apply(conc, Q, [s_], kw_quote)
        if not flag and w == s_:
            continue
        rows.append((s_, w))
    wrap_ok = all(isinstance(w, str) and len(w) >= 2 and w[0] == '"' == w[-1] for _, w in rows)
    dec = [(s_, H.rfc_unquote_full(w) if isinstance(w, str) else w, s_) for s_, w in rows]
    ctx.ob("R6.2", "escaped value is a quoted-string that decodes to the value (backslash escaped before quote)", all(g == w_ for _, g, w_ in dec), f"{len(rows)} strings over {sorted(alphabet)}: quote_header_value(s{', ' + flag + '=False' if flag else ''}) decoded by the RFC 9110 scanner; {_first_bad(dec)}", q, q.node, "quote chain")
    ctx.ob("R6.2", "escaped value wrapped in double quotes", wrap_ok, _first_bad((s_, w, "\"...\"") for s_, w in rows if not (isinstance(w, str) and len(w) >= 2 and w[0] == '"' == w[-1])), q, q.node, "quote wrap")
    dflt = []
    for s_ in smp:
        w = _apply(conc, Q, [s_], {})
        good = (w == s_ and set(s_) <= T) or (isinstance(w, str) and w != s_ and H.rfc_unquote_full(w) == s_)
        dflt.append((s_, w if not good else "ok", "ok"))
    ctx.ob("R6.2", "default call returns the value bare only when it is a token, else the quoted-string", all(g == "ok" for _, g, _ in dflt), _first_bad(dflt), q, q.node, "quote default path")

    rt = [(s_, _apply(conc, U, [H.rfc_quote(s_)]), s_) for s_ in [""] + smp]
    ctx.ob("R6.2", "unquote_header_value unquote chain has both inverse pairs", all(g == w_ for _, g, w_ in rt), f"unquote_header_value(RFC-quoted s) == s on {len(rt)} strings; {_first_bad(rt)}", U.fi, U.fi.node, "unquote chain")
    toks = H.samples("ab-", 3)
    keep = [(s_, _apply(conc, U, [s_]), s_) for s_ in toks] + [(f'"{s_}"', _apply(conc, U, [f'"{s_}"']), s_) for s_ in toks]
    ctx.ob("R6.2", "unquote_header_value strips exactly the surrounding quotes before unescaping", all(g == w_ for _, g, w_ in keep), _first_bad(keep), U.fi, U.fi.node, "unquote strip")

    # option parser: the value step of the second loop
    PO = S("http.parse_options_header")
    po_alpha = set(alphabet)
    for a_, b_ in _replace_consts(PO.terms_deep(), conc):
        if (a_, b_) != ("%22", '"'):
            po_alpha |= set(a_) | set(b_)
    po_smp = H.samples(po_alpha, 3)

    def scanned_pairs(PO_: Summary) -> tuple[list[H.Outcome], list[Term]]:
        kvs_ = _item_outcomes(PO_, lambda i: i[0] == "kv")
        # an iteration over a collection that has no item on its path (the list handed over before anything was
        # appended) stores nothing
        kvs_ = [o for o in kvs_ if not any(coll_items(x[1]) == frozenset() for x in _its(walk((o.term, o.conds))))]
        return kvs_, [x for x in _its(walk(tuple((o.term, o.conds) for o in kvs_))) if coll_items(x[1]) and all(i[0] == "tuple" and len(i[1]) == 2 for _, i in coll_items(x[1]))]  # type: ignore[union-attr]

    kvs, pair_its = scanned_pairs(PO)
    if len(pair_its) != 1 and sums.generators_read:
        # the scanner may sit in a generator helper: the value step is the loop over what that helper produces, so the
        # helper is read as the function returning the list of scanned pairs (not fused into the consuming loop)
        kvs, pair_its = scanned_pairs(Summaries(repo, folder, fuse_generators=False).of(PO.fi))
    if not kvs:
        raise AnalysisError("parse_options_header: no option is stored")
    if not pair_its:
        raise AnalysisError("parse_options_header: no loop over the scanned (key, value) pairs is found")
    # several collections of scanned pairs = the scanner hands its list over on several paths (a helper that returns it
    # from inside its loop): the element of each of them is the scanned pair

    def scanned(pair: tuple[str, str]) -> dict[Term, t.Any]:
        return {E_: pair for E_ in pair_its}

    res = []
    for s_ in po_smp:
        res.append((s_, _pick_value(conc, kvs, scanned(("k", H.rfc_quote(s_)))), ("k", s_)))
    ctx.ob("R6.2", "parse_options_header unquote chain has both inverse pairs", all(g == w_ for _, g, w_ in res), f"option stored for the scanned pair ('k', RFC-quoted s) on {len(res)} strings; {_first_bad(res)}", PO.fi, PO.fi.node, "unquote chain")
    res = [(s_, _pick_value(conc, kvs, scanned(("k", s_))), ("k", s_)) for s_ in toks]
    ctx.ob("R6.2", "parse_options_header strips exactly the surrounding quotes before unescaping", all(g == w_ for _, g, w_ in res), f"option stored for the scanned pair ('k', token); {_first_bad(res)}", PO.fi, PO.fi.node, "unquote strip")

    # list parser: quotes stripped, escapes already undone by the stdlib splitter
    PL = S("http.parse_list_header")
    E = _element_term(PL, "urllib.request.parse_http_list(value)", lambda x: x[0] == "call" and _gfq(x[1]) == "urllib.request.parse_http_list" and len(x[2]) == 1 and x[2][0][0] == "p")
    items = _item_outcomes(PL, lambda i: True)
    if not items:
        raise AnalysisError("parse_list_header: no item is seen stored in the returned list")
    smp3 = [x for x in smp if len(x) <= 3]
    res = [(f'"{s_}"', _pick_value(conc, items, {E: f'"{s_}"'}), s_) for s_ in [""] + smp3] + [(s_, _pick_value(conc, items, {E: s_}), s_) for s_ in toks]
    ctx.ob("R6.2", "parse_list_header splits with parse_http_list and strips quotes", all(g == w_ for _, g, w_ in res), f"item kept for an element of parse_http_list (quotes kept, escapes already removed); {_first_bad(res)}", PL.fi, PL.fi.node, "list parser")
    PD = S("http.parse_dict_header")
    E = _element_term(PD, "parse_list_header(value)", lambda x: x[0] == "call" and _gfq(x[1]) == "werkzeug.http.parse_list_header" and len(x[2]) == 1 and x[2][0][0] == "p")
    kvs = _item_outcomes(PD, lambda i: i[0] == "kv")
    if not kvs:
        raise AnalysisError("parse_dict_header: no entry is seen stored in the returned mapping")
    res = [(f'k="{s_}"', _pick_value(conc, kvs, {E: f'k="{s_}"'}), ("k", s_)) for s_ in [""] + smp3]
    res += [(f"k={s_}", _pick_value(conc, kvs, {E: f"k={s_}"}), ("k", s_)) for s_ in toks] + [("k", _pick_value(conc, kvs, {E: "k"}), ("k", None))]
    ctx.ob("R6.2", "parse_dict_header builds on parse_list_header and partitions at the first '='", all(g == w_ for _, g, w_ in res), f"entry stored for an item of parse_list_header; {_first_bad(res)}", PD.fi, PD.fi.node, "dict parser")

    # R6.3
    w = _apply(conc, Q, [""], {})
    w2 = _apply(conc, Q, [""], kw_quote)
    ctx.ob("R6.3", "empty value emitted as \"\"", w == '""' == w2, f"quote_header_value('') -> {w!r}", q, q.node, "empty value")

    # ---------------- R6.4 offsets --------------------------------------
    n64 = 0
    for wfq, desc in (("datastructures.range.Range.to_header", "Range"), ("datastructures.range.ContentRange.to_header", "Content-Range"), ("datastructures.range.Range.to_content_range_header", "Range->Content-Range")):
        W = S(wfq)
        offs: list[int] = []
        for o in W.returns:
            _stop_offsets(o.term, offs)
        if not offs:
            raise AnalysisError(f"{wfq}: the exclusive stop is not found in the written text")
        n64 += 1
        ctx.ob("R6.4", f"{desc} writer prints stop - 1", all(x == -1 for x in offs), f"offsets applied to the exclusive stop where it is printed: {sorted(set(offs))}", W.fi, W.fi.node, "writer offset")
    for pfq, cls_, pos, kw, desc in (("http.parse_range_header", "Range", 1, "ranges", "Range"), ("http.parse_content_range_header", "ContentRange", 2, "stop", "Content-Range")):
        Pp = S(pfq)
        offs = []
        for o in Pp.returns:
            for x in walk(o.term):
                if _is_call_to(x, cls_):
                    v = _arg(x, pos, kw)
                    if v is None:
                        raise AnalysisError(f"{pfq}: {cls_}(...) without a {kw} argument")
                    if cls_ == "Range":
                        its_ = coll_items(v)
                        if its_ is None:
                            raise AnalysisError(f"{pfq}: the ranges argument is not a collection built here: {show(v)}")
                        for _, it_ in its_:
                            if it_[0] != "tuple" or len(it_[1]) != 2:
                                raise AnalysisError(f"{pfq}: range item is not a pair: {show(it_)}")
                            _parsed_offsets(it_[1][1], offs, pfq)
                    else:
                        _parsed_offsets(v, offs, pfq)
        if not offs:
            raise AnalysisError(f"{pfq}: no parsed stop value reaches {cls_}(...)")
        n64 += 1
        ctx.ob("R6.4", f"{desc} parser stores value + 1", all(x == 1 for x in offs), f"offsets applied to the parsed number stored as exclusive stop: {sorted(set(offs))}", Pp.fi, Pp.fi.node, "parser offset")
    ctx.floor("R6.4", "offset sites", n64, 5)
    for cn in ("ContentRange", "Range"):
        optional_int_rule(ctx, "R6.4", repo.cls(f"datastructures.range.{cn}"))

    # ---------------- R6.5 separators -------------------------------------
    DC = S("http.dump_csp_header")
    PC = S("http.parse_csp_header")
    sep, inner = _csp_template(DC)
    pairs = [("k1", "v1 w1"), ("k2", "v2")]
    header = sep.join(k + inner + v for k, v in pairs)
    E = _element_term(PC, "the split policies", lambda x: any(y[0] == "p" for y in walk(x)))
    tuples = _item_outcomes(PC, lambda i: i[0] == "tuple" and len(i[1]) == 2)
    if not tuples:
        raise AnalysisError("parse_csp_header: no (directive, value) pair is collected")
    vp = next((p for p in PC.params if any(x == ("p", p) for x in walk(E))), None)
    elements = conc.val(E[1], {("p", vp): header})
    if not isinstance(elements, (list, tuple)):
        raise AnalysisError("parse_csp_header: the policies are not a list")
    got_ = [r for r in (_pick_value(conc, tuples, {E: el}, default=None) for el in elements) if r is not None]
    ctx.ob("R6.5", "CSP separators agree", got_ == pairs, f"writer joins with {sep!r}, key{inner!r}value; the parser's element step on {header!r} -> {got_}", DC.fi, DC.fi.node, "csp separators")

    ET = S("datastructures.etag.ETags.to_header")
    pe = repo.func("http.parse_etags")
    ctx.saw(pe)
    esep, strong_f, weak_f = _etag_template(ET)
    sample = esep.join([strong_f[0] + "a b" + strong_f[1], weak_f[0] + "c,d" + weak_f[1], strong_f[0] + "e" + strong_f[1]])
    erx = _regex_slot(folder, pe, "parse_etags")
    cre = re.compile(erx[1].pattern, erx[1].flags)
    got = []
    pos_ = 0
    while pos_ < len(sample):
        m = cre.match(sample, pos_)
        if m is None or m.end() == pos_:
            break
        g = m.groups()
        got.append((bool(g[0]) if g else None, *g[1:]))
        pos_ = m.end()
    exp = [(False, "a b", None), (True, "c,d", None), (False, "e", None)]
    singles = []
    for el, want in ((strong_f[0] + "a b" + strong_f[1], (False, "a b", None)), (weak_f[0] + "c,d" + weak_f[1], (True, "c,d", None))):
        m = cre.match(el)
        g = m.groups() if m is not None else ()
        singles.append((el, (bool(g[0]), *g[1:]) if g and m is not None and m.end() == len(el) else None, want))
    ctx.ob("R6.5", "ETags written as \"x\" and W/\"x\" joined by ', '", all(g_ == w_ for _, g_, w_ in singles), f"forms {strong_f[0]}x{strong_f[1]} / {weak_f[0]}x{weak_f[1]} joined by {esep!r}; each form read alone by {erx[0]}: {_first_bad(singles)}", ET.fi, ET.fi.node, "etag forms")
    ctx.ob("R6.5", "_etag_re reads both written forms and the ', ' separator", got == exp, f"{erx[0]} over the writer's constant forms {sample!r} -> {got}", pe, pe.node, "etag regex")
    PE = S("http.parse_etags")
    r_ok, r_fact = _etag_routing(PE)
    ctx.ob("R6.5", "parse_etags routes weak/strong by the W/ group and keeps the quoted text when present", r_ok, r_fact, pe, pe.node, "etag routing")
    QE = S("http.quote_etag")
    UE = S("http.unquote_etag")
    r = _apply(conc, QE, ['a"b'], {})
    ctx.ob("R6.5", "quote_etag refuses a value containing a quote", isinstance(r, tuple) and r[:1] == ("<raises>",), f"quote_etag('a\"b') -> {r!r}", QE.fi, QE.fi.node, "etag quote refusal")
    wk = QE.params[1] if len(QE.params) > 1 else None
    rows3 = []
    for e_ in H.samples("aW/ ", 3):
        for weak in (False, True) if wk else (False,):
            w = _apply(conc, QE, [e_], {wk: weak} if wk else {})
            rows3.append(((e_, weak), _apply(conc, UE, [w]) if isinstance(w, str) else w, (e_, weak)))
    ctx.ob("R6.5", "unquote_etag strips the W/ prefix quote_etag writes", all(g == w_ for _, g, w_ in rows3), f"unquote_etag(quote_etag(e, weak)) == (e, weak) on {len(rows3)} cases; {_first_bad(rows3)}", UE.fi, UE.fi.node, "etag prefix")

    HS = S("datastructures.structures.HeaderSet.to_header")
    PS = S("http.parse_set_header")
    hj, hitems = _joined(HS, "HeaderSet.to_header", sums)
    quoted_items = bool(hitems) and all(_is_call_to(i, "quote_header_value") and i[2] and any(y[0] == "it" for y in walk(i[2][0])) for _, i in hitems)
    reads = any(_is_call_to(x, "HeaderSet") and any(_is_call_to(y, "parse_list_header") for y in walk(x)) for o in PS.returns for x in walk(o.term))
    ctx.ob("R6.5", "HeaderSet joined with ', ' of quoted items, parsed by the list parser", hj == {", "} and quoted_items and reads, f"join={sorted(hj)} items quoted={quoted_items} parse_set_header -> HeaderSet(parse_list_header(..))={reads}", HS.fi, HS.fi.node, "headerset")
    for fq, sep_, label in (("http.dump_header", ", ", "dump_header"), ("http.dump_options_header", "; ", "dump_options_header")):
        D = S(fq)
        dj, ditems = _joined(D, label)
        kv_ok, q_ok, facts = _kv_items(ditems, label)
        ctx.ob("R6.5", f"{label} joins with {sep_!r} and writes key=value", dj == {sep_} and kv_ok, f"join={sorted(dj)}; {facts[0]}", D.fi, D.fi.node, f"{label} separators")
        ctx.ob("R6.5", f"{label} quotes every value except under a key ending in '*'", q_ok, facts[1], D.fi, D.fi.node, f"{label} quoting")
    cuts = [x for x in PO.terms_deep() if x[0] == "meth" and x[1] in CUT_METHODS and x[3] and x[3][0] == C(";")]
    ctx.ob("R6.5", "parse_options_header cuts at ';'", len(cuts) >= 1, f"{len(cuts)} cut(s) at ';' ({sorted({x[1] for x in cuts})})", po, po.node, "options separators")

    RT = S("datastructures.range.Range.to_header")
    PR = S("http.parse_range_header")
    w_ok, w_fact, wseps = _range_template(RT)
    rcuts = {cv(x[3][0]) for x in PR.terms_deep() if x[0] == "meth" and x[1] in CUT_METHODS and x[3] and is_cstr(x[3][0])}
    ctx.ob("R6.5", "Range written units=a-b,c-d and split on = , -", w_ok and wseps <= rcuts, f"{w_fact}; parser cuts on {sorted(rcuts)}", RT.fi, RT.fi.node, "range separators")

    # ---------------- R6.6 pairing ---------------------------------------
    pairs6 = [
        ("datastructures.cache_control._CacheControl.to_header", "werkzeug.http.dump_header"),
        ("http.parse_cache_control_header", "werkzeug.http.parse_dict_header"),
        ("datastructures.csp.ContentSecurityPolicy.to_header", "werkzeug.http.dump_csp_header"),
        ("datastructures.auth.Authorization.to_header", "werkzeug.http.dump_header"),
        ("datastructures.auth.Authorization.from_header", "werkzeug.http.parse_dict_header"),
        ("datastructures.auth.WWWAuthenticate.to_header", "werkzeug.http.dump_header"),
        ("datastructures.auth.WWWAuthenticate.to_header", "werkzeug.http.quote_header_value"),
        ("datastructures.auth.WWWAuthenticate.from_header", "werkzeug.http.parse_dict_header"),
        ("datastructures.range.IfRange.to_header", "werkzeug.http.http_date"),
        ("datastructures.range.IfRange.to_header", "werkzeug.http.quote_etag"),
        ("http.parse_if_range_header", "werkzeug.http.parse_date"),
        ("http.parse_if_range_header", "werkzeug.http.unquote_etag"),
        ("http.http_date", "email.utils.format_datetime"),
        ("http.parse_date", "email.utils.parsedate_to_datetime"),
        ("http.dump_options_header", "werkzeug.http.quote_header_value"),
        ("http.dump_header", "werkzeug.http.quote_header_value"),
    ]
    n66 = 0
    for src, dst in pairs6:
        Sx = S(src)
        got_fq = set()
        for o in Sx.returns:
            for x in walk_deep(o.term):
                if x[0] == "call" and _gfq(x[1]):
                    got_fq.add(x[1][1])
        n66 += 1
        ctx.ob("R6.6", f"{src} reaches {dst}", dst in got_fq, f"calls whose result flows into the returned value: {sorted(x for x in got_fq if x.startswith(('werkzeug', 'email')))[:8]}", Sx.fi, Sx.fi.node, f"calls {dst}")
    ctx.floor("R6.6", "pairs", n66, 16)
    AT = S("datastructures.auth.Authorization.to_header")
    AF = S("datastructures.auth.Authorization.from_header")
    enc = colon = False
    for o in AT.returns:
        for x in walk(o.term):
            if x[0] == "call" and _gfq(x[1]) == "base64.b64encode":
                enc = True
                opaque = [y for y in walk(x) if y[0] == "v"]
                if opaque:
                    raise AnalysisError(f"Authorization.to_header: the encoded credentials are built in a way that is not followed: {show(opaque[0])[:100]}")
                for y in walk(x):
                    if y[0] == "cat" and len(y[1]) == 3 and y[1][1] == C(":") and not is_c(y[1][0]) and not is_c(y[1][2]):
                        colon = True
    dec_ = False
    for o in AF.returns:
        for x in walk_deep(o.term):
            if x[0] == "meth" and x[1] in ("partition", "split") and x[3] and x[3][0] == C(":") and (x[1] == "partition" or (len(x[3]) > 1 and x[3][1] == C(1))):
                if any(y[0] == "call" and _gfq(y[1]) == "base64.b64decode" for y in walk(x[2])):
                    dec_ = True
    ctx.ob("R6.6", "Basic credentials: b64(user ':' pass) written, decoded and cut at the first ':'", enc and dec_ and colon, f"b64encode={enc} b64decode+cut(':')={dec_} colon-join={colon}", AT.fi, AT.fi.node, "basic pairing")
    # scheme normal form: written .title(), compared lower-case -> stored lower-case
    for Fx, label in ((AF, "Authorization"), (S("datastructures.auth.WWWAuthenticate.from_header"), "WWWAuthenticate")):
        built = [x for o in Fx.returns for x in [o.term] if x[0] == "call" and (x[1] == ("p", Fx.params[0]) or _is_call_to(x, label)) and x[2]]
        if not built:
            raise AnalysisError(f"{label}.from_header: no constructed instance is returned")
        lows = [any(y[0] == "meth" and y[1] == "lower" for y in walk(x[2][0])) for x in built]
        for x, low in zip(built, lows):
            opaque = [y for y in walk(x[2][0]) if y[0] == "v" or (y[0] == "call" and (_gfq(y[1]) or "").startswith("werkzeug."))]
            if not low and opaque:
                raise AnalysisError(f"{label}.from_header: the scheme comes from a call that is not followed: {show(opaque[0])[:100]}")
        ctx.ob("R6.6", "auth scheme lower-cased on parse" if label == "Authorization" else f"{label} scheme lower-cased on parse", all(lows), f"{sum(lows)}/{len(lows)} constructed instances get a lower-cased scheme, e.g. {show(built[0][2][0])}", Fx.fi, Fx.fi.node, "scheme lower")
    DA, PA = S("http.dump_age"), S("http.parse_age")
    wr = any(o.term != NONE and any(_is_call_to(y, "int") for y in walk(o.term)) for o in DA.returns)
    rd = any(_is_call_to(x, "int") and x[2] and x[2][0][0] == "p" for o in PA.returns for x in walk(o.term))
    ctx.ob("R6.6", "age is written and read as a base-10 integer", wr and rd, f"dump_age returns str(int(..))={wr}; parse_age builds on int(value)={rd}", DA.fi, DA.fi.node, "age pairing")

    _quoting_discipline(ctx, repo, sums, conc, S)

    _options_law(ctx, machine, S, po_alpha, 3 if len(po_alpha) <= 8 else 2)
    _range_law(ctx, machine, S, repo)
    _typed_value_laws(ctx, machine, S, repo)


def run_thorough(ctx: Ctx) -> None:
    """the option-header law of R6.7 on the exhaustive family one character longer than the quick tier's."""
    repo = ctx.repo
    folder = H.TableFolder(repo)
    sums = Summaries(repo, folder)

    def S(fq: str) -> Summary:
        f = repo.func(fq)
        ctx.saw(f)
        return sums.of(f)

    alphabet = set(BASE_ALPHABET)
    for fq in ("http.quote_header_value", "http.unquote_header_value", "http.parse_options_header"):
        for a_, b_ in _replace_consts(S(fq).terms_deep(), Conc(sums)):
            if (a_, b_) != ("%22", '"'):
                alphabet |= set(a_) | set(b_)
    _options_law(ctx, H.Machine(repo, folder), S, alphabet, 4 if len(alphabet) <= 7 else 3, thorough=True)


# ---------------------------------------------------------------------------------------------------------------
# R6.7 / R6.8: whole-function laws on finite families (evaluated by the Machine of _c06_helpers)


def _lookalike_values() -> list[str]:
    """values that carry, inside the (quoted) value, text shaped like a further parameter: <delimiter><blank?><key>=<value>."""
    out: list[str] = []
    for pre in ("", "a"):
        for delim in (";", ","):
            for ws in ("", " "):
                for key in ("k", "j", "x"):
                    for val in ("c", '"c"', ""):
                        out.append(f"{pre}{delim}{ws}{key}={val}")
    out += ["a; k*=utf-8''c", "a; j*0=c", "a;x*=c", "a; j=c; k=d", 'a"; j=c', "a\\; j=c", 'a\\"; j=c', "a;j=c;", "a ;j=c", "j=c", "a=b; j=c"]
    return out


def _options_law(ctx: Ctx, m: H.Machine, S: t.Callable[[str], Summary], alphabet: set[str], maxlen: int, thorough: bool = False) -> None:
    D = S("http.dump_options_header").fi
    P = S("http.parse_options_header").fi
    head = "h"

    def round_trip(d: dict[str, str]) -> tuple[t.Any, t.Any]:
        wire = m.outcome(lambda: m.run(D, [head, dict(d)]))
        if not isinstance(wire, str):
            return wire, ("<the writer gives no text>",)
        return wire, m.outcome(lambda: m.run(P, [wire]))

    def check(instance: str, construct: str, family: list[dict[str, str]], what: str) -> int:
        bad = None
        for d in family:
            wire, got = round_trip(d)
            if got != (head, d):
                bad = f"e.g. dump_options_header({head!r}, {d!r}) writes {wire!r}, which parse_options_header reads as {got!r}"
                break
        ctx.ob("R6.7", instance, bad is None, f"{len(family)} option dicts ({what}): parse_options_header(dump_options_header(h, d)) == (h, d); {bad or 'all read back'}", P, P.node, construct)
        return len(family)

    if thorough:
        singles = [{"k": v} for v in H.samples(alphabet, maxlen) if len(v) == maxlen]
        check(f"one option, every value of length {maxlen} over the delimiter alphabet", "options law exhaustive", singles, f"all strings of length {maxlen} over {sorted(alphabet)}")
        return
    n = 0
    singles = [{}] + [{"k": v} for v in [""] + H.samples(alphabet, maxlen)]
    n += check("one option: every short value over the delimiter alphabet is read back", "options law single", singles, f"all strings up to length {maxlen} over {sorted(alphabet)}")
    look = _lookalike_values()
    fam = [{"j": "b", "k": v} for v in look] + [{"k": v, "j": "b"} for v in look]
    n += check("a delimiter followed by a parameter look-alike inside a quoted value adds / overwrites no option", "options law look-alike", fam, "values like 'a; j=c' next to a genuine option j")
    small = ["a", "", "a b", ";", "a;b", '"', "\\", "=", "a=b", ",", " ", '\\"', '";', "a\\"]
    fam = [{"k": v1, "j": v2} for v1 in small for v2 in ("b", "a;b", '"')] + [{"k": "a", "j": "b", "x": v} for v in small]
    n += check("several options: each one is found after the previous value (token or quoted) was consumed", "options law pair", fam, "two and three options, values with delimiters and escapes")
    ctx.floor("R6.7", "option dicts evaluated", n, 200)


_RANGE_CLASSES: list[tuple[str, str, list[list[tuple[int, int | None]]]]] = [
    ("closed ranges (first, stop) starting at byte 0 and at a positive byte", "range law closed", [[(0, 1)], [(0, 10)], [(1, 2)], [(9, 10)], [(10, 25)], [(100, 1000)]]),
    ("open-ended ranges (first, None) starting at byte 0 and at a positive byte", "range law open-ended", [[(0, None)], [(1, None)], [(10, None)], [(999, None)]]),
    ("suffix ranges (-n, None)", "range law suffix", [[(-1, None)], [(-10, None)], [(-500, None)]]),
    ("several ranges, the last one closed / open-ended / suffix", "range law multi", [[(0, 1), (1, 2)], [(0, 2), (4, 6)], [(0, 2), (4, None)], [(0, 2), (-1, None)], [(1, 3), (5, 7), (9, None)], [(0, 1), (2, 3), (-5, None)]]),
]
_CONTENT_RANGES: list[tuple[int | None, int | None, int | None]] = [(0, 1, 1), (0, 5, 10), (3, 10, 10), (0, 5, None), (7, 8, None), (10, 11, 100), (None, None, 10), (None, None, 0), (None, None, None)]


def _range_law(ctx: Ctx, m: H.Machine, S: t.Callable[[str], Summary], repo: t.Any) -> None:
    n = 0
    for cfq, pfq, label, fams in (
        ("datastructures.range.Range", "http.parse_range_header", "Range", [(inst, con, [(u, [list(r)]) for u in ("bytes", "items") for r in rs]) for inst, con, rs in _RANGE_CLASSES]),
        ("datastructures.range.ContentRange", "http.parse_content_range_header", "Content-Range", [("start/stop and length set or unset", "content-range law", [("bytes", list(x)) for x in _CONTENT_RANGES])]),
    ):
        ci = repo.cls(cfq)
        _, wf = repo.lookup(ci, "to_header")
        if not isinstance(wf, FuncInfo):
            raise AnalysisError(f"{cfq}.to_header not found")
        ctx.saw(wf)
        Pf = S(pfq).fi
        for inst, construct, members in fams:
            bad = None
            for units, rest in members:
                args = [units] + [list(x) if isinstance(x, list) else x for x in rest]
                try:
                    obj = m.run(ci, args)
                except H.ProgramRaise as r:
                    raise AnalysisError(f"{cfq}({', '.join(map(repr, args))}) raises {r.kind}: the constructor rejects a member of the value family")
                want = H.snapshot(obj)
                text = m.outcome(lambda: m.method(obj, "to_header"))
                got = m.outcome(lambda: m.run(Pf, [text])) if isinstance(text, str) else ("<the writer gives no text>",)
                n += 1
                if got != want and bad is None:
                    bad = f"e.g. {ci.name}({', '.join(map(repr, args))}).to_header() writes {text!r}, which {Pf.name} reads as {_short(got)}"
            ctx.ob("R6.8", f"{label}: {inst}", bad is None, f"{len(members)} values: {Pf.name}(x.to_header()) equals x (same class, same attributes); {bad or 'all read back'}", wf, wf.node, construct)
    ctx.floor("R6.8", "range values evaluated", n, 40)


# R6.10: typed single values - HTTP dates, ages, If-Range (date or entity tag): whole-function laws on finite families


def _date_family() -> tuple[list[t.Any], list[t.Any]]:
    """(naive datetimes covering every weekday in every month plus the ends of the year range, aware datetimes with
    UTC / positive / negative offsets): second resolution, as the property states"""
    naive = [_dtm.datetime(2024, mth, 1 + wd + 7 * (mth % 3), (5 * mth + wd) % 24, 59 - wd, 58 - mth) for mth in range(1, 13) for wd in range(7)]
    naive += [_dtm.datetime(1000, 1, 1, 0, 0, 0), _dtm.datetime(9999, 12, 31, 23, 59, 59), _dtm.datetime(1970, 1, 1, 0, 0, 0), _dtm.datetime(2000, 2, 29, 12, 0, 1)]
    zones = [_dtm.timezone.utc, _dtm.timezone(_dtm.timedelta(hours=5, minutes=30)), _dtm.timezone(_dtm.timedelta(hours=-8)), _dtm.timezone(_dtm.timedelta(hours=14)), _dtm.timezone(_dtm.timedelta(hours=-12))]
    aware = [d.replace(tzinfo=z) for d in naive[:21] for z in zones]
    return naive, aware


def _as_utc(d: t.Any) -> t.Any:
    return d.replace(tzinfo=_dtm.timezone.utc) if d.tzinfo is None else d


def _same_instant(got: t.Any, d: t.Any) -> bool:
    return isinstance(got, _dtm.datetime) and got.tzinfo is not None and got == _as_utc(d)


_IF_RANGE_TAGS = ["abc", "a b", "0", "W", "w", "Wed", "Wednesday", "W/", "w/x", "W/abc", "Mon", "GMT", "1994", "a,b", "a/b", "686897696a7c876b7e", "wzsa-1", "\\"]
_DATE_LIKE_TAGS = ["Thu, 01 Jan 1970 00:00:00 GMT", "Wed, 01 May 2024 23:59:58 GMT", "Sun, 06 Nov 1994 08:49:37 GMT"]
_IF_RANGE_TEXTS = ['W/"abc"', 'w/"abc"', '"abc"', "abc", ' "abc" ', 'W/"a b"', "Wed, 01 May 2024 23:59:58 GMT", "Wed, 01 May 2024 23:59:58 +0530", "1 May 2024 23:59:58", "Wed, 01 May 2024 23:59:58 -0000", "Wednesday", "W/", '""']


def _typed_value_laws(ctx: Ctx, m: H.Machine, S: t.Callable[[str], Summary], repo: t.Any) -> None:
    R = "R6.10"
    HD, PD = S("http.http_date").fi, S("http.parse_date").fi
    PIR = S("http.parse_if_range_header").fi
    DA, PA = S("http.dump_age").fi, S("http.parse_age").fi
    ci = repo.cls("datastructures.range.IfRange")
    _, wf = repo.lookup(ci, "to_header")
    if not isinstance(wf, FuncInfo):
        raise AnalysisError("IfRange.to_header not found")
    ctx.saw(wf)
    naive, aware = _date_family()
    n = 0

    def wire_of(thunk: t.Callable[[], t.Any]) -> t.Any:
        return m.outcome(thunk)

    def attrs(got: t.Any) -> dict[str, t.Any] | None:
        if isinstance(got, tuple) and len(got) == 3 and got[0] == "<instance>" and got[1] == ci.fq:
            return dict(got[2])
        return None

    # -- HTTP dates
    for label, construct, fam in (("naive datetimes (read as UTC): every weekday in every month, years 1000 and 9999", "date law naive", naive), ("aware datetimes with UTC, positive and negative offsets", "date law aware", aware)):
        bad = None
        for d in fam:
            text = wire_of(lambda: m.run(HD, [d]))
            got = m.outcome(lambda: m.run(PD, [text])) if isinstance(text, str) else ("<the writer gives no text>",)
            n += 1
            if not _same_instant(got, d) and bad is None:
                bad = f"e.g. http_date({d!r}) writes {text!r}, which parse_date reads as {got!r}"
        ctx.ob(R, f"HTTP date: {label}", bad is None, f"{len(fam)} values: parse_date(http_date(d)) is the aware datetime of the same instant; {bad or 'all read back'}", HD, HD.node, construct)

    # -- If-Range carrying a date
    for label, construct, fam in (("naive dates, every weekday in every month", "if-range law naive date", naive), ("aware dates", "if-range law aware date", aware)):
        bad = None
        for d in fam:
            try:
                obj = m.run(ci, [], {"date": d})
            except H.ProgramRaise as r:
                raise AnalysisError(f"IfRange(date=...) raises {r.kind}")
            text = wire_of(lambda: m.method(obj, "to_header"))
            got = m.outcome(lambda: m.run(PIR, [text])) if isinstance(text, str) else ("<the writer gives no text>",)
            a = attrs(got)
            n += 1
            if not (a is not None and a.get("etag") is None and _same_instant(a.get("date"), d)) and bad is None:
                bad = f"e.g. IfRange(date={d!r}).to_header() writes {text!r}, which {PIR.name} reads as {_short(got)}"
        ctx.ob(R, f"If-Range with a date is read back as that date: {label}", bad is None, f"{len(fam)} values: {PIR.name}(IfRange(date=d).to_header()) has the date of the same instant and no entity tag; {bad or 'all read back'}", wf, wf.node, construct)

    # -- If-Range carrying an entity tag
    def tag_law(instance: str, construct: str, tags: list[str]) -> None:
        nonlocal n
        bad = None
        for e_ in tags:
            obj = m.run(ci, [e_])
            text = wire_of(lambda: m.method(obj, "to_header"))
            got = m.outcome(lambda: m.run(PIR, [text])) if isinstance(text, str) else ("<the writer gives no text>",)
            a = attrs(got)
            n += 1
            if not (a is not None and a.get("etag") == e_ and a.get("date") is None) and bad is None:
                bad = f"e.g. IfRange({e_!r}).to_header() writes {text!r}, which {PIR.name} reads as {_short(got)}"
        ctx.ob(R, instance, bad is None, f"{len(tags)} tags: {PIR.name}(IfRange(tag).to_header()) has that entity tag and no date; {bad or 'all read back'}", wf, wf.node, construct)

    tag_law("If-Range with an entity tag is read back as that tag (tags that begin like a weekday / the weak marker included)", "if-range law etag", _IF_RANGE_TAGS)
    tag_law("an entity tag whose text is an HTTP date is still read back as an entity tag", "if-range law date-like etag", _DATE_LIKE_TAGS)
    bad = None
    for e_ in (None,):
        obj = m.run(ci, [])
        text = wire_of(lambda: m.method(obj, "to_header"))
        got = m.outcome(lambda: m.run(PIR, [text])) if isinstance(text, str) else ("<the writer gives no text>",)
        a = attrs(got)
        n += 1
        if not (a is not None and a.get("etag") is None and a.get("date") is None):
            bad = f"IfRange().to_header() writes {text!r}, which {PIR.name} reads as {_short(got)}"
    ctx.ob(R, "the empty If-Range is read back as empty", bad is None, bad or "IfRange() -> '' -> IfRange()", wf, wf.node, "if-range law empty")

    # -- parsing is a normal form
    bad = None
    for text in _IF_RANGE_TEXTS:
        n += 1
        try:
            p1 = m.run(PIR, [text])
        except H.ProgramRaise as r:
            bad = bad or f"{PIR.name}({text!r}) raises {r.kind}"
            continue
        if not isinstance(p1, H.Obj):
            bad = bad or f"{PIR.name}({text!r}) gives {_short(H.snapshot(p1))}"
            continue
        s1 = H.snapshot(p1)
        text2 = wire_of(lambda: m.method(p1, "to_header"))
        s2 = m.outcome(lambda: m.run(PIR, [text2])) if isinstance(text2, str) else ("<the writer gives no text>",)
        if s1 != s2 and bad is None:
            bad = f"e.g. {text!r} is read as {_short(s1)}, written as {text2!r} and read again as {_short(s2)}"
    ctx.ob(R, "If-Range: re-serialising a parsed header and parsing again yields the same value", bad is None, f"{len(_IF_RANGE_TEXTS)} header texts (weak / strong / unquoted tags, dates in several spellings); {bad or 'all stable'}", PIR, PIR.node, "if-range normal form")

    # -- ages
    ages: list[t.Any] = [0, 1, 59, 60, 3600, 86400, 31536000, 2**31, 10**9] + [_dtm.timedelta(0), _dtm.timedelta(seconds=1), _dtm.timedelta(days=2, seconds=3), _dtm.timedelta(hours=1), _dtm.timedelta(days=400)]
    bad = None
    for x in ages:
        text = wire_of(lambda: m.run(DA, [x]))
        got = m.outcome(lambda: m.run(PA, [text])) if isinstance(text, str) else ("<the writer gives no text>",)
        want = x if isinstance(x, _dtm.timedelta) else _dtm.timedelta(seconds=x)
        n += 1
        if not (isinstance(got, _dtm.timedelta) and got == want) and bad is None:
            bad = f"e.g. dump_age({x!r}) writes {text!r}, which parse_age reads as {got!r}"
    ctx.ob(R, "Age: whole seconds as int and as timedelta", bad is None, f"{len(ages)} values: parse_age(dump_age(x)) is the timedelta of x seconds; {bad or 'all read back'}", DA, DA.node, "age law")
    ctx.floor(R, "typed values evaluated", n, 300)


def _short(got: t.Any) -> str:
    if isinstance(got, tuple) and len(got) == 3 and got[0] == "<instance>":
        return f"{got[1].rsplit('.', 1)[-1]}({', '.join(f'{k}={v!r}' for k, v in got[2])})"
    return repr(got)


# ---------------------------------------------------------------------------------------------------------------
# R6.9: quoting discipline of the writers of the quoted-string grammars

# serialisers whose text is read back by parse_list_header / parse_dict_header / parse_options_header, i.e. by a reader
# that takes `\\` inside double quotes as an escape.  (The entity-tag writers are not among them: their reader takes the
# text between the quotes literally, and the domain excludes '"' from tags - R6.5.)
QUOTED_WRITERS = [
    "http.quote_header_value",
    "http.dump_header",
    "http.dump_options_header",
    "datastructures.structures.HeaderSet.to_header",
    "datastructures.cache_control._CacheControl.to_header",
    "datastructures.auth.Authorization.to_header",
    "datastructures.auth.WWWAuthenticate.to_header",
]
_QUOTE_ALPHABET = '\\"a, '
_LEAF_KINDS = ("p", "attr", "it", "idx", "slice", "v", "alt")


def _quoted_sites(summ: Summary) -> list[tuple[Term, tuple, str]]:
    """(text part, conditions, template) for every non-constant part of a written text that stands between literal
    double quotes: the constant parts of each concatenation are scanned left to right, a '"' opens / closes."""
    out: list[tuple[Term, tuple, str]] = []
    seen: set[tuple] = set()

    def visit(t_: t.Any, conds: tuple) -> None:
        if isinstance(t_, frozenset):
            for x in t_:
                visit(x, conds)
            return
        if not isinstance(t_, tuple) or not t_ or is_c(t_):
            return
        if not isinstance(t_[0], str):
            for x in t_:
                visit(x, conds)
            return
        k = (t_, conds)
        if k in seen:
            return
        seen.add(k)
        items = coll_items(t_)
        if items is not None:
            for cs, it_ in sorted(items, key=repr):
                visit(it_, conds + tuple(cs))
            return
        if t_[0] == "cat":
            inside = False
            tmpl = "".join(cv(p) if is_cstr(p) else "{}" for p in t_[1])
            for p in t_[1]:
                if is_cstr(p):
                    txt = cv(p)
                    i = 0
                    while i < len(txt):
                        if inside and txt[i] == "\\":
                            i += 2
                            continue
                        if txt[i] == '"':
                            inside = not inside
                        i += 1
                else:
                    if inside:
                        out.append((p, conds, tmpl))
                    visit(p, conds)
            return
        for x in t_[1:]:
            visit(x, conds)

    for o in summ.returns:
        visit(o.term, tuple(o.conds))
    return out


def _leaves(t_: Term) -> list[Term]:
    """the values a text part is computed from: maximal sub-terms that are a parameter, attribute, element of an
    enclosing loop ...  The element of a loop / comprehension that is *part of the text* (``"".join(esc(c) for c in
    value)``) is not a source: what that loop runs over is."""
    out: list[Term] = []

    def go(x: t.Any, in_coll: bool) -> None:
        if isinstance(x, frozenset):
            for y in x:
                go(y, in_coll)
            return
        if not isinstance(x, tuple) or not x or is_c(x):
            return
        if isinstance(x[0], str):
            items = coll_items(x)
            if items is not None:
                for cs, it_ in items:
                    go(it_, True)
                    for a, _tr in cs:
                        go(a, True)
                return
            if x[0] == "it" and in_coll:
                go(x[1], False)
                return
            if x[0] in _LEAF_KINDS:
                if x not in out:
                    out.append(x)
                return
            if x[0] == "g":
                return
            if x[0] == "call":
                for y in x[2]:
                    go(y, in_coll)
                for kw in x[3]:
                    go(kw[2], in_coll)
                return
            for y in x[1:]:
                go(y, in_coll)
            return
        for y in x:
            go(y, in_coll)

    go(t_, False)
    return out


def _quoting_discipline(ctx: Ctx, repo: t.Any, sums: Summaries, conc: Conc, S: t.Callable[[str], Summary]) -> None:
    R = "R6.9"
    smp = [""] + H.samples(_QUOTE_ALPHABET, 3)
    todo = list(QUOTED_WRITERS)
    roots = set(todo)
    done: set[str] = set()
    nsites = 0
    while todo:
        fq = todo.pop(0)
        if fq in done:
            continue
        done.add(fq)
        try:
            W = S(fq)
        except AnalysisError:
            if fq in roots:
                raise
            ctx.note(f"R6.9: {fq} (called by a writer) is not summarised; its text is not scanned")
            continue
        # public functions of the package whose result is part of the written text are writers too
        for o in W.returns:
            for x in walk_deep(o.term):
                if x[0] == "call" and (_gfq(x[1]) or "").startswith("werkzeug."):
                    callee = sums.func_by_fq(x[1][1])
                    if callee is not None and callee.fq not in done and not callee.name.endswith("etag"):
                        todo.append(callee.fq.removeprefix("werkzeug."))
        pieces = [x for o in W.returns for x in walk(o.term) if x[0] == "join" and is_cstr(x[1]) and cv(x[1]) == "" and any(is_cstr(i) and '"' in cv(i) for _, i in (coll_items(x[2]) or ()))]
        if pieces:
            # the quoted text is assembled piece by piece (a list of fragments with the quotes among them, joined with
            # ''): there is no template to take the text between the quotes from.  The writer itself is evaluated: what it
            # returns for a value is the value (bare) or a quoted-string that decodes to it
            if W.fi.cls is not None or not W.params:
                raise AnalysisError(f"{W.fi.fq}: a text with double quotes is assembled piecewise ({show(pieces[0])[:80]}): not understood")
            nsites += 1
            machine = getattr(conc, "machine")
            flags = [p_ for p_ in W.params[1:] if is_c(W.defaults.get(p_, NONE)) and isinstance(cv(W.defaults[p_]), bool)]
            rows = []
            for kw in [{}] + [{p_: not cv(W.defaults[p_])} for p_ in flags]:
                for s_ in smp:
                    r = machine.outcome(lambda: machine.run(W.fi, [s_], dict(kw)))
                    dec = s_ if r == s_ and kw == {} else H.rfc_unquote_full(r) if isinstance(r, str) else r
                    rows.append(((s_, kw), dec, s_))
            ctx.ob(R, f"text between double quotes is the escaped form of its value (assembled piecewise in {W.fi.name})", all(g == w_ for _, g, w_ in rows), f"`{show(pieces[0])[:100]}`: {W.fi.name}(s) evaluated on {len(rows)} calls over {sorted(set(_QUOTE_ALPHABET))}, a quoted result decoded as an RFC 9110 quoted-string; {_first_bad(rows)}", W.fi, W.fi.node, "quoted text assembled piecewise")
        for part, conds, tmpl in _quoted_sites(W):
            nsites += 1
            leaves = _leaves(part)
            where = f"`{tmpl}` in {W.fi.name}"
            construct = f"quoted text {show(part)[:80]}"
            if len(leaves) > 1:
                raise AnalysisError(f"{W.fi.fq}: the text between double quotes in `{tmpl}` is computed from several values ({', '.join(show(x)[:40] for x in leaves)}): not understood")
            leaf = leaves[0] if leaves else None
            rel = [(a, tr) for a, tr in conds if leaf is not None and any(x == leaf for x in walk(a))]
            rows = []
            for s_ in smp if leaf is not None else [None]:
                env = {leaf: s_} if leaf is not None else {}
                try:
                    if not all(bool(conc.val(a, env)) == tr for a, tr in rel):
                        continue
                    r = conc.val(part, env)
                except Raised as ex:
                    rows.append((s_, ("<raises>", ex.kind), s_))
                    continue
                except H.Unknown as ex:
                    raise AnalysisError(f"{W.fi.fq}: the text between double quotes in `{tmpl}` ({show(part)[:80]}) is not evaluated: {ex}")
                if not isinstance(r, str):
                    r = str(r)
                dec = H.rfc_unquote_full('"' + r + '"')
                rows.append((s_, dec if dec is not None else "<" + repr('"' + r + '"') + " is not a quoted-string>", s_ if s_ is not None else dec))
            ok = all(g == w_ for _, g, w_ in rows)
            src = show(leaf)[:60] if leaf is not None else "a constant"
            ctx.ob(R, f"text between double quotes is the escaped form of its value ({where})", ok, f"`{show(part)[:100]}` computed from {src}: '\"' + text + '\"' decoded as an RFC 9110 quoted-string on {len(rows)} strings over {sorted(set(_QUOTE_ALPHABET))}; {_first_bad(rows)}", W.fi, W.fi.node, construct)
    ctx.floor(R, "texts written between literal double quotes", nsites, 1)


# ---------------------------------------------------------------------------------------------------------------
# R6.1 helpers


def _alphabet_test(a: Term, subj: set[Term], conc: Conc) -> tuple[frozenset[str], bool, str | None] | None:
    """atom `every character of the subject is in T` -> (T, truth value of the atom under which it holds, regex method)."""

    def is_set_of_subj(x: Term) -> bool:
        return x in subj or (x[0] == "call" and _gfq(x[1]) in ("builtins.set", "builtins.frozenset") and len(x[2]) == 1 and x[2][0] in subj)

    def setval(x: Term) -> frozenset[str] | None:
        try:
            v = conc.val(x, {})
        except AnalysisError:
            return None
        if isinstance(v, (set, frozenset)) and all(isinstance(c, str) and len(c) == 1 for c in v):
            return frozenset(v)
        if isinstance(v, str):
            return frozenset(v)
        return None

    def rxval(x: Term) -> frozenset[str] | None:
        try:
            v = conc.val(x, {})
        except AnalysisError:
            return None
        if isinstance(v, RegexConst):
            cls_, _rep = single_class(v, 0x3000)
            return frozenset(chr(c) for c in cls_)
        return None

    if a[0] == "meth" and a[1] == "issuperset" and len(a[3]) == 1 and is_set_of_subj(a[3][0]):
        tv = setval(a[2])
        return (tv, True, None) if tv is not None else None
    if a[0] == "meth" and a[1] == "issubset" and len(a[3]) == 1 and is_set_of_subj(a[2]):
        tv = setval(a[3][0])
        return (tv, True, None) if tv is not None else None
    if a[0] == "cmp" and a[1] == "<=" and is_set_of_subj(a[2]) and a[2] not in subj:
        tv = setval(a[3])
        return (tv, True, None) if tv is not None else None
    if a[0] == "bin" and a[1] == "-" and is_set_of_subj(a[2]) and a[2] not in subj:
        tv = setval(a[3])
        return (tv, False, None) if tv is not None else None
    if a[0] == "call" and _gfq(a[1]) == "builtins.all" and len(a[2]) == 1:
        items = coll_items(a[2][0])
        if items is not None and len(items) == 1:
            (cs, it_), = items
            if not cs and it_[0] == "cmp" and it_[1] == "in" and it_[2][0] == "it" and it_[2][1] in subj:
                tv = setval(it_[3])
                return (tv, True, None) if tv is not None else None
    if a[0] == "meth" and a[1] in ("fullmatch", "match", "search") and a[3] and a[3][0] in subj:
        tv = rxval(a[2])
        return (tv, True, a[1]) if tv is not None else None
    if a[0] == "cmp" and a[1] == "is" and a[3] == NONE and a[2][0] == "meth" and a[2][1] in ("fullmatch", "match", "search") and a[2][3] and a[2][3][0] in subj:
        tv = rxval(a[2][2])
        return (tv, False, a[2][1]) if tv is not None else None
    return None


def _evaluated_alphabet(Q: Summary, conc: Conc) -> frozenset[str] | None:
    """the bare alphabet by meaning, for a token test that is not one of the recognised spellings: every character that
    occurs in a value the default call returns unchanged - decided on every one-character string below U+3000 and on
    every string up to length 3 over two of those characters plus the separators, so a test that lets a separator
    through behind / before an allowed character (a prefix match, `any` for `all`) puts the separator in the set.
    None when the summary cannot be evaluated."""

    def bare(s_: str) -> bool:
        try:
            return conc.apply(Q, [s_], {}) == s_
        except Raised:
            return False

    try:
        singles = {chr(c) for c in range(0x3000) if bare(chr(c))}
        reps = sorted(singles & set("a-"))[:2] or sorted(singles)[:2]
        out = set(singles)
        for s_ in H.samples(reps + ['"', "\\", " ", ";", ",", "=", "\u00e9"], 3):
            if len(s_) > 1 and bare(s_):
                out |= set(s_)
    except H.Unknown:
        return None
    return frozenset(out)


def _family(fi: FuncInfo) -> list[FuncInfo]:
    """fi plus the private module-level helpers it (transitively) calls: an extracted helper is read as part of fi."""
    out = [fi]
    i = 0
    while i < len(out):
        for c in astq.calls(out[i].node):
            d = dotted(c.func)
            if d and d.startswith("_") and d in fi.module.functions and fi.module.functions[d] not in out:
                out.append(fi.module.functions[d])
        i += 1
    return out


def _regex_calls(folder: Folder, fi: FuncInfo) -> list[tuple[str, RegexConst, ast.Call, FuncInfo]]:
    out = []
    for g in _family(fi):
        for c in astq.calls(g.node):
            if not (isinstance(c.func, ast.Attribute) and c.func.attr in RX_METHODS):
                continue
            d = dotted(c.func.value)
            if not d:
                continue
            try:
                rx = folder.name(g.module, d)
            except (Unfoldable, AnalysisError):
                continue
            if isinstance(rx, RegexConst):
                out.append((d, rx, c, g))
    return out


def _regex_slot(folder: Folder, fi: FuncInfo, label: str) -> tuple[str, RegexConst]:
    found = {d: rx for d, rx, _, _ in _regex_calls(folder, fi)}
    if len(found) != 1:
        raise AnalysisError(f"{label}: expected one regex, found {sorted(found)}")
    return next(iter(found.items()))


def _option_regex_slots(ctx: Ctx, folder: Folder, po: FuncInfo):
    tok_re = key_re = None
    for d, rx, c, g in _regex_calls(folder, po):
        try:
            cls, rep = single_class(rx, 256)
            if rep[0] >= 1 and rep[1] > 1000:
                tok_re = (d, rx, cls, c, g)
                continue
        except Unfoldable:
            pass
        items = list(rx.parsed())
        if len(items) == 2 and str(items[1][0]) == "LITERAL" and items[1][1] == ord("="):
            kc = classes_in(rx, 256)
            if len(kc) == 1:
                key_re = (d, rx, kc[0], c, g)
    if tok_re is None or key_re is None:
        raise AnalysisError("parse_options_header: token-value / key regex slots not found")
    ctx.saw(tok_re[4], key_re[4])
    return tok_re, key_re


def _first_char_is_quote(e: ast.AST) -> str | None:
    """label of the edge of test atom e on which `the first character of <x> is '"'` holds."""
    if isinstance(e, ast.Compare) and len(e.ops) == 1 and isinstance(e.ops[0], (ast.Eq, ast.NotEq)):
        a, b = e.left, e.comparators[0]
        for x, y in ((a, b), (b, a)):
            if astq.const_str(y) == '"' and isinstance(x, ast.Subscript):
                sl = x.slice
                first = (isinstance(sl, ast.Slice) and (sl.lower is None or (isinstance(sl.lower, ast.Constant) and sl.lower.value == 0)) and isinstance(sl.upper, ast.Constant) and sl.upper.value == 1 and sl.step is None) or (isinstance(sl, ast.Constant) and sl.value == 0)
                if first:
                    return "T" if isinstance(e.ops[0], ast.Eq) else "F"
        for x, y in ((a, b), (b, a)):
            # x.find('"') == 0
            if isinstance(y, ast.Constant) and y.value == 0 and isinstance(x, ast.Call) and isinstance(x.func, ast.Attribute) and x.func.attr == "find" and len(x.args) == 1 and astq.const_str(x.args[0]) == '"':
                return "T" if isinstance(e.ops[0], ast.Eq) else "F"
    if isinstance(e, ast.Call) and isinstance(e.func, ast.Attribute) and e.func.attr == "startswith" and len(e.args) == 1 and astq.const_str(e.args[0]) == '"':
        return "T"
    return None


_QUOTED_FORMS = [
    ('h; k="a b"', ("h", {"k": "a b"})), ('h; k=""', ("h", {"k": ""})), ('h; k="a"', ("h", {"k": "a"})), ('h; k=";"', ("h", {"k": ";"})),
    ('h; k="a;b"; j=c', ("h", {"k": "a;b", "j": "c"})), ('h; j=c; k="a b"', ("h", {"j": "c", "k": "a b"})), ('h; k=" "; j="b"', ("h", {"k": " ", "j": "b"})),
]


def _quoted_alternative(po: FuncInfo, tok_re, machine: H.Machine | None = None) -> tuple[bool, str]:
    """after the token-value regex failed to match, the parser looks for an opening quote."""
    fam = _family(po)
    found = []
    for g in fam:
        cfg = cfg_of(g)
        for tn in cfg.tests():
            if tn.kind == "test" and _first_char_is_quote(tn.ast) is not None:
                found.append((g, cfg, tn))
    if not found and machine is not None:
        # no test of the first character is written out (the quoted form may be recognised by a regex, a helper that
        # returns the end of the quoted string ...): decided by meaning - values that are not tokens, written in the
        # quoted form, are read by the whole function
        rows = [(text, machine.outcome(lambda: machine.run(po, [text])), want) for text, want in _QUOTED_FORMS]
        return all(g == w_ for _, g, w_ in rows), f"no test of the first character after `=` is written out; parse_options_header evaluated on {len(rows)} headers whose values are quoted strings: {_first_bad(rows)}"
    if not found:
        return False, "no test whether the rest starts with a double quote (x[:1] == '\"', x[0] == '\"', x.startswith('\"'), x.find('\"') == 0)"
    call, g = tok_re[3], tok_re[4]
    same = [(cfg, tn) for g2, cfg, tn in found if g2 is g]
    if not same:
        return True, f"opening-quote test `{norm(found[0][2].ast)}` (token regex tried in {g.name})"
    cfg = same[0][0]
    tnode = cfg.node_of(call)
    if tnode is None:
        raise AnalysisError("parse_options_header: token regex call has no CFG node")
    # nodes from which the match result is tested: the call's own test atom, or tests of the local it is bound to
    starts = []
    if tnode.kind == "test":
        lab = _unmatched_label(tnode.ast)
        starts = cfg.succ(tnode, lab)
    else:
        st_ = tnode.ast
        names = [tg.id for tg in getattr(st_, "targets", []) if isinstance(tg, ast.Name)]
        for tn in cfg.tests():
            if tn.kind == "test" and names and any(isinstance(x, ast.Name) and x.id in names for x in ast.walk(tn.ast)) and tn.id in cfg.reach(tnode):
                starts += cfg.succ(tn, _unmatched_label(tn.ast))
    if not starts:
        raise AnalysisError("parse_options_header: cannot see where the result of the token regex is tested")
    r = cfg.reach(starts)
    ok = any(tn.id in r for _, tn in same)
    return ok, f"opening-quote test `{norm(same[0][1].ast)}` {'is' if ok else 'is NOT'} reached when {tok_re[0]} does not match"


def _unmatched_label(e: ast.AST) -> str:
    from ..guards import canon

    k, p = canon(e)
    if k.endswith(" is None"):
        return "T" if p else "F"  # atom true iff (x is None) == p
    return "F" if p else "T"


# ---------------------------------------------------------------------------------------------------------------
# bounded evaluation helpers


_MISSING = object()


def _pick_value(conc: Conc, items: list[H.Outcome], env: dict[Term, t.Any], default: t.Any = _MISSING) -> t.Any:
    """what the loop body stores for the sample element: the items whose condition holds must agree."""
    vals = H.matching_items(conc, items, env)
    vals = [v[1:] if isinstance(v, tuple) and v[:1] == ("kv",) else v for v in vals]
    if not vals:
        return "<no item is stored>" if default is _MISSING else default
    if len(vals) > 1:
        return ("<several items>", *vals)
    return vals[0]


# ---------------------------------------------------------------------------------------------------------------
# R6.4 helpers


def _is_stop(t_: Term) -> bool:
    if t_[0] == "idx" and t_[2] == C(1):
        return True
    return t_[0] == "attr" and "stop" in t_[2].lower()


def _stop_offsets(t_: t.Any, out: list[int], off: int = 0) -> None:
    """offsets applied to the exclusive stop (second element of a range pair / the stop attribute) where it occurs in a value."""
    if isinstance(t_, frozenset):
        for x in t_:
            _stop_offsets(x, out)
        return
    if not isinstance(t_, tuple) or not t_ or is_c(t_):
        return
    if isinstance(t_[0], str):
        if _is_stop(t_):
            out.append(off)
            return
        if t_[0] == "bin" and t_[1] == "+" and is_c(t_[3]) and isinstance(cv(t_[3]), int):
            _stop_offsets(t_[2], out, off + cv(t_[3]))
            return
        items = coll_items(t_)
        if items is not None:
            for _, it_ in items:
                _stop_offsets(it_, out)
            return
    for x in t_:
        _stop_offsets(x, out)


def _parsed_offsets(v: Term, out: list[int], where: str) -> None:
    """offset applied to a parsed integer stored in a stop slot (None = open end)."""
    if v == NONE:
        return
    if v[0] == "alt":
        for x in v[1]:
            _parsed_offsets(x, out, where)
        return
    off = 0
    core = v
    if v[0] == "bin" and v[1] == "+" and is_c(v[3]) and isinstance(cv(v[3]), int):
        off, core = cv(v[3]), v[2]
    if core[0] == "call" and (_gfq(core[1]) or "").rsplit(".", 1)[-1] in ("_plain_int", "int"):
        out.append(off)
        return
    raise AnalysisError(f"{where}: stop value not understood: {show(v)}")


# ---------------------------------------------------------------------------------------------------------------
# R6.5 helpers


def _delegated(summ: Summary, sums: Summaries | None) -> list[H.Outcome]:
    """the return outcomes of a writer; where it returns the result of another function of the package as it is
    (`return http.dump_header(self._headers)`), the outcomes of that function with the arguments put in."""
    out: list[H.Outcome] = []
    for o in summ.returns:
        callee = sums.func_by_fq(_gfq(o.term[1]) or "") if sums is not None and o.term[0] == "call" else None
        if callee is None or callee.cls is not None or any(kw[1] == "**" for kw in o.term[3]):
            out.append(o)
            continue
        cs = sums.of(callee)  # type: ignore[union-attr]
        m: dict[str, Term] = dict(zip(cs.params, o.term[2]))
        m.update({kw[1]: kw[2] for kw in o.term[3]})
        for p_ in cs.params:
            if p_ not in m and p_ in cs.defaults:
                m[p_] = cs.defaults[p_]
        if any(p_ not in m for p_ in cs.params):
            out.append(o)
            continue
        for oc in cs.returns:
            out.append(H.Outcome("return", tuple(o.conds) + tuple((H.subst(a, m), tr) for a, tr in oc.conds), H.subst(oc.term, m), o.node))
    return out


def _attr_kinds(ci: t.Any, attr: str) -> set[str]:
    """what is ever stored in `self.<attr>` by the methods of the class: 'list' (list(..) / display / comprehension),
    'dict', 'set', or '?' (anything else)."""
    kinds: set[str] = set()
    for m_ in ci.methods.values():
        selfn = m_.params[0] if m_.params else None
        for n in ast.walk(m_.node):
            tgts = n.targets if isinstance(n, ast.Assign) else [n.target] if isinstance(n, (ast.AnnAssign, ast.AugAssign)) else []
            for tg in tgts:
                for x in ast.walk(tg):
                    if isinstance(x, ast.Attribute) and x.attr == attr and isinstance(x.value, ast.Name) and x.value.id == selfn and isinstance(x.ctx, ast.Store):
                        v = getattr(n, "value", None)
                        if isinstance(n, ast.AugAssign) or tg is not x:
                            kinds.add("?")
                        elif isinstance(v, (ast.List, ast.ListComp)) or (isinstance(v, ast.Call) and dotted(v.func) in ("list", "sorted")):
                            kinds.add("list")
                        elif isinstance(v, (ast.Dict, ast.DictComp)) or (isinstance(v, ast.Call) and dotted(v.func) == "dict"):
                            kinds.add("dict")
                        elif isinstance(v, (ast.Set, ast.SetComp)) or (isinstance(v, ast.Call) and dotted(v.func) in ("set", "frozenset")):
                            kinds.add("set")
                        else:
                            kinds.add("?")
    return kinds


def _type_test_refuted(conds: t.Iterable[tuple[Term, bool]], ci: t.Any) -> bool:
    """the path asks `isinstance(self.<attr>, dict)` to hold for an attribute that only ever holds lists (or the like)."""
    for a, tr in conds:
        if a[0] == "call" and _gfq(a[1]) == "builtins.isinstance" and len(a[2]) == 2 and a[2][0][0] == "attr" and a[2][0][1][0] == "p" and _gfq(a[2][1]) in ("builtins.dict", "builtins.list", "builtins.set"):
            kinds = _attr_kinds(ci, a[2][0][2])
            if kinds and "?" not in kinds and ((_gfq(a[2][1]).rsplit(".", 1)[1] in kinds) != tr) and len(kinds) == 1:  # type: ignore[union-attr]
                return True
    return False


def _joined(summ: Summary, label: str, sums: Summaries | None = None) -> tuple[set[str], list[tuple[tuple, Term]]]:
    """separators and items of the join(s) that make up the returned text."""
    seps: set[str] = set()
    items: list[tuple[tuple, Term]] = []
    for o in _delegated(summ, sums):
        if sums is not None and summ.fi.cls is not None and _type_test_refuted(o.conds, summ.fi.cls):
            continue
        js = [x for x in walk(o.term) if x[0] == "join"]
        if not js:
            if is_c(o.term) or o.term[0] == "p":
                continue  # nothing to join on this path: a constant, or the text handed in (the bare header value)
            raise AnalysisError(f"{label}: returned text is not a join: {show(o.term)[:120]}")
        for j in js:
            if not is_cstr(j[1]):
                raise AnalysisError(f"{label}: join separator is not a constant")
            seps.add(cv(j[1]))
            its_ = coll_items(j[2])
            if its_ is None:
                raise AnalysisError(f"{label}: joined collection is not built here: {show(j[2])[:120]}")
            for cs, it_ in its_:
                items.append((o.conds + cs, it_))
    return seps, items


def _ends_with_star(a: Term, key: Term) -> bool:
    if a[0] == "cmp" and a[1] == "==":
        for x, y in ((a[2], a[3]), (a[3], a[2])):
            if y == C("*") and ((x[0] == "idx" and x[1] == key and x[2] == C(-1)) or (x[0] == "slice" and x[1] == key and x[2] == C(-1) and x[3] == NONE)):
                return True
    return a[0] == "meth" and a[1] == "endswith" and a[2] == key and len(a[3]) == 1 and a[3][0] == C("*")


def _kv_items(items: list[tuple[tuple, Term]], label: str) -> tuple[bool, bool, tuple[str, str]]:
    shapes = set()
    n_quoted = 0
    unq = []
    for conds, it_ in items:
        ps = _parts(it_)
        if not any(is_cstr(p) for p in ps):
            shapes.add("x")
            continue
        shape = "".join(cv(p) if is_cstr(p) else "x" for p in ps)
        shapes.add(shape)
        if shape != "x=x":
            continue
        key, val = ps[0], ps[2]
        if _is_call_to(val, "quote_header_value") and val[2]:
            n_quoted += 1
            continue
        if any(tr and _ends_with_star(a, key) for a, tr in conds):
            continue
        starish = [a for a, _ in conds if any(x == C("*") for x in walk(a))]
        if starish and not any(_ends_with_star(a, key) for a in starish):
            raise AnalysisError(f"{label}: a test on '*' guards an unquoted value but its shape is not understood: {show(starish[0])}")
        unq.append(f"`{show(it_)}` under `{show_conds(conds)}`")
    kv_ok = shapes <= {"x", "x=x"} and "x=x" in shapes
    q_ok = n_quoted >= 1 and not unq
    return kv_ok, q_ok, (f"item forms {sorted(shapes)}", f"{n_quoted} quoted key=value form(s); unquoted without a key ending in '*': {unq or 'none'}")


def _csp_template(DC: Summary) -> tuple[str, str]:
    seps, items = _joined(DC, "dump_csp_header")
    inners = set()
    for _, it_ in items:
        ps = _parts(it_)
        if len(ps) != 3 or not is_cstr(ps[1]) or is_c(ps[0]) or is_c(ps[2]):
            raise AnalysisError(f"dump_csp_header: item is not <key><const><value>: {show(it_)}")
        inners.add(cv(ps[1]))
    if len(seps) != 1 or len(inners) != 1:
        raise AnalysisError(f"dump_csp_header: separators {sorted(seps)} / {sorted(inners)}")
    return next(iter(seps)), next(iter(inners))


def _etag_template(ET: Summary) -> tuple[str, tuple[str, str], tuple[str, str]]:
    seps, items = _joined(ET, "ETags.to_header")
    forms: dict[str, tuple[str, str]] = {}
    for _, it_ in items:
        ps = _parts(it_)
        vals = [p for p in ps if not is_c(p)]
        if len(vals) != 1 or vals[0][0] != "it":
            raise AnalysisError(f"ETags.to_header: item is not <const><tag><const>: {show(it_)}")
        i = ps.index(vals[0])
        pre = "".join(cv(p) for p in ps[:i])
        post = "".join(cv(p) for p in ps[i + 1 :])
        src = show(vals[0][1]).lower()
        role = "weak" if "weak" in src else "strong" if "strong" in src else None
        if role is None or role in forms:
            raise AnalysisError(f"ETags.to_header: cannot tell which set `{show(vals[0][1])}` is")
        forms[role] = (pre, post)
    if len(seps) != 1 or set(forms) != {"weak", "strong"}:
        raise AnalysisError(f"ETags.to_header: separators {sorted(seps)}, forms {sorted(forms)}")
    return next(iter(seps)), forms["strong"], forms["weak"]


def _group_index(t_: Term) -> int | None:
    if t_[0] == "idx" and is_c(t_[2]) and isinstance(cv(t_[2]), int):
        if t_[1][0] == "meth" and t_[1][1] == "groups":
            return cv(t_[2]) + 1
        if t_[1][0] == "meth" and t_[1][1] in ("match", "fullmatch", "search"):
            return cv(t_[2])
    if t_[0] == "meth" and t_[1] == "group" and len(t_[3]) == 1 and is_c(t_[3][0]) and isinstance(cv(t_[3][0]), int):
        return cv(t_[3][0])
    return None


def _group_truth(a: Term, tr: bool) -> tuple[int, bool] | None:
    """(regex group, present?) stated by a condition atom with truth value tr: `g` / `g is None` / `bool(g)`
    (a group that took part in the match is a non-empty text for the W/ marker and, in the property's domain of
    non-empty tags, for the tag groups)."""
    gi = _group_index(a)
    if gi is not None:
        return gi, tr
    if a[0] == "cmp" and a[1] == "is" and NONE in (a[2], a[3]):
        gi = _group_index(a[3] if a[2] == NONE else a[2])
        if gi is not None:
            return gi, not tr
    return None


def _mentions_group(a: Term) -> bool:
    return any(_group_index(x) is not None or (x[0] == "meth" and x[1] in ("groupdict", "group")) for x in walk(a))


def _star_comparisons(conds: t.Iterable[tuple[Term, bool]]) -> list[Term]:
    """what is compared with '*' in the conditions that hold: `x == '*'`, `'*' in [x ...]`, `any(x == '*' ...)`"""
    out: list[Term] = []

    def of_cmp(a: Term) -> None:
        if a[0] == "cmp" and a[1] == "==" and C("*") in (a[2], a[3]):
            out.append(a[3] if a[2] == C("*") else a[2])

    for a, tr in conds:
        if not tr:
            continue
        of_cmp(a)
        if a[0] == "call" and _gfq(a[1]) == "builtins.any" and len(a[2]) == 1 and coll_items(a[2][0]) is not None:
            for _, it_ in coll_items(a[2][0]):  # type: ignore[union-attr]
                of_cmp(it_)
        if a[0] == "cmp" and a[1] == "in" and a[2] == C("*") and coll_items(a[3]) is not None:
            out.extend(it_ for _, it_ in coll_items(a[3]))  # type: ignore[union-attr]
    return out


def _etag_routing(PE: Summary) -> tuple[bool, str]:
    """which regex group ends up in which list, under which conditions; and what is compared with '*'."""
    ok = True
    facts = []
    builds = [(o, x) for o in PE.returns for x in [o.term] if _is_call_to(x, "ETags")]
    lists = [(o, x) for o, x in builds if _arg(x, 0, "strong_etags") is not None and _arg(x, 1, "weak_etags") is not None]
    stars = [(o, x) for o, x in builds if _arg(x, 2, "star_tag") == H.TRUE]
    if not lists or not stars:
        raise AnalysisError("parse_etags: `ETags(<strong>, <weak>)` / `ETags(star_tag=True)` results not found")
    seen = set()
    for o, x in lists:
        for role, coll in (("strong", _arg(x, 0, "strong_etags")), ("weak", _arg(x, 1, "weak_etags"))):
            items = coll_items(coll)  # type: ignore[arg-type]
            if items is None:
                raise AnalysisError(f"parse_etags: the {role} list is not built here")
            for cs, it_ in items:
                gi = _group_index(it_)
                if gi not in (2, 3):
                    raise AnalysisError(f"parse_etags: item of the {role} list is not a regex group: {show(it_)}")
                truth = dict(gt for a, tr in cs for gt in [_group_truth(a, tr)] if gt is not None)
                good = truth.get(1) == (role == "weak") and truth.get(2) == (gi == 2)
                seen.add((role, gi))
                if not good:
                    # a condition on the match that is not read as "group n present / absent" is not a verdict
                    odd = [a for a, tr in cs if _group_truth(a, tr) is None and _mentions_group(a) and not (a[0] == "cmp" and a[1] == "==" and C("*") in (a[2], a[3]))]
                    if odd and (truth.get(1) is None or truth.get(2) is None):
                        raise AnalysisError(f"parse_etags: the {role} list is filled under a condition on the regex match that is not understood: {show(odd[0])[:120]}")
                    ok = False
                    facts.append(f"{role} list receives group {gi} under `{show_conds(cs)}`")
    missing = {("strong", 2), ("strong", 3), ("weak", 2), ("weak", 3)} - seen
    if missing:
        if PE.lost:
            raise AnalysisError(f"parse_etags: tags are stored into a container that is not followed ({PE.lost[0]}); never seen stored: {sorted(missing)}")
        ok = False
        facts.append(f"never stored: {sorted(missing)}")
    if ok:
        facts.append("group 2 (quoted text) is kept when present, else group 3; group 1 (W/) selects the weak list")
    star_ok = True
    for o, _ in stars:
        cmps = _star_comparisons(o.conds)
        if not cmps:
            if any(x[0] in ("it", "v") or (x[0] == "call" and _gfq(x[1]) not in ("builtins.len", "builtins.bool")) for a, _ in o.conds for x in walk(a)):
                raise AnalysisError("parse_etags: star result without a comparison with '*'")
            star_ok = False
            facts.append(f"the star result is returned under `{show_conds(o.conds)[:160]}`, which compares nothing with '*'")
        for other in cmps:
            if _group_index(other) != 3:
                star_ok = False
                facts.append(f"'*' is compared with {show(other)}")
    facts.append(f"'*' is compared with the raw (unquoted) group only: {star_ok}")
    return ok and star_ok, "; ".join(facts)


def _range_template(RT: Summary) -> tuple[bool, str, set[str]]:
    seps, items = _joined(RT, "Range.to_header")
    tops: set[str] = set()
    for o in RT.returns:
        tops |= set(_const_parts(o.term))
    item_consts: set[str] = set()
    two = False
    for _, it_ in items:
        cs = _const_parts(it_)
        item_consts |= set(cs)
        ps = _parts(it_)
        if len(ps) == 3 and ps[1] == C("-") and not is_c(ps[0]) and not is_c(ps[2]):
            two = True
    ok = tops == {"="} and seps == {","} and item_consts <= {"-"} and two
    return ok, f"template <units>{sorted(tops)}<items joined by {sorted(seps)}>, item constants {sorted(item_consts)}", tops | seps | item_consts
