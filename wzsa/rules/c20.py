"""C20 - host trust and the debugger's gates cannot be bypassed (structural clauses)."""

from __future__ import annotations

import ast

from .. import astq
from ..cfg import CFG, Node, cfg_of
from ..dataflow import ReachingDefs
from ..loader import AnalysisError, FuncInfo, dotted, norm, walk_no_nested
from ..report import Ctx

LEVEL_TEXT = (
    "Static decision of structural clauses of C20 on /repo's current source: (R20.1) frame evaluation is reachable only "
    "from execute_command, which is called only from the dispatcher under the conjunction evalex & cmd & frame & secret "
    "equality & PIN trust inside the __debugger__ branch, and inside it only past the host check; (R20.2) in every "
    "debugger command handler every statement is dominated by the true edge of the host check, whose false edge returns "
    "SecurityError; console/pinauth/printpin are dispatched only under their documented guards; (R20.3) the PIN "
    "comparison is reachable only below the failure threshold (constant 10, strict), every rejecting branch counts a "
    "failure, the counter is a strict increment under its lock, the cookie is issued only when authenticated; (R20.4) "
    "cookie trust is truthy only with the PIN off or after hash equality and the expiry comparison, malformed values "
    "return False; (R20.5) host_is_trusted returns True only under equality or a dot-anchored suffix test of a dotted "
    "entry, both sides pass the same normalisation, port stripping is bracket-aware, every exception of the idna codec "
    "yields False, and get_host / Request.host enforce the list with SecurityError. It decides these clauses on all "
    "paths; the strength of PIN and secret is not decided."
)
TRUSTED = ["CPython ast", "the idna codec raises UnicodeError (base class) for empty or over-long labels (CPython Lib/encodings/idna.py)"]
ASSUMPTIONS = ["letter-case variants of a trusted host may go either way (as the property states)"]


def _g(cfg: CFG, node: Node) -> set[str]:
    return {f"{norm(t.ast)}:{l}" for t, l in cfg.guards(node)}


def _has_guard(g: set[str], *alts: str) -> bool:
    return any(a in g for a in alts)


def run(ctx: Ctx) -> None:
    repo = ctx.repo
    for rid, text in {
        "R20.1": "frame.eval is reachable only through execute_command <- __call__ under evalex & cmd is not None & frame is not None & secret equality & check_pin_trust, in the __debugger__ == 'yes' branch; inside execute_command only past the host check",
        "R20.2": "in execute_command, display_console, pin_auth, log_pin_request every statement is dominated by the true edge of check_host_trust; the false edge returns SecurityError; dispatch guards of console / pinauth / printpin",
        "R20.3": "PIN compare only under `failed <= 10`; rejecting branches call _fail_pin_auth; counter strictly incremented under its lock; set_cookie only under auth",
        "R20.4": "check_pin_trust is truthy only with the PIN off or after hash equality and expiry comparison; malformed cookie -> False",
        "R20.5": "host_is_trusted: True only under equality or dot-anchored suffix of a dotted entry; same normalisation both sides; bracket-aware port strip; idna errors -> False; get_host raises SecurityError; Request.host forwards trusted_hosts",
    }.items():
        ctx.rule(rid, text)

    dbg = repo.module("debug")
    app = repo.cls("debug.DebuggedApplication")
    call = app.methods.get("__call__")
    if call is None:
        raise AnalysisError("DebuggedApplication.__call__ missing")
    ctx.saw(call)
    ccfg = cfg_of(call)

    # ---------------- R20.1 -------------------------------------------
    evals = []
    # _ConsoleFrame is the evaluator itself (its eval() is what execute_command calls); every other function of the module is a potential caller
    for fi in list(dbg.functions.values()) + [m for c in dbg.classes.values() if c.name != "_ConsoleFrame" for m in c.methods.values()]:
        for c in astq.calls(fi.node):
            if isinstance(c.func, ast.Attribute) and c.func.attr in ("eval", "runsource", "runcode", "exec"):
                evals.append((fi, c))
            if dotted(c.func) in ("eval", "exec"):
                evals.append((fi, c))
    ctx.ob("R20.1", "frame evaluation occurs only in execute_command", [f.qualname for f, _ in evals] == ["DebuggedApplication.execute_command"], f"eval sites: {[f.qualname for f, _ in evals]}", app.methods["execute_command"], evals[0][1] if evals else None, "eval sites")
    ec = app.methods["execute_command"]
    callers = []
    for fi in repo.all_functions():
        for c in astq.calls(fi.node):
            if isinstance(c.func, ast.Attribute) and c.func.attr == "execute_command":
                callers.append((fi, c))
    ctx.ob("R20.1", "execute_command is called only from the dispatcher", [f.qualname for f, _ in callers] == ["DebuggedApplication.__call__"], f"callers: {[f.fq for f, _ in callers]}", call, callers[0][1] if callers else None, "execute_command callers")
    if callers:
        cn = ccfg.node_of(callers[0][1])
        g = _g(ccfg, cn)
        need = {
            "evaluation enabled": ("self.evalex:T",),
            "a command is given": ("cmd is not None:T",),
            "the frame exists": ("frame is not None:T",),
            "the secret matches": ("self.secret == secret:T", "secret == self.secret:T"),
            "the PIN cookie is trusted": ("self.check_pin_trust(environ):T", "self.check_pin_trust(request.environ):T"),
            "inside the debugger branch": ("request.args.get('__debugger__') == 'yes':T",),
        }
        for what, alts in need.items():
            ctx.ob("R20.1", f"eval dispatch requires: {what}", _has_guard(g, *alts), f"dominating guards of the call: {sorted(g)}", call, callers[0][1], f"eval gate {what}")
        # arguments: the command and the frame that were tested
        a = callers[0][1].args
        ctx.ob("R20.1", "the tested cmd and frame are the ones evaluated", len(a) == 3 and norm(a[1]) == "cmd" and norm(a[2]) == "frame", f"args {[norm(x) for x in a]}", call, callers[0][1], "eval args")
        # slots: secret / frame / cmd come from the request
        for nm, src in (("secret", "request.args.get('s')"), ("cmd", "request.args.get('cmd')")):
            ds = [norm(v) for _, v in astq.assigns_to(call.node, nm) if v is not None]
            ctx.ob("R20.1", f"`{nm}` is the request's parameter", ds == [src], f"{ds}", call, call.node, f"slot {nm}")
        ds = [norm(v) for _, v in astq.assigns_to(call.node, "frame") if v is not None]
        ctx.ob("R20.1", "`frame` is looked up in self.frames (unknown id -> None)", len(ds) == 1 and ds[0].startswith("self.frames.get("), f"{ds}", call, call.node, "slot frame")

    # ---------------- R20.2 -------------------------------------------
    handlers = ["execute_command", "display_console", "pin_auth", "log_pin_request"]
    nh = 0
    for hn in handlers:
        fi = app.methods.get(hn)
        if fi is None:
            raise AnalysisError(f"DebuggedApplication.{hn} missing")
        ctx.saw(fi)
        cfg = cfg_of(fi)
        ht = [t for t in cfg.tests() if t.kind == "test" and isinstance(t.ast, ast.Call) and isinstance(t.ast.func, ast.Attribute) and t.ast.func.attr == "check_host_trust"]
        if len(ht) != 1:
            nh += 1
            ctx.ob("R20.2", f"{hn} checks the Host", False, f"{len(ht)} host check(s)", fi, fi.node, f"{hn} host check")
            continue
        nh += 1
        t = ht[0]
        arg_ok = len(t.ast.args) == 1 and norm(t.ast.args[0]) in ("request.environ",)
        others = [n for n in cfg.nodes if n.ast is not None and n is not t and n.kind in ("stmt", "test", "loop", "with") and not (isinstance(n.ast, ast.Expr) and isinstance(n.ast.value, ast.Constant))]
        fside = cfg.succ(t, "F")
        fret = bool(fside) and all(isinstance(s.ast, ast.Return) and norm(s.ast.value).startswith("SecurityError(") for s in fside)
        undominated = [n for n in others if n not in fside and not cfg.edge_dominates(t, "T", n)]
        ctx.ob("R20.2", f"{hn}: every statement is behind the host check", arg_ok and not undominated and fret, f"host check on request.environ: {arg_ok}; false edge returns SecurityError: {fret}; statements not dominated by the true edge: {[n.text()[:40] for n in undominated]}", fi, t.ast, f"{hn} host gate")
    ctx.floor("R20.2", "command handlers with a host check", nh, 4)
    # dispatch guards
    for meth, need in (
        ("display_console", [("self.evalex:T",), ("self.console_path is not None:T",), ("request.path == self.console_path:T", "self.console_path == request.path:T")]),
        ("pin_auth", [("cmd == 'pinauth':T",), ("secret == self.secret:T", "self.secret == secret:T"), ("request.args.get('__debugger__') == 'yes':T",)]),
        ("log_pin_request", [("cmd == 'printpin':T",), ("secret == self.secret:T", "self.secret == secret:T"), ("request.args.get('__debugger__') == 'yes':T",)]),
    ):
        cs = [c for c in astq.calls(call.node) if isinstance(c.func, ast.Attribute) and c.func.attr == meth]
        if len(cs) != 1:
            ctx.ob("R20.2", f"dispatcher calls {meth} once", False, f"{len(cs)} call(s)", call, call.node, f"dispatch {meth}")
            continue
        g = _g(ccfg, ccfg.node_of(cs[0]))
        miss = [alts[0] for alts in need if not _has_guard(g, *alts)]
        ctx.ob("R20.2", f"dispatch of {meth} is guarded", not miss, f"missing guards {miss}; has {sorted(g)}", call, cs[0], f"dispatch {meth} guards")
        other_callers = [f.fq for f in repo.all_functions() for c in astq.calls(f.node) if isinstance(c.func, ast.Attribute) and c.func.attr == meth and f is not call]
        ctx.ob("R20.2", f"{meth} has no other caller", not other_callers, f"{other_callers}", call, cs[0], f"{meth} callers")
    cht = app.methods["check_host_trust"]
    ctx.ob("R20.2", "check_host_trust is host_is_trusted(Host header, self.trusted_hosts)", any(norm(r.value) == "host_is_trusted(environ.get('HTTP_HOST'), self.trusted_hosts)" for r in astq.returns_of(cht.node)), "", cht, cht.node, "check_host_trust body")

    # ---------------- R20.3 -------------------------------------------
    pa = app.methods["pin_auth"]
    cfg = cfg_of(pa)
    rd = ReachingDefs(cfg, pa.params)
    thr = [t for t in cfg.tests() if t.kind == "test" and isinstance(t.ast, ast.Compare) and "_failed_pin_auth.value" in norm(t.ast.left) and isinstance(t.ast.ops[0], (ast.Gt, ast.GtE))]
    pin_cmp = [t for t in cfg.tests() if t.kind == "test" and isinstance(t.ast, ast.Compare) and isinstance(t.ast.ops[0], ast.Eq) and "entered_pin" in norm(t.ast) and "pin" in norm(t.ast.comparators[0])]
    if len(thr) != 1 or len(pin_cmp) != 1:
        raise AnalysisError(f"pin_auth: threshold test ({len(thr)}) / PIN comparison ({len(pin_cmp)}) slots not found")
    th, pc = thr[0], pin_cmp[0]
    const = th.ast.comparators[0]
    k = const.value if isinstance(const, ast.Constant) else None
    strict = isinstance(th.ast.ops[0], ast.Gt)
    ctx.ob("R20.3", "failure threshold is `> 10` (more than ten failures)", (k == 10 and strict) or (k == 11 and not strict), f"`{norm(th.ast)}`", pa, th.ast, "pin threshold constant")
    ctx.ob("R20.3", "PIN is compared only below the failure threshold", cfg.edge_dominates(th, "F", pc), "PIN comparison dominated by the false edge of the threshold test", pa, pc.ast, "pin compare below threshold")
    # reading the submitted PIN is also below the threshold
    auth_sets = [n for n in cfg.nodes if isinstance(n.ast, ast.Assign) and astq.is_name(n.ast.targets[0], "auth") and norm(n.ast.value) == "True"]
    trust_t = [t for t in cfg.tests() if t.kind == "test" and norm(t.ast) == "trust"]
    ok = bool(auth_sets)
    facts = []
    for a in auth_sets:
        by_pin = cfg.edge_dominates(pc, "T", a)
        by_trust = any(cfg.edge_dominates(t, "T", a) for t in trust_t)
        facts.append(f"L{a.lineno}: pin-compare={by_pin} cookie-trust={by_trust}")
        ok = ok and (by_pin or by_trust)
    ctx.ob("R20.3", "auth becomes True only by a trusted cookie or a matching PIN", ok, "; ".join(facts), pa, pa.node, "auth sources")
    tdefs = [norm(v) for _, v in astq.assigns_to(pa.node, "trust") if v is not None]
    ctx.ob("R20.3", "`trust` is check_pin_trust(request.environ)", tdefs == ["self.check_pin_trust(request.environ)"], f"{tdefs}", pa, pa.node, "trust source")
    other_auth = [norm(s) for s, v in astq.assigns_to(pa.node, "auth") if v is None or norm(v) not in ("True", "False")]
    ctx.ob("R20.3", "auth is only ever assigned constants", not other_auth, f"{other_auth}", pa, pa.node, "auth constants")
    # failures counted: comparison false edge, and trust is None
    fails = [cfg.node_of(c) for c in astq.calls(pa.node) if isinstance(c.func, ast.Attribute) and c.func.attr == "_fail_pin_auth"]
    f_on_wrong = any(cfg.edge_dominates(pc, "F", f) for f in fails)
    none_t = [t for t in cfg.tests() if t.kind == "test" and norm(t.ast) == "trust is None"]
    f_on_bad_cookie = bool(none_t) and any(cfg.edge_dominates(none_t[0], "T", f) for f in fails)
    ctx.ob("R20.3", "a wrong PIN and a forged cookie each count as a failure", f_on_wrong and f_on_bad_cookie, f"wrong PIN -> _fail_pin_auth: {f_on_wrong}; bad cookie hash -> _fail_pin_auth: {f_on_bad_cookie}", pa, pa.node, "failures counted")
    # every path from the PIN comparison's false edge to the exit passes a failure
    wrong_paths_ok = all(cfg.all_paths_pass(s, [cfg.exit], [f for f in fails if f is not None]) for s in cfg.succ(pc, "F"))
    ctx.ob("R20.3", "no path from a wrong PIN to the response skips the failure counter", wrong_paths_ok, "", pa, pc.ast, "wrong pin always counted")
    sc = [cfg.node_of(c) for c in astq.calls(pa.node) if isinstance(c.func, ast.Attribute) and c.func.attr == "set_cookie"]
    auth_t = [t for t in cfg.tests() if t.kind == "test" and norm(t.ast) == "auth"]
    ctx.ob("R20.3", "the PIN cookie is issued only when authenticated", bool(sc) and bool(auth_t) and all(cfg.edge_dominates(auth_t[0], "T", s) for s in sc), f"{len(sc)} set_cookie call(s)", pa, pa.node, "cookie only under auth")
    resets = [n for n in cfg.nodes if isinstance(n.ast, ast.Assign) and "_failed_pin_auth.value" in norm(n.ast.targets[0])]
    ctx.ob("R20.3", "the failure counter is reset only by a matching PIN", all(cfg.edge_dominates(pc, "T", n) and norm(n.ast.value) == "0" for n in resets), f"{[norm(n.ast) for n in resets]}", pa, pa.node, "counter reset")
    fp = app.methods["_fail_pin_auth"]
    ctx.saw(fp)
    incs = [s for s in ast.walk(fp.node) if isinstance(s, (ast.Assign, ast.AugAssign)) and "_failed_pin_auth.value" in norm(s.targets[0] if isinstance(s, ast.Assign) else s.target)]
    ok = False
    fact = f"{[norm(s) for s in incs]}"
    if len(incs) == 1:
        s = incs[0]
        if isinstance(s, ast.AugAssign):
            ok = isinstance(s.op, ast.Add) and isinstance(s.value, ast.Constant) and s.value.value == 1
        else:
            v = s.value
            if isinstance(v, ast.BinOp) and isinstance(v.op, ast.Add) and isinstance(v.right, ast.Constant) and v.right.value == 1:
                base = v.left
                if isinstance(base, ast.Name):
                    ds = [norm(x) for _, x in astq.assigns_to(fp.node, base.id) if x is not None]
                    ok = ds == ["self._failed_pin_auth.value"]
                else:
                    ok = norm(base) == "self._failed_pin_auth.value"
        lock = astq.enclosing(s, (ast.With,))
        locked = isinstance(lock, ast.With) and any("get_lock()" in norm(i.context_expr) for i in lock.items)
        fact += f"; strict +1 of the stored value: {ok}; under get_lock(): {locked}"
        ok = ok and locked
    ctx.ob("R20.3", "_fail_pin_auth strictly increments the shared counter under its lock", ok, fact, fp, fp.node, "counter increment")

    # ---------------- R20.4 -------------------------------------------
    cp = app.methods["check_pin_trust"]
    ctx.saw(cp)
    cfg = cfg_of(cp)
    rets = [(cfg.node_of(r), r) for r in astq.returns_of(cp.node)]
    hash_t = [t for t in cfg.tests() if t.kind == "test" and isinstance(t.ast, ast.Compare) and "hash_pin(self.pin)" in norm(t.ast) and "pin_hash" in norm(t.ast)]
    n4 = 0
    for node, r in rets:
        v = norm(r.value)
        g = _g(cfg, node)
        n4 += 1
        if v == "True":
            ok = g == {"self.pin is None:T"}
            exp = "True only when the PIN is switched off"
        elif v in ("False", "None"):
            ok = True
            exp = "falsy"
        else:
            cmp_ = astq.cmp_parts(r.value) if r.value is not None else None
            shape = bool(cmp_) and isinstance(cmp_[1], ast.Lt) and norm(cmp_[0]) == "time.time() - PIN_TIME" and norm(cmp_[2]) == "ts"
            hashed = len(hash_t) == 1 and (cfg.edge_dominates(hash_t[0], "F", node) if isinstance(hash_t[0].ast.ops[0], ast.NotEq) else cfg.edge_dominates(hash_t[0], "T", node))
            ok = shape and hashed
            exp = f"expiry comparison (shape ok: {shape}) after hash equality (dominated: {hashed})"
        ctx.ob("R20.4", f"check_pin_trust `return {v}`", ok, f"{exp}; guards {sorted(g)}", cp, r, f"pin trust return {v} under {sorted(g)}")
    ctx.floor("R20.4", "returns of check_pin_trust", n4, 3)
    ints = [c for c in astq.calls(cp.node) if dotted(c.func) == "int"]
    ok = bool(ints)
    for c in ints:
        tr = astq.enclosing(c, (ast.Try,))
        ok = ok and isinstance(tr, ast.Try) and any((dotted(h.type) or "") in ("ValueError", "Exception") and any(isinstance(s, ast.Return) and norm(s.value) == "False" for s in h.body) for h in tr.handlers)
    ctx.ob("R20.4", "a non-numeric timestamp yields False", ok, "int(ts_str) inside try/except ValueError -> return False", cp, cp.node, "timestamp parse")
    sp = [t for t in cfg.tests() if t.kind == "test" and norm(t.ast) in ("'|' not in val", "'|' in val")]
    ctx.ob("R20.4", "a cookie without '|' yields False before unpacking", len(sp) == 1, "", cp, cp.node, "cookie separator test")
    hp = repo.func("debug.hash_pin")
    ctx.ob("R20.4", "hash_pin is a salted sha1 prefix of the PIN", "sha1" in norm(hp.node) and "pin" in norm(hp.node), "", hp, hp.node, "hash_pin")

    # ---------------- R20.5 -------------------------------------------
    _host_rules(ctx)


def _norm_chain(e: ast.AST) -> list[str]:
    out = []
    for name, c in astq.method_chain(e):
        out.append(f"{name}({', '.join(norm(a) for a in c.args)})")
    return out


def _host_rules(ctx: Ctx) -> None:
    repo = ctx.repo
    hit = repo.func("sansio.utils.host_is_trusted")
    ctx.saw(hit)
    cfg = cfg_of(hit)
    trues = [cfg.node_of(r) for r in astq.returns_of(hit.node) if norm(r.value) == "True"]
    eq_t = [t for t in cfg.tests() if t.kind == "test" and isinstance(t.ast, ast.Compare) and isinstance(t.ast.ops[0], ast.Eq) and {norm(t.ast.left), norm(t.ast.comparators[0])} == {"ref", "hostname"}]
    suf_t = [t for t in cfg.tests() if t.kind == "test" and isinstance(t.ast, ast.Call) and isinstance(t.ast.func, ast.Attribute) and t.ast.func.attr == "endswith" and astq.is_name(t.ast.func.value, "hostname")]
    flag_t = [t for t in cfg.tests() if t.kind == "test" and norm(t.ast) == "suffix_match"]
    ok = bool(trues) and len(eq_t) == 1
    fact = f"return True sites: {len(trues)}; equality tests: {len(eq_t)}; suffix tests: {len(suf_t)}"
    if ok:
        avoid = [(eq_t[0], "T")] + [(s, "T") for s in suf_t]
        r = cfg.reach(avoid_edges=avoid)
        leak = [t for t in trues if t.id in r]
        ok = not leak
        if leak:
            fact += "; `return True` reachable without the equality or the suffix test: " + cfg.fmt_path(cfg.path(cfg.entry, leak[0], avoid_edges=avoid) or [])
    ctx.ob("R20.5", "True only under `ref == hostname` or the accepted suffix idiom `hostname.endswith('.' + ref)`", ok, fact + " (accepted subdomain idioms: dot-anchored str.endswith of the normalised entry)", hit, hit.node, "host match conditions")
    for s in suf_t:
        a = s.ast.args[0] if s.ast.args else None
        dot = False
        if isinstance(a, ast.JoinedStr) and len(a.values) == 2 and astq.const_str(a.values[0]) == "." and isinstance(a.values[1], ast.FormattedValue) and astq.is_name(a.values[1].value, "ref"):
            dot = True
        if isinstance(a, ast.BinOp) and isinstance(a.op, ast.Add) and astq.const_str(a.left) == "." and astq.is_name(a.right, "ref"):
            dot = True
        flagged = bool(flag_t) and all(cfg.edge_dominates(f, "T", s) for f in flag_t)
        ctx.ob("R20.5", "suffix test is dot-anchored and only for dot-prefixed entries", dot and flagged, f"`{norm(s.ast)}`; dot-anchored: {dot}; dominated by suffix_match: {flagged}", hit, s.ast, "suffix test shape")
    # suffix_match is True only for entries that start with '.'
    fl = astq.assigns_to(hit.node, "suffix_match")
    st = [t for t in cfg.tests() if t.kind == "test" and norm(t.ast) == "ref.startswith('.')"]
    ok = len(st) == 1 and all((norm(v) == "True" and cfg.edge_dominates(st[0], "T", cfg.node_of(s))) or (norm(v) == "False" and cfg.edge_dominates(st[0], "F", cfg.node_of(s))) for s, v in fl if v is not None) and len(fl) == 2
    ctx.ob("R20.5", "suffix matching is enabled exactly for entries starting with '.'", ok, f"{[norm(s) for s, _ in fl]}", hit, hit.node, "suffix flag")
    # same normalisation on both sides
    hchain = [_norm_chain(v) for _, v in astq.assigns_to(hit.node, "hostname") if v is not None]
    rchain = [_norm_chain(v) for _, v in astq.assigns_to(hit.node, "ref") if v is not None and _norm_chain(v)]
    same = bool(hchain) and bool(rchain) and all(h == hchain[0] for h in hchain) and all(r == hchain[0] for r in rchain)
    ctx.ob("R20.5", "Host and entry pass the same normalisation", same, f"host: {hchain}; entry: {rchain}", hit, hit.node, "normalisation symmetry")
    idna = any("encode('idna')" in x for ch in hchain for x in ch)
    ctx.ob("R20.5", "names are compared in IDNA (ASCII) form", idna, f"{hchain}", hit, hit.node, "idna normalisation")
    # bracket-aware port strip (contradiction with get_host, which treats '[...]' as an address literal)
    gh = repo.func("sansio.utils.get_host")
    ctx.saw(gh)
    bracket_in_get_host = any(isinstance(c, ast.Constant) and c.value == "[" for c in ast.walk(gh.node))
    scope = [hit]
    for c in astq.calls(hit.node):
        d = dotted(c.func)
        if d and d in hit.module.functions and hit.module.functions[d] not in scope:
            scope.append(hit.module.functions[d])
    cuts = []
    for fi in scope:
        fcfg = cfg_of(fi)
        for c in astq.calls(fi.node):
            if isinstance(c.func, ast.Attribute) and c.func.attr in ("partition", "split", "rpartition", "rsplit") and c.args and astq.const_str(c.args[0]) == ":":
                node = fcfg.node_of(c)
                guards = _g(fcfg, node) if node is not None else set()
                aware = any("'['" in x or "']'" in x for x in guards)
                cuts.append((fi, c, aware))
    ctx.floor("R20.5", "port strips", len(cuts), 1)
    for fi, c, aware in cuts:
        ctx.ob("R20.5", "port strip does not cut a bracketed address literal at its first colon", aware or not bracket_in_get_host, f"`{norm(c)}` in {fi.name}: guarded by a bracket test: {aware}; get_host treats '[...]' hosts as IPv6 literals: {bracket_in_get_host}", fi, c, f"port strip {norm(c)} in {fi.name}")
    # idna errors yield False
    n_enc = 0
    for fi in scope:
        for c in astq.calls(fi.node):
            if isinstance(c.func, ast.Attribute) and c.func.attr == "encode" and c.args and astq.const_str(c.args[0]) == "idna":
                n_enc += 1
                tr = astq.enclosing(c, (ast.Try,))
                ok = False
                fact = "not inside a try"
                while isinstance(tr, ast.Try):
                    if any(c is x for s in tr.body for x in ast.walk(s)):
                        for h in tr.handlers:
                            names = [dotted(e) or "" for e in (h.type.elts if isinstance(h.type, ast.Tuple) else [h.type])] if h.type is not None else ["BaseException"]
                            covers = any(nm.rsplit(".", 1)[-1] in ("UnicodeError", "ValueError", "Exception", "BaseException") for nm in names)
                            falsy = any(isinstance(s, ast.Return) and norm(s.value) == "False" for s in h.body)
                            fact = f"handler {names}: covers UnicodeError={covers}; returns False={falsy}"
                            if covers and falsy:
                                ok = True
                        if ok:
                            break
                    tr = astq.enclosing(tr, (ast.Try,))
                # a helper without its own handler is fine when every call of it from host_is_trusted is covered
                if not ok and fi is not hit:
                    ok_all = True
                    for cc in astq.calls(hit.node):
                        if dotted(cc.func) == fi.name:
                            t2 = astq.enclosing(cc, (ast.Try,))
                            cov = isinstance(t2, ast.Try) and any(
                                any((dotted(e) or "").rsplit(".", 1)[-1] in ("UnicodeError", "ValueError", "Exception") for e in (h.type.elts if isinstance(h.type, ast.Tuple) else [h.type])) and any(isinstance(s, ast.Return) and norm(s.value) == "False" for s in h.body)
                                for h in t2.handlers if h.type is not None
                            )
                            ok_all = ok_all and cov
                    ok = ok_all
                    fact += f"; covered at every call site in host_is_trusted: {ok_all}"
                ctx.ob("R20.5", "every failure of the idna codec yields False", ok, f"`{norm(c)}` in {fi.name}: {fact}", fi, c, f"idna errors {norm(c)} in {fi.name}")
    ctx.floor("R20.5", "idna encodes", n_enc, 1)
    # empty host -> False first
    first = [s for s in hit.node.body if not (isinstance(s, ast.Expr) and isinstance(s.value, ast.Constant))][0]
    ctx.ob("R20.5", "a missing Host is never trusted", isinstance(first, ast.If) and norm(first.test) == "not hostname" and any(isinstance(s, ast.Return) and norm(s.value) == "False" for s in first.body), "", hit, first, "empty host")
    nonconst = [r for r in astq.returns_of(hit.node) if norm(r.value) not in ("True", "False")]
    ctx.ob("R20.5", "every verdict is a constant: True only under the match conditions, False otherwise", not nonconst, f"non-constant returns: {[norm(r) for r in nonconst]}", hit, nonconst[0] if nonconst else hit.node, "constant verdicts")
    # get_host enforcement
    gcfg = cfg_of(gh)
    raises = [n for n in gcfg.nodes if isinstance(n.ast, ast.Raise) and astq.raised_name(n.ast) == "SecurityError"]
    ok = False
    fact = f"{len(raises)} raise SecurityError"
    if len(raises) == 1:
        g = _g(gcfg, raises[0])
        ok = g == {"trusted_hosts is not None:T", "host_is_trusted(host, trusted_hosts):F"}
        fact = f"guards {sorted(g)}"
        rets = [gcfg.node_of(r) for r in astq.returns_of(gh.node)]
        tn = [t for t in gcfg.tests() if norm(t.ast) == "host_is_trusted(host, trusted_hosts)"]
        nn = [t for t in gcfg.tests() if norm(t.ast) == "trusted_hosts is not None"]
        ok = ok and len(tn) == 1 and len(nn) == 1 and all(r.id not in gcfg.reach(avoid_nodes=tn, avoid_edges=[(nn[0], "F")]) for r in rets)
    ctx.ob("R20.5", "get_host raises SecurityError for an untrusted host whenever a list is configured", ok, fact, gh, gh.node, "get_host enforcement")
    rq = repo.func("sansio.request.Request.host")
    ctx.saw(rq)
    ctx.ob("R20.5", "Request.host passes its trusted_hosts to get_host", any(isinstance(c.func, ast.Name) and c.func.id == "get_host" and any(norm(a) == "self.trusted_hosts" for a in list(c.args) + [k.value for k in c.keywords]) for c in astq.calls(rq.node)), "", rq, rq.node, "request host forwards list")
    wg = repo.func("wsgi.get_host")
    ctx.saw(wg)
    ctx.ob("R20.5", "wsgi.get_host passes trusted_hosts on", any(any(norm(a) == "trusted_hosts" for a in list(c.args) + [k.value for k in c.keywords]) for c in astq.calls(wg.node)), "", wg, wg.node, "wsgi get_host forwards list")
