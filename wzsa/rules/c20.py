"""C20 - host trust and the debugger's gates cannot be bypassed (structural clauses).

Guards are compared as canonical atoms (wzsa/guards.py) with local aliases and
boolean flags expanded, and small predicate / normalisation helpers are followed,
so restructured conditions, hoisted conjuncts and extracted helpers read the same.
"""

from __future__ import annotations

import ast

from .. import astq
from ..cfg import CFG, Node, cfg_of
from ..dataflow import ReachingDefs
from ..guards import Aliases, atom, canon, guard_set, has
from ..loader import AnalysisError, FuncInfo, dotted, norm, walk_no_nested
from ..report import Ctx

LEVEL_TEXT = (
    "Static decision of structural clauses of C20 on /repo's current source: (R20.1) frame evaluation is reachable only "
    "from execute_command, which is called only from the dispatcher under the conjunction evalex & cmd & frame & secret "
    "equality & PIN trust inside the __debugger__ branch, and inside it only past the host check; (R20.2) in every "
    "debugger command handler every statement is dominated by the true edge of the host check, whose false edge returns "
    "SecurityError; console/pinauth/printpin are dispatched only under their documented guards; (R20.3) the PIN "
    "comparison is reachable only below the failure threshold (constant 10, strict), every rejecting branch counts a "
    "failure, the counter is a strict increment under its lock, the cookie is issued only when authenticated; (R20.4) "
    "cookie trust is truthy only with the PIN off or after hash equality and the expiry comparison, malformed values "
    "return False; (R20.5) host_is_trusted returns True only under equality or a dot-anchored suffix test of a dotted "
    "entry, both sides pass the same normalisation, port stripping is bracket-aware, every exception of the idna codec "
    "yields False, and get_host / Request.host enforce the list with SecurityError. It decides these clauses on all "
    "paths; the strength of PIN and secret is not decided."
)
TRUSTED = ["CPython ast", "the idna codec raises UnicodeError (base class) for empty or over-long labels (CPython Lib/encodings/idna.py)"]
ASSUMPTIONS = ["letter-case variants of a trusted host may go either way (as the property states)"]


class F:
    def __init__(self, fi: FuncInfo):
        self.fi = fi
        self.cfg = cfg_of(fi)
        self.rd = ReachingDefs(self.cfg, fi.params)
        self.al = Aliases(self.cfg, self.rd)

    def g(self, node: Node) -> set[tuple[str, bool]]:
        return self.al.guard_set(node)

    def tests(self):
        return [t for t in self.cfg.tests() if t.kind == "test"]


def _fmt(g) -> list[str]:
    return sorted(f"{k}:{'T' if v else 'F'}" for k, v in g)


def _any(g, *texts: str, value: bool = True) -> bool:
    return any(has(g, t, value) for t in texts)


def run(ctx: Ctx) -> None:
    repo = ctx.repo
    for rid, text in {
        "R20.1": "frame.eval is reachable only through execute_command <- __call__ under evalex & cmd is not None & frame is not None & secret equality & check_pin_trust, in the __debugger__ == 'yes' branch; inside execute_command only past the host check",
        "R20.2": "in execute_command, display_console, pin_auth, log_pin_request every statement is dominated by the true edge of check_host_trust; the false edge returns SecurityError; dispatch guards of console / pinauth / printpin",
        "R20.3": "PIN compare only under `failed <= 10`; rejecting branches call _fail_pin_auth; counter strictly incremented under its lock; set_cookie only under auth",
        "R20.4": "check_pin_trust is truthy only with the PIN off or after hash equality and expiry comparison; malformed cookie -> False",
        "R20.5": "host_is_trusted: True only under equality or dot-anchored suffix of a dotted entry; same normalisation both sides; bracket-aware port strip; idna errors -> False; get_host raises SecurityError; Request.host forwards trusted_hosts",
    }.items():
        ctx.rule(rid, text)

    dbg = repo.module("debug")
    app = repo.cls("debug.DebuggedApplication")
    call = app.methods.get("__call__")
    if call is None:
        raise AnalysisError("DebuggedApplication.__call__ missing")
    ctx.saw(call)
    fc = F(call)
    ccfg = fc.cfg

    # ---------------- R20.1 -------------------------------------------
    evals = []
    # _ConsoleFrame is the evaluator itself (its eval() is what execute_command calls); every other function of the module is a potential caller
    for fi in list(dbg.functions.values()) + [m for c in dbg.classes.values() if c.name != "_ConsoleFrame" for m in c.methods.values()]:
        for c in astq.calls(fi.node):
            if isinstance(c.func, ast.Attribute) and c.func.attr in ("eval", "runsource", "runcode", "exec"):
                evals.append((fi, c))
            if dotted(c.func) in ("eval", "exec"):
                evals.append((fi, c))
    ctx.ob("R20.1", "frame evaluation occurs only in execute_command", [x.qualname for x, _ in evals] == ["DebuggedApplication.execute_command"], f"eval sites: {[x.qualname for x, _ in evals]}", app.methods["execute_command"], evals[0][1] if evals else None, "eval sites")
    callers = [(fi, c) for fi in repo.all_functions() for c in astq.calls(fi.node) if isinstance(c.func, ast.Attribute) and c.func.attr == "execute_command"]
    ctx.ob("R20.1", "execute_command is called only from the dispatcher", [x.qualname for x, _ in callers] == ["DebuggedApplication.__call__"], f"callers: {[x.fq for x, _ in callers]}", call, callers[0][1] if callers else None, "execute_command callers")
    if callers:
        cn = ccfg.node_of(callers[0][1])
        g = fc.g(cn)
        need = {
            "evaluation enabled": ("self.evalex",),
            "a command is given": ("cmd is not None", "request.args.get('cmd') is not None"),
            "the frame exists": ("frame is not None",),
            "the secret matches": ("self.secret == secret", "self.secret == request.args.get('s')"),
            "the PIN cookie is trusted": ("self.check_pin_trust(environ)", "self.check_pin_trust(request.environ)"),
            "inside the debugger branch": ("request.args.get('__debugger__') == 'yes'",),
        }
        for what, alts in need.items():
            ctx.ob("R20.1", f"eval dispatch requires: {what}", _any(g, *alts), f"dominating guards of the call: {_fmt(g)}", call, callers[0][1], f"eval gate {what}")
        a = callers[0][1].args
        ctx.ob("R20.1", "the tested cmd and frame are the ones evaluated", len(a) == 3 and norm(a[1]) == "cmd" and norm(a[2]) == "frame", f"args {[norm(x) for x in a]}", call, callers[0][1], "eval args")
        for nm, src in (("secret", "request.args.get('s')"), ("cmd", "request.args.get('cmd')")):
            ds = [norm(v) for _, v in astq.assigns_to(call.node, nm) if v is not None]
            ctx.ob("R20.1", f"`{nm}` is the request's parameter", ds == [src], f"{ds}", call, call.node, f"slot {nm}")
        ds = [norm(v) for _, v in astq.assigns_to(call.node, "frame") if v is not None]
        ctx.ob("R20.1", "`frame` is looked up in self.frames (unknown id -> None)", len(ds) == 1 and ds[0].startswith("self.frames.get("), f"{ds}", call, call.node, "slot frame")

    # ---------------- R20.2 -------------------------------------------
    handlers = ["execute_command", "display_console", "pin_auth", "log_pin_request"]
    nh = 0
    for hn in handlers:
        fi = app.methods.get(hn)
        if fi is None:
            raise AnalysisError(f"DebuggedApplication.{hn} missing")
        ctx.saw(fi)
        cfg = cfg_of(fi)
        ht = [t for t in cfg.tests() if t.kind == "test" and isinstance(t.ast, ast.Call) and isinstance(t.ast.func, ast.Attribute) and t.ast.func.attr == "check_host_trust"]
        nh += 1
        if len(ht) != 1:
            ctx.ob("R20.2", f"{hn} checks the Host", False, f"{len(ht)} host check(s)", fi, fi.node, f"{hn} host check")
            continue
        t = ht[0]
        arg_ok = len(t.ast.args) == 1 and norm(t.ast.args[0]) in ("request.environ",)
        others = [n for n in cfg.nodes if n.ast is not None and n is not t and n.kind in ("stmt", "test", "loop", "with") and not (isinstance(n.ast, ast.Expr) and isinstance(n.ast.value, ast.Constant))]
        fside = cfg.succ(t, "F")
        fret = bool(fside) and all(isinstance(s.ast, ast.Return) and norm(s.ast.value).startswith("SecurityError(") for s in fside)
        undominated = [n for n in others if n not in fside and not cfg.edge_dominates(t, "T", n)]
        ctx.ob("R20.2", f"{hn}: every statement is behind the host check", arg_ok and not undominated and fret, f"host check on request.environ: {arg_ok}; false edge returns SecurityError: {fret}; statements not dominated by the true edge: {[n.text()[:40] for n in undominated]}", fi, t.ast, f"{hn} host gate")
    ctx.floor("R20.2", "command handlers with a host check", nh, 4)
    for meth, need2 in (
        ("display_console", [("self.evalex",), ("self.console_path is not None",), ("request.path == self.console_path",)]),
        ("pin_auth", [("cmd == 'pinauth'",), ("secret == self.secret",), ("request.args.get('__debugger__') == 'yes'",)]),
        ("log_pin_request", [("cmd == 'printpin'",), ("secret == self.secret",), ("request.args.get('__debugger__') == 'yes'",)]),
    ):
        cs = [c for c in astq.calls(call.node) if isinstance(c.func, ast.Attribute) and c.func.attr == meth]
        if len(cs) != 1:
            ctx.ob("R20.2", f"dispatcher calls {meth} once", False, f"{len(cs)} call(s)", call, call.node, f"dispatch {meth}")
            continue
        g = fc.g(ccfg.node_of(cs[0]))
        miss = [alts[0] for alts in need2 if not _any(g, *alts)]
        ctx.ob("R20.2", f"dispatch of {meth} is guarded", not miss, f"missing guards {miss}; has {_fmt(g)}", call, cs[0], f"dispatch {meth} guards")
        other_callers = [x.fq for x in repo.all_functions() for c in astq.calls(x.node) if isinstance(c.func, ast.Attribute) and c.func.attr == meth and x is not call]
        ctx.ob("R20.2", f"{meth} has no other caller", not other_callers, f"{other_callers}", call, cs[0], f"{meth} callers")
    cht = app.methods["check_host_trust"]
    ctx.ob("R20.2", "check_host_trust is host_is_trusted(Host header, self.trusted_hosts)", any(norm(r.value) == "host_is_trusted(environ.get('HTTP_HOST'), self.trusted_hosts)" for r in astq.returns_of(cht.node)), "", cht, cht.node, "check_host_trust body")

    # ---------------- R20.3 -------------------------------------------
    pa = app.methods["pin_auth"]
    fp = F(pa)
    cfg = fp.cfg
    thr = []
    for t in fp.tests():
        e = fp.al.expand(t.ast, t)
        if isinstance(e, ast.Compare) and len(e.ops) == 1 and "_failed_pin_auth.value" in norm(e) and isinstance(e.ops[0], (ast.Gt, ast.GtE, ast.Lt, ast.LtE)):
            thr.append((t, e))
    pin_cmp = []
    for t in fp.tests():
        e = fp.al.expand(t.ast, t)
        txt = norm(e)
        if "request.args['pin']" in txt and ("pin" in {n.id for n in ast.walk(e) if isinstance(n, ast.Name)} or "self.pin" in txt):
            pin_cmp.append((t, e))
    if len(thr) != 1 or len(pin_cmp) < 1:
        raise AnalysisError(f"pin_auth: threshold test ({len(thr)}) / PIN comparison ({len(pin_cmp)}) slots not found")
    th, th_e = thr[0]
    # every test that looks at the submitted PIN must sit below the threshold; the last one in program order is the
    # reference for the match / mismatch edges
    pin_cmp.sort(key=lambda x: x[0].lineno)
    pc, pc_e = pin_cmp[-1]
    extra_pin_tests = [t for t, _ in pin_cmp[:-1]]
    pin_eq_ok, match_label, pin_fact = _pin_test_shape(ctx, pa, pc_e)
    ctx.ob("R20.3", "the PIN test is an equality of the submitted and the configured PIN", pin_eq_ok, pin_fact, pa, pc.ast, "pin comparison shape")
    miss_label = "F" if match_label == "T" else "T"
    # canonical forms: `v > 10` -> "10 < v" (true = exceeded); `v >= 11` -> "v < 11" (false = exceeded)
    k, p = canon(th_e)
    exceeded_label = None
    if k == "10 < self._failed_pin_auth.value":
        exceeded_label = "T" if p else "F"
    elif k == "self._failed_pin_auth.value < 11":
        exceeded_label = "F" if p else "T"
    ctx.ob("R20.3", "failure threshold is `more than ten failures`", exceeded_label is not None, f"`{norm(th.ast)}` (canonical `{k}`)", pa, th.ast, "pin threshold constant")
    below = "F" if exceeded_label == "T" else "T"
    all_below = exceeded_label is not None and all(cfg.edge_dominates(th, below, t) for t in [pc] + extra_pin_tests)
    ctx.ob("R20.3", "PIN is compared only below the failure threshold", all_below, f"{1 + len(extra_pin_tests)} test(s) on the submitted PIN, each dominated by the not-exceeded edge of the threshold test: {all_below}", pa, pc.ast, "pin compare below threshold")
    auth_sets = [n for n in cfg.nodes if isinstance(n.ast, ast.Assign) and astq.is_name(n.ast.targets[0], "auth") and norm(n.ast.value) == "True"]
    trust_t = [t for t in fp.tests() if norm(t.ast) == "trust"]
    ok = bool(auth_sets)
    facts = []
    for a_ in auth_sets:
        by_pin = cfg.edge_dominates(pc, match_label, a_)
        by_trust = any(cfg.edge_dominates(t, "T", a_) for t in trust_t)
        facts.append(f"L{a_.lineno}: pin-compare={by_pin} cookie-trust={by_trust}")
        ok = ok and (by_pin or by_trust)
    ctx.ob("R20.3", "auth becomes True only by a trusted cookie or a matching PIN", ok, "; ".join(facts), pa, pa.node, "auth sources")
    tdefs = [norm(v) for _, v in astq.assigns_to(pa.node, "trust") if v is not None]
    ctx.ob("R20.3", "`trust` is check_pin_trust(request.environ)", tdefs == ["self.check_pin_trust(request.environ)"], f"{tdefs}", pa, pa.node, "trust source")
    other_auth = [norm(s) for s, v in astq.assigns_to(pa.node, "auth") if v is None or norm(v) not in ("True", "False")]
    ctx.ob("R20.3", "auth is only ever assigned constants", not other_auth, f"{other_auth}", pa, pa.node, "auth constants")
    fails = [cfg.node_of(c) for c in astq.calls(pa.node) if isinstance(c.func, ast.Attribute) and c.func.attr == "_fail_pin_auth"]
    f_on_wrong = any(cfg.edge_dominates(pc, miss_label, x) for x in fails)
    none_t = [t for t in fp.tests() if canon(t.ast)[0] == "trust is None"]
    f_on_bad_cookie = bool(none_t) and any(cfg.edge_dominates(none_t[0], "T" if canon(none_t[0].ast)[1] else "F", x) for x in fails)
    ctx.ob("R20.3", "a wrong PIN and a forged cookie each count as a failure", f_on_wrong and f_on_bad_cookie, f"wrong PIN -> _fail_pin_auth: {f_on_wrong}; bad cookie hash -> _fail_pin_auth: {f_on_bad_cookie}", pa, pa.node, "failures counted")
    wrong_paths_ok = all(cfg.all_paths_pass(s, [cfg.exit], [x for x in fails if x is not None]) for s in cfg.succ(pc, miss_label))
    ctx.ob("R20.3", "no path from a wrong PIN to the response skips the failure counter", wrong_paths_ok, "", pa, pc.ast, "wrong pin always counted")
    sc = [cfg.node_of(c) for c in astq.calls(pa.node) if isinstance(c.func, ast.Attribute) and c.func.attr == "set_cookie"]
    ctx.ob("R20.3", "the PIN cookie is issued only when authenticated", bool(sc) and all(has(guard_set(cfg, s), "auth") for s in sc), f"{len(sc)} set_cookie call(s)", pa, pa.node, "cookie only under auth")
    resets = [n for n in cfg.nodes if isinstance(n.ast, ast.Assign) and "_failed_pin_auth.value" in norm(n.ast.targets[0])]
    ctx.ob("R20.3", "the failure counter is reset only by a matching PIN", all(cfg.edge_dominates(pc, match_label, n) and norm(n.ast.value) == "0" for n in resets), f"{[norm(n.ast) for n in resets]}", pa, pa.node, "counter reset")
    fpa = app.methods["_fail_pin_auth"]
    ctx.saw(fpa)
    incs = [s for s in ast.walk(fpa.node) if isinstance(s, (ast.Assign, ast.AugAssign)) and "_failed_pin_auth.value" in norm(s.targets[0] if isinstance(s, ast.Assign) else s.target)]
    ok = False
    fact = f"{[norm(s) for s in incs]}"
    if len(incs) == 1:
        s = incs[0]
        if isinstance(s, ast.AugAssign):
            ok = isinstance(s.op, ast.Add) and isinstance(s.value, ast.Constant) and s.value.value == 1
        else:
            v = s.value
            if isinstance(v, ast.BinOp) and isinstance(v.op, ast.Add) and (isinstance(v.left, ast.Constant) or isinstance(v.right, ast.Constant)):
                one, base = (v.right, v.left) if isinstance(v.right, ast.Constant) else (v.left, v.right)
                if one.value == 1:
                    if isinstance(base, ast.Name):
                        ds = [norm(x) for _, x in astq.assigns_to(fpa.node, base.id) if x is not None]
                        ok = ds == ["self._failed_pin_auth.value"]
                    else:
                        ok = norm(base) == "self._failed_pin_auth.value"
        lock = astq.enclosing(s, (ast.With,))
        locked = isinstance(lock, ast.With) and any("get_lock()" in norm(i.context_expr) for i in lock.items)
        fact += f"; strict +1 of the stored value: {ok}; under get_lock(): {locked}"
        ok = ok and locked
    ctx.ob("R20.3", "_fail_pin_auth strictly increments the shared counter under its lock", ok, fact, fpa, fpa.node, "counter increment")

    # ---------------- R20.4 -------------------------------------------
    cp = app.methods["check_pin_trust"]
    ctx.saw(cp)
    fcp = F(cp)
    cfg = fcp.cfg
    n4 = 0
    exp_key = atom("time.time() - PIN_TIME < ts")
    for r in astq.returns_of(cp.node):
        node = cfg.node_of(r)
        v = norm(r.value)
        g = fcp.g(node)
        n4 += 1
        if v == "True":
            ok = has(g, "self.pin is None") and len({k for k, _ in g}) == 1
            exp = "True only when the PIN is switched off"
            cons = "True"
        elif v in ("False", "None"):
            ok = True
            exp = "falsy"
            cons = v
        else:
            shape = canon(r.value) == exp_key
            hashed = has(g, "pin_hash == hash_pin(self.pin)")
            ok = shape and hashed
            exp = f"expiry comparison (canonical `{canon(r.value)[0]}`; shape ok: {shape}) after hash equality (dominated: {hashed})"
            cons = canon(r.value)[0]
        ctx.ob("R20.4", f"check_pin_trust `return {v}`", ok, f"{exp}; guards {_fmt(g)}", cp, r, f"pin trust return {cons}")
    ctx.floor("R20.4", "returns of check_pin_trust", n4, 3)
    ints = [c for c in astq.calls(cp.node) if dotted(c.func) == "int"]
    ok = bool(ints)
    sep_ok = bool(ints)
    for c in ints:
        tr = astq.enclosing(c, (ast.Try,))
        ok = ok and isinstance(tr, ast.Try) and any((dotted(h.type) or "") in ("ValueError", "Exception") and any(isinstance(s, ast.Return) and norm(s.value) == "False" for s in h.body) for h in tr.handlers)
        g = fcp.g(cfg.node_of(c))
        via_in = any(k.startswith("'|' in ") and v for k, v in g)
        via_part = False
        for st in walk_no_nested(cp.node):
            if isinstance(st, ast.Assign) and isinstance(st.targets[0], ast.Tuple) and isinstance(st.value, ast.Call) and isinstance(st.value.func, ast.Attribute) and st.value.func.attr in ("partition", "rpartition") and st.value.args and astq.const_str(st.value.args[0]) == "|" and len(st.targets[0].elts) == 3 and isinstance(st.targets[0].elts[1], ast.Name):
                via_part = via_part or has(g, st.targets[0].elts[1].id)
        sep_ok = sep_ok and (via_in or via_part)
    ctx.ob("R20.4", "a non-numeric timestamp yields False", ok, "int(ts_str) inside try/except ValueError -> return False", cp, cp.node, "timestamp parse")
    ctx.ob("R20.4", "a cookie without '|' yields False before it is taken apart", sep_ok, "the timestamp is parsed only under a positive separator test", cp, cp.node, "cookie separator test")
    hp = repo.func("debug.hash_pin")
    ctx.ob("R20.4", "hash_pin is a salted sha1 prefix of the PIN", "sha1" in norm(hp.node) and "pin" in norm(hp.node), "", hp, hp.node, "hash_pin")

    # ---------------- R20.5 -------------------------------------------
    _host_rules(ctx)


def _pin_test_shape(ctx: Ctx, pa: FuncInfo, e: ast.AST) -> tuple[bool, str, str]:
    """(is an equality of submitted vs configured PIN, label of the matching edge, fact)"""
    pos = True
    while isinstance(e, ast.UnaryOp) and isinstance(e.op, ast.Not):
        e = e.operand
        pos = not pos
    if isinstance(e, ast.Compare) and len(e.ops) == 1 and isinstance(e.ops[0], (ast.Eq, ast.NotEq)):
        eq = isinstance(e.ops[0], ast.Eq)
        sides = {("request.args['pin']" in norm(e.left)), ("request.args['pin']" in norm(e.comparators[0]))}
        ok = sides == {True, False}
        return ok, ("T" if eq == pos else "F"), f"`{norm(e)}`"
    if isinstance(e, ast.Call):
        d = dotted(e.func)
        f = pa.module.functions.get(d or "")
        if f is not None:
            rets = astq.returns_of(f.node)
            if len(rets) == 1 and isinstance(rets[0].value, ast.Compare) and isinstance(rets[0].value.ops[0], ast.Eq) and len(f.params) == 2:
                c = rets[0].value
                names_l = {n.id for n in ast.walk(c.left) if isinstance(n, ast.Name)} & set(f.params)
                names_r = {n.id for n in ast.walk(c.comparators[0]) if isinstance(n, ast.Name)} & set(f.params)
                ok = len(names_l) == 1 and len(names_r) == 1 and names_l != names_r
                return ok, ("T" if pos else "F"), f"helper {d}: `return {norm(c)}`"
    return False, "T", f"unrecognised PIN test `{norm(e)}`"


def _shape_of(v: ast.AST, var: str) -> str:
    """normalisation applied to `var`: the expression text with the variable replaced by `_`."""
    src = ast.parse(ast.unparse(v), mode="eval").body

    class T(ast.NodeTransformer):
        def visit_Name(self, n):  # noqa: N802
            return ast.copy_location(ast.Name(id="_", ctx=n.ctx), n) if n.id == var else n

    return norm(T().visit(src))


def _host_rules(ctx: Ctx) -> None:
    repo = ctx.repo
    hit = repo.func("sansio.utils.host_is_trusted")
    ctx.saw(hit)
    fh = F(hit)
    cfg = fh.cfg
    # module-level helpers reachable from host_is_trusted (transitively)
    scope = [hit]
    i = 0
    while i < len(scope):
        for c in astq.calls(scope[i].node):
            d = dotted(c.func)
            if d and d in hit.module.functions and hit.module.functions[d] not in scope:
                scope.append(hit.module.functions[d])
        i += 1
    trues = [cfg.node_of(r) for r in astq.returns_of(hit.node) if norm(r.value) == "True"]
    eq_t = [t for t in fh.tests() if canon(t.ast)[0] == "hostname == ref"]
    suf_t = [t for t in fh.tests() if isinstance(t.ast, ast.Call) and isinstance(t.ast.func, ast.Attribute) and t.ast.func.attr == "endswith" and astq.is_name(t.ast.func.value, "hostname")]
    ok = bool(trues) and len(eq_t) == 1
    fact = f"return True sites: {len(trues)}; equality tests: {len(eq_t)}; suffix tests: {len(suf_t)}"
    if ok:
        avoid = [(eq_t[0], "T" if canon(eq_t[0].ast)[1] else "F")] + [(s, "T") for s in suf_t]
        r = cfg.reach(avoid_edges=avoid)
        leak = [t for t in trues if t.id in r]
        ok = not leak
        if leak:
            fact += "; `return True` reachable without the equality or the suffix test: " + cfg.fmt_path(cfg.path(cfg.entry, leak[0], avoid_edges=avoid) or [])
    ctx.ob("R20.5", "True only under `ref == hostname` or the accepted suffix idiom `hostname.endswith('.' + ref)`", ok, fact + " (accepted subdomain idioms: dot-anchored str.endswith of the normalised entry)", hit, hit.node, "host match conditions")
    flags = _dot_flags(fh)
    for s in suf_t:
        a = s.ast.args[0] if s.ast.args else None
        dot = False
        if isinstance(a, ast.JoinedStr) and len(a.values) == 2 and astq.const_str(a.values[0]) == "." and isinstance(a.values[1], ast.FormattedValue) and astq.is_name(a.values[1].value, "ref"):
            dot = True
        if isinstance(a, ast.BinOp) and isinstance(a.op, ast.Add) and astq.const_str(a.left) == "." and astq.is_name(a.right, "ref"):
            dot = True
        g = guard_set(cfg, s)
        flagged = any((fl, True) in g for fl in flags) or has(g, "ref.startswith('.')")
        ctx.ob("R20.5", "suffix test is dot-anchored and only for dot-prefixed entries", dot and flagged, f"`{norm(s.ast)}`; dot-anchored: {dot}; only when the entry started with '.': {flagged} (flags {sorted(flags)})", hit, s.ast, "suffix test shape")
    ctx.ob("R20.5", "suffix matching is enabled exactly for entries starting with '.'", bool(flags) or not suf_t, f"dot flags {sorted(flags)}", hit, hit.node, "suffix flag")
    hshape = [_shape_of(v, "hostname") for _, v in astq.assigns_to(hit.node, "hostname") if v is not None]
    rshape = [_shape_of(v, "ref") for _, v in astq.assigns_to(hit.node, "ref") if v is not None and norm(v) not in ("ref[1:]",) and not (isinstance(v, ast.Call) and isinstance(v.func, ast.Attribute) and v.func.attr in ("removeprefix", "lstrip"))]
    same = bool(hshape) and bool(rshape) and all(h == hshape[0] for h in hshape) and all(r == hshape[0] for r in rshape)
    ctx.ob("R20.5", "Host and entry pass the same normalisation", same, f"host: {hshape}; entry: {rshape}", hit, hit.node, "normalisation symmetry")
    idna = any(isinstance(c.func, ast.Attribute) and c.func.attr == "encode" and c.args and astq.const_str(c.args[0]) == "idna" for fi in scope for c in astq.calls(fi.node))
    ctx.ob("R20.5", "names are compared in IDNA (ASCII) form", idna, f"normalisation {hshape}", hit, hit.node, "idna normalisation")
    gh = repo.func("sansio.utils.get_host")
    ctx.saw(gh)
    bracket_in_get_host = any(isinstance(c, ast.Constant) and c.value == "[" for c in ast.walk(gh.node))
    cuts = []
    for fi in scope:
        fcfg = cfg_of(fi)
        for c in astq.calls(fi.node):
            if isinstance(c.func, ast.Attribute) and c.func.attr in ("partition", "split", "rpartition", "rsplit") and c.args and astq.const_str(c.args[0]) == ":":
                node = fcfg.node_of(c)
                guards = guard_set(fcfg, node) if node is not None else set()
                aware = any("'['" in k or "']'" in k for k, _ in guards)
                cuts.append((fi, c, aware))
    ctx.floor("R20.5", "port strips", len(cuts), 1)
    for fi, c, aware in cuts:
        ctx.ob("R20.5", "port strip does not cut a bracketed address literal at its first colon", aware or not bracket_in_get_host, f"`{norm(c)}` in {fi.name}: guarded by a bracket test: {aware}; get_host treats '[...]' hosts as IPv6 literals: {bracket_in_get_host}", fi, c, f"port strip {norm(c)} in {fi.name}")
    n_enc = 0

    def covering_try(fi: FuncInfo, node: ast.AST) -> tuple[bool, str]:
        tr = astq.enclosing(node, (ast.Try,))
        fact = "not inside a try"
        while isinstance(tr, ast.Try):
            if any(node is x for s in tr.body for x in ast.walk(s)):
                for h in tr.handlers:
                    names = [dotted(e) or "" for e in (h.type.elts if isinstance(h.type, ast.Tuple) else [h.type])] if h.type is not None else ["BaseException"]
                    covers = any(nm.rsplit(".", 1)[-1] in ("UnicodeError", "ValueError", "Exception", "BaseException") for nm in names)
                    falsy = any(isinstance(s, ast.Return) and norm(s.value) == "False" for s in h.body)
                    fact = f"handler {names}: covers UnicodeError={covers}; returns False={falsy}"
                    if covers and falsy:
                        return True, fact
            tr = astq.enclosing(tr, (ast.Try,))
        return False, fact

    def covered_everywhere(fi: FuncInfo, depth: int = 0) -> tuple[bool, str]:
        sites = [(g_, c) for g_ in scope for c in astq.calls(g_.node) if dotted(c.func) == fi.name]
        if not sites or depth > 3:
            return False, "helper is never called from host_is_trusted"
        for g_, c in sites:
            ok_, why = covering_try(g_, c)
            if ok_:
                continue
            if g_ is hit:
                return False, f"call in host_is_trusted not covered: {why}"
            ok2, why2 = covered_everywhere(g_, depth + 1)
            if not ok2:
                return False, why2
        return True, "covered at every call site"

    for fi in scope:
        for c in astq.calls(fi.node):
            if isinstance(c.func, ast.Attribute) and c.func.attr == "encode" and c.args and astq.const_str(c.args[0]) == "idna":
                n_enc += 1
                ok, fact = covering_try(fi, c)
                if not ok and fi is not hit:
                    ok, fact2 = covered_everywhere(fi)
                    fact += f"; {fact2}"
                ctx.ob("R20.5", "every failure of the idna codec yields False", ok, f"`{norm(c)}` in {fi.name}: {fact}", fi, c, f"idna errors {_shape_of(c, 'hostname').replace('ref', '_').replace('host', '_')}")
                # the codec is what rejects empty and over-long labels: it must run for every name, not only for some
                fcfg_ = cfg_of(fi)
                cond = set()
                for tn_, lab_ in fcfg_.guards(fcfg_.node_of(c)):
                    if tn_.kind != "test":
                        continue
                    k_, p_ = canon(tn_.ast)
                    if "'['" in k_ or "']'" in k_:
                        continue  # bracketed address literal handling
                    other = fcfg_.succ(tn_, "F" if lab_ == "T" else "T")
                    if other and all(isinstance(o.ast, ast.Return) and norm(o.ast.value) == "False" for o in other):
                        continue  # the other edge rejects the name outright
                    cond.add((k_, (lab_ == "T") == p_))
                ctx.ob("R20.5", "the idna codec is applied to every name (it is what rejects empty / over-long labels)", not cond, f"`{norm(c)}` in {fi.name} is conditional on {_fmt(cond)}" if cond else "unconditional", fi, c, f"idna unconditional in {fi.name}")
    ctx.floor("R20.5", "idna encodes", n_enc, 1)
    first = [s for s in hit.node.body if not (isinstance(s, ast.Expr) and isinstance(s.value, ast.Constant))][0]
    ctx.ob("R20.5", "a missing Host is never trusted", isinstance(first, ast.If) and canon(first.test) == ("hostname", False) and any(isinstance(s, ast.Return) and norm(s.value) == "False" for s in first.body), "", hit, first, "empty host")
    nonconst = [r for r in astq.returns_of(hit.node) if norm(r.value) not in ("True", "False")]
    ctx.ob("R20.5", "every verdict is a constant: True only under the match conditions, False otherwise", not nonconst, f"non-constant returns: {[norm(r) for r in nonconst]}", hit, nonconst[0] if nonconst else hit.node, "constant verdicts")
    gcfg = cfg_of(gh)
    raises = [n for n in gcfg.nodes if isinstance(n.ast, ast.Raise) and astq.raised_name(n.ast) == "SecurityError"]
    ok = False
    fact = f"{len(raises)} raise SecurityError"
    if len(raises) == 1:
        g = guard_set(gcfg, raises[0])
        ok = g == {("trusted_hosts is None", False), ("host_is_trusted(host, trusted_hosts)", False)}
        fact = f"guards {_fmt(g)}"
        rets = [gcfg.node_of(r) for r in astq.returns_of(gh.node)]
        tn = [t for t in gcfg.tests() if canon(t.ast)[0] == "host_is_trusted(host, trusted_hosts)"]
        nn = [t for t in gcfg.tests() if canon(t.ast)[0] == "trusted_hosts is None"]
        ok = ok and len(tn) == 1 and len(nn) == 1 and all(r.id not in gcfg.reach(avoid_nodes=tn, avoid_edges=[(nn[0], "T" if canon(nn[0].ast)[1] else "F")]) for r in rets)
    ctx.ob("R20.5", "get_host raises SecurityError for an untrusted host whenever a list is configured", ok, fact, gh, gh.node, "get_host enforcement")
    rq = repo.func("sansio.request.Request.host")
    ctx.saw(rq)
    ctx.ob("R20.5", "Request.host passes its trusted_hosts to get_host", any(isinstance(c.func, ast.Name) and c.func.id == "get_host" and any(norm(a) == "self.trusted_hosts" for a in list(c.args) + [k.value for k in c.keywords]) for c in astq.calls(rq.node)), "", rq, rq.node, "request host forwards list")
    wg = repo.func("wsgi.get_host")
    ctx.saw(wg)
    ctx.ob("R20.5", "wsgi.get_host passes trusted_hosts on", any(any(norm(a) == "trusted_hosts" for a in list(c.args) + [k.value for k in c.keywords]) for c in astq.calls(wg.node)), "", wg, wg.node, "wsgi get_host forwards list")


def _dot_flags(fh: F) -> set[str]:
    """locals that are true exactly when the current entry started with '.':
    `flag = ref.startswith('.')`, or `flag = True` / `flag = False` on the two edges of that test."""
    cfg = fh.cfg
    out: set[str] = set()
    names = {t_.id for s in walk_no_nested(fh.fi.node) if isinstance(s, ast.Assign) for t_ in s.targets if isinstance(t_, ast.Name)}
    st = [t for t in fh.tests() if norm(t.ast) == "ref.startswith('.')"]
    for nm in names:
        defs = astq.assigns_to(fh.fi.node, nm)
        if len(defs) == 1 and defs[0][1] is not None and norm(defs[0][1]) == "ref.startswith('.')":
            out.add(nm)
            continue
        if len(defs) == 2 and len(st) == 1 and all(v is not None and norm(v) in ("True", "False") for _, v in defs):
            good = all((norm(v) == "True" and cfg.edge_dominates(st[0], "T", cfg.node_of(s))) or (norm(v) == "False" and cfg.edge_dominates(st[0], "F", cfg.node_of(s))) for s, v in defs)
            if good and {norm(v) for _, v in defs} == {"True", "False"}:
                out.add(nm)
    return out
