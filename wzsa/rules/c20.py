"""C20 - host trust and the debugger's gates cannot be bypassed (structural clauses).

Every rule is decided on the *meaning* of the code: the functions are executed symbolically, path by path, with
private helpers inlined (wzsa/rules/_c20_helpers.py).  What is compared is the ordered list of decisions
(canonical atoms over terms built from the parameters) that precedes an effect or a verdict on each path, so
renamed locals, flags, split / merged / flipped conditions, early returns, extracted or inlined helpers,
partition vs split, conditional expressions and values carried through locals all read the same.
"""

from __future__ import annotations

import ast

from .. import astq
from ..loader import AnalysisError, FuncInfo, dotted, norm
from ..report import Ctx
from ._c20_helpers import NONE, TRUE, Ev, Path, Term, canon_atom, const, explore, int_le, is_const, mentions, show, subst, subterms

LEVEL_TEXT = (
    "Static decision of structural clauses of C20 on /repo's current source, by path-wise symbolic execution with private "
    "helpers inlined: (R20.1) frame evaluation occurs only in execute_command (or helpers only it calls), which is dispatched "
    "only after the decisions evalex, cmd is not None, frame is not None (frame looked up in self.frames), secret equality, "
    "PIN trust and __debugger__ == 'yes' on every path of the dispatcher, and evaluates only past a positive host check; "
    "(R20.2) in every debugger command handler nothing happens before the host check and a negative check returns "
    "SecurityError; console / pinauth / printpin are dispatched only under their documented decisions and from nowhere else; "
    "check_host_trust is host_is_trusted(Host header, self.trusted_hosts); (R20.3) the submitted PIN is compared only after "
    "the failure counter was found to be at most ten, the cookie is issued and `auth` reported only for a trusted cookie or a "
    "matching PIN, the issued cookie is `<int(time.time())>|<hash_pin(self.pin)>` under self.pin_cookie_name (the value "
    "check_pin_trust accepts), a wrong PIN and a forged cookie each increment the counter (strict +1 under its lock), the "
    "counter is reset only by a matching PIN; (R20.4) cookie trust is truthy only with the PIN off or after equality of the "
    "cookie's hash part with hash_pin(self.pin) and the strict expiry comparison, a hash mismatch yields None, malformed "
    "values yield False, and hash_pin is a function of the whole PIN: on every path its parameter reaches the returned value "
    "unabridged through the digest input (not a constant, a string that merely spells the name, a shadowed name, a slice or "
    "the length of the PIN, an empty digest prefix); (R20.5) host_is_trusted is truthy only "
    "after equality or a dot-anchored suffix test of a dot-prefixed entry, both sides pass the same normalisation including "
    "the idna codec, port stripping is bracket-aware, every exception of the idna codec yields False, and get_host / "
    "Request.host / wsgi.get_host enforce the list with SecurityError. The strength of PIN, secret, salt and digest algorithm (collision resistance, length of the "
    "kept digest prefix beyond non-empty) is not decided."
)
TRUSTED = [
    "CPython ast",
    "the idna codec raises UnicodeError (base class) for empty or over-long labels (CPython Lib/encodings/idna.py); int() raises ValueError",
    "wrappers.Request(environ).environ is the environ it was given",
]
ASSUMPTIONS = [
    "letter-case variants of a trusted host may go either way (as the property states)",
    "loops over the trusted list are unrolled twice (state leaking between iterations is seen for two consecutive entries)",
]

SELF: Term = ("param", "self")
# functions with a role of their own in the property: they are summarised by their own rules, never inlined
ROLE = {
    "__call__", "__init__", "check_host_trust", "check_pin_trust", "pin_auth", "log_pin_request", "execute_command", "display_console",
    "get_resource", "debug_application", "hash_pin", "get_pin_and_cookie_name", "host_is_trusted", "get_host",
}


def A(base: Term, *names: str) -> Term:
    for n in names:
        base = ("attr", base, n)
    return base


def C(f: Term, *args: Term, **kw: Term) -> Term:
    return ("call", f, tuple(args), tuple(sorted(kw.items())))


def N(name: str) -> Term:
    return ("name", name)


def key(x: Term) -> Term:
    return canon_atom(x)[0]


def _is_call_to(x: Term, recv: Term | None, name: str) -> bool:
    if x[0] != "call":
        return False
    f = x[1]
    if recv is None:
        return f == ("name", name) or (f[0] == "attr" and f[2] == name)
    return f == ("attr", recv, name)


def _cond(d: dict[Term, bool]) -> str:
    return " & ".join(("" if v else "not ") + "(" + show(k) + ")" for k, v in d.items()) or "(unconditional)"


def _callers(repo, name: str) -> list[tuple[FuncInfo, ast.Call]]:
    out = []
    for fi in repo.all_functions():
        for c in astq.calls(fi.node):
            if (isinstance(c.func, ast.Attribute) and c.func.attr == name) or (isinstance(c.func, ast.Name) and c.func.id == name):
                out.append((fi, c))
    return out


def run(ctx: Ctx) -> None:
    for rid, text in {
        "R20.1": "frame evaluation happens only in execute_command, which the dispatcher calls only after deciding evalex & cmd is not None & frame is not None & secret equality & check_pin_trust in the __debugger__ == 'yes' branch (on every path, through helpers); inside execute_command only past the host check",
        "R20.2": "in execute_command, display_console, pin_auth, log_pin_request nothing happens before a positive check_host_trust and a negative one returns SecurityError; dispatch decisions of console / pinauth / printpin; check_host_trust is host_is_trusted(Host header, trusted_hosts)",
        "R20.3": "the PIN is compared only after `failed <= 10` was decided; cookie / auth only for a trusted cookie or a matching PIN; the issued cookie is `<int(time.time())>|<hash_pin(self.pin)>`; wrong PIN and forged cookie increment the counter (strict +1 under its lock); counter reset only by a matching PIN",
        "R20.4": "check_pin_trust is truthy only with the PIN off or after hash equality and the strict expiry comparison; hash mismatch -> None; malformed cookie -> False; hash_pin depends on the whole PIN on every path",
        "R20.5": "host_is_trusted: truthy only after equality or a dot-anchored suffix test of a dot-prefixed entry; same normalisation (with idna) both sides; bracket-aware port strip; idna errors -> False; get_host raises SecurityError; Request.host / wsgi.get_host forward trusted_hosts",
    }.items():
        ctx.rule(rid, text)
    _dispatch_rules(ctx)
    _handler_rules(ctx)
    _pin_auth_rules(ctx)
    _pin_trust_rules(ctx)
    _host_rules(ctx)
    _enforcement_rules(ctx)


def _app(ctx: Ctx):
    app = ctx.repo.cls("debug.DebuggedApplication")
    for m in ("__call__", "execute_command", "display_console", "pin_auth", "log_pin_request", "check_pin_trust", "check_host_trust"):
        if m not in app.methods:
            raise AnalysisError(f"DebuggedApplication.{m} missing")
    return app


# ---------------------------------------------------------------------------------------------------------------
# R20.1 / R20.2: the dispatcher


def _dispatch_rules(ctx: Ctx) -> None:
    repo = ctx.repo
    app = _app(ctx)
    dbg = repo.module("debug")
    call = app.methods["__call__"]
    ctx.saw(call)
    if len(call.params) < 2:
        raise AnalysisError("DebuggedApplication.__call__ takes no environ")
    ENV: Term = ("param", call.params[1])
    ex = explore(call, ROLE)
    closure = {call.qualname} | ex.inlined
    for q in sorted(ex.inlined):
        fi = repo.try_func(f"debug.{q}")
        if fi is not None:
            ctx.saw(fi)

    def in_closure(fi: FuncInfo) -> bool:
        return fi.module is dbg and fi.qualname in closure

    # helpers of the dispatcher must not be entered from anywhere else (their guards live in the caller)
    for q in sorted(ex.inlined):
        nm = q.rsplit(".", 1)[-1]
        # (a private name is looked for in its own module, a public one everywhere)
        outside = [f.fq for f, _ in _callers(repo, nm) if not in_closure(f) and (f.module is dbg or not nm.startswith("_"))]
        ctx.ob("R20.2", f"dispatcher helper {nm} is entered only from the dispatcher", not outside, f"other callers: {outside}", call, call.node, f"dispatch helper {nm} callers")

    # --- eval sites
    evals: list[tuple[FuncInfo, ast.Call]] = []
    # _ConsoleFrame is the evaluator itself (its eval() is what execute_command calls); every other function of the module is a potential caller
    for fi in list(dbg.functions.values()) + [m for c in dbg.classes.values() if c.name != "_ConsoleFrame" for m in c.methods.values()]:
        for c in astq.calls(fi.node):
            if isinstance(c.func, ast.Attribute) and c.func.attr in ("eval", "runsource", "runcode", "exec"):
                evals.append((fi, c))
            if dotted(c.func) in ("eval", "exec"):
                evals.append((fi, c))
    xc = app.methods["execute_command"]
    ctx.saw(xc)
    xex = explore(xc, ROLE)
    xclosure = {xc.qualname} | xex.inlined
    stray = []
    for fi, _ in evals:
        if fi.qualname not in xclosure:
            stray.append(fi.qualname)
        elif fi is not xc:
            stray += [f"{fi.qualname} <- {f.qualname}" for f, _ in _callers(repo, fi.name) if not (f.module is dbg and f.qualname in xclosure) and (f.module is dbg or not fi.name.startswith("_"))]
    ctx.ob("R20.1", "frame evaluation occurs only in execute_command (or helpers only it calls)", bool(evals) and not stray, f"eval sites: {sorted({x.qualname for x, _ in evals})}; outside execute_command: {stray}", xc, evals[0][1] if evals else None, "eval sites")

    # --- every dispatch of a command handler, on every path
    want = ["execute_command", "display_console", "pin_auth", "log_pin_request"]
    sites: dict[str, list[tuple[Path, Ev]]] = {m: [] for m in want}
    for p in ex.paths:
        for e in p.events:
            if e.kind == "call":
                for m in want:
                    if _is_call_to(e.term, SELF, m):
                        sites[m].append((p, e))
    for m in want:
        outside = [f.fq for f, _ in _callers(repo, m) if not in_closure(f)]
        ctx.ob("R20.1" if m == "execute_command" else "R20.2", f"{m} is called only from the dispatcher", not outside, f"other callers: {outside}", call, call.node, f"{m} callers")
        if not sites[m]:
            raise AnalysisError(f"DebuggedApplication.__call__ never dispatches {m} (the dispatcher is not understood)")
    reqs = {e.term[2][0] if e.term[2] else None for m in want for _, e in sites[m]}
    REQ = C(N("Request"), ENV)
    if reqs != {REQ}:
        raise AnalysisError(f"the request object handed to the command handlers is not Request(environ): {[show(r) if r else None for r in reqs]}")
    ARGS = A(REQ, "args")

    def q(name: str) -> Term:
        return C(A(ARGS, "get"), const(name))

    CMD, SECRET = q("cmd"), q("s")
    DEBUGGER = key(("cmp", "eq", q("__debugger__"), const("yes")))
    SECRET_EQ = key(("cmp", "eq", SECRET, A(SELF, "secret")))
    EVALEX = key(A(SELF, "evalex"))
    PIN_TRUST = key(C(A(SELF, "check_pin_trust"), ENV))

    def cmd_is(word: str) -> Term:
        return key(("cmp", "eq", CMD, const(word)))

    def not_none(d: dict[Term, bool], x: Term) -> bool:
        if d.get(("cmp", "is", x, NONE)) is False or d.get(x) is True:
            return True
        return any(v and k[0] == "cmp" and k[1] == "eq" and ((k[2] == x and is_const(k[3]) and k[3] != NONE) or (k[3] == x and is_const(k[2]) and k[2] != NONE)) for k, v in d.items())

    def gate(rule: str, meth: str, what: str, test, construct: str) -> None:
        bad = [(p, e) for p, e in sites[meth] if not test(p.decided(e.pc_len), e)]
        p0, e0 = (bad or sites[meth])[0]
        fact = f"{len(sites[meth])} path(s) reach the call; " + (f"one without it: {_cond(p0.decided(e0.pc_len))}" if bad else f"decided before the call on each, e.g. {_cond(p0.decided(e0.pc_len))}")
        ctx.ob(rule, what, not bad, fact, call, e0.node, construct)

    gate("R20.1", "execute_command", "eval dispatch requires: evaluation enabled", lambda d, e: d.get(EVALEX) is True, "eval gate evaluation enabled")
    gate("R20.1", "execute_command", "eval dispatch requires: a command is given", lambda d, e: len(e.term[2]) == 3 and not_none(d, e.term[2][1]), "eval gate a command is given")
    gate("R20.1", "execute_command", "eval dispatch requires: the frame exists", lambda d, e: len(e.term[2]) == 3 and not_none(d, e.term[2][2]), "eval gate the frame exists")
    gate("R20.1", "execute_command", "eval dispatch requires: the secret matches", lambda d, e: d.get(SECRET_EQ) is True, "eval gate the secret matches")
    gate("R20.1", "execute_command", "eval dispatch requires: the PIN cookie is trusted", lambda d, e: d.get(PIN_TRUST) is True, "eval gate the PIN cookie is trusted")
    gate("R20.1", "execute_command", "eval dispatch requires: inside the debugger branch", lambda d, e: d.get(DEBUGGER) is True, "eval gate inside the debugger branch")
    gate("R20.1", "execute_command", "the tested command is the request's `cmd` parameter and it is what is evaluated", lambda d, e: len(e.term[2]) == 3 and e.term[2][1] == CMD, "slot cmd")
    gate(
        "R20.1", "execute_command", "the evaluated frame is looked up in self.frames (unknown id -> None)",
        lambda d, e: len(e.term[2]) == 3 and ((e.term[2][2][0] == "call" and e.term[2][2][1] == A(SELF, "frames", "get") and len(e.term[2][2][2]) == 1) or (e.term[2][2][0] == "sub" and e.term[2][2][1] == A(SELF, "frames"))), "slot frame",
    )
    for meth, needs in (
        ("display_console", [("evaluation enabled", EVALEX), ("a console path is configured", ("cmp", "is", A(SELF, "console_path"), NONE)), ("the request path is the console path", key(("cmp", "eq", A(REQ, "path"), A(SELF, "console_path"))))]),
        ("pin_auth", [("cmd == 'pinauth'", cmd_is("pinauth")), ("the secret matches", SECRET_EQ), ("inside the debugger branch", DEBUGGER)]),
        ("log_pin_request", [("cmd == 'printpin'", cmd_is("printpin")), ("the secret matches", SECRET_EQ), ("inside the debugger branch", DEBUGGER)]),
    ):
        def test(d, e, needs=needs):
            for what, k in needs:
                if k[0] == "cmp" and k[1] == "is":
                    if not not_none(d, k[2]):
                        return False
                elif d.get(k) is not True:
                    return False
            return True

        gate("R20.2", meth, f"dispatch of {meth} is guarded ({', '.join(w for w, _ in needs)})", test, f"dispatch {meth} guards")

    # --- inside execute_command: evaluation only past the host check
    if len(xc.params) < 2:
        raise AnalysisError("execute_command takes no request")
    HOST = key(C(A(SELF, "check_host_trust"), A(("param", xc.params[1]), "environ")))
    ev_sites = [(p, e) for p in xex.paths for e in p.events if e.kind == "call" and ((e.term[1][0] == "attr" and e.term[1][2] in ("eval", "runsource", "runcode", "exec")) or e.term[1] in (N("eval"), N("exec")))]
    if not ev_sites:
        raise AnalysisError("execute_command: no evaluation call found on any path")
    bad = [(p, e) for p, e in ev_sites if p.decided(e.pc_len).get(HOST) is not True]
    p0, e0 = (bad or ev_sites)[0]
    ctx.ob("R20.1", "code is evaluated only after a positive host check", not bad, f"{len(ev_sites)} path(s) evaluate; decisions before: {_cond(p0.decided(e0.pc_len))}", xc, e0.node, "eval past host check")
    frame_p = ("param", xc.params[3]) if len(xc.params) > 3 else None
    cmd_p = ("param", xc.params[2]) if len(xc.params) > 2 else None
    okargs = all(e.term[1] == ("attr", frame_p, "eval") and e.term[2] == (cmd_p,) for _, e in ev_sites)
    ctx.ob("R20.1", "the evaluated command and frame are the ones the dispatcher tested", okargs, f"`{show(ev_sites[0][1].term)}`", xc, ev_sites[0][1].node, "eval args")


# ---------------------------------------------------------------------------------------------------------------
# R20.2: host gate of every handler


def _handler_rules(ctx: Ctx) -> None:
    app = _app(ctx)
    n = 0
    for hn in ("execute_command", "display_console", "pin_auth", "log_pin_request"):
        fi = app.methods[hn]
        ctx.saw(fi)
        if len(fi.params) < 2:
            raise AnalysisError(f"{hn} takes no request")
        HCALL = C(A(SELF, "check_host_trust"), A(("param", fi.params[1]), "environ"))
        HOST = key(HCALL)
        ex = explore(fi, ROLE)
        n += 1
        problems: list[str] = []
        node: ast.AST | None = None
        checks = 0
        for p in ex.paths:
            d = p.decided()
            hc = [e for e in p.events if e.kind == "call" and e.term == HCALL]
            checks = max(checks, len(hc))
            if not hc or d.get(HOST) is None:
                problems.append(f"a path never decides the host check: {p.describe()}")
                continue
            node = node or hc[0].node
            # (building the SecurityError that is returned for an untrusted host is the one thing allowed on the negative side)
            early = [e for e in p.events if e not in hc and e.kind != "load" and p.decided(e.pc_len).get(HOST) is not True and not (d.get(HOST) is False and e.term == p.value)]
            if early:
                problems.append(f"`{show(early[0].term)}` (line {getattr(early[0].node, 'lineno', '?')}) happens before a positive host check")
            if d.get(HOST) is False:
                sec = p.outcome == "return" and p.value is not None and p.value[0] == "call" and p.value[1][0] in ("name", "attr") and p.value[1][-1] == "SecurityError"
                if not sec:
                    problems.append(f"an untrusted host yields `{p.outcome} {show(p.value) if p.value else ''}` instead of `return SecurityError()`")
        problems = sorted(set(problems))
        ctx.ob("R20.2", f"{hn}: nothing happens before a positive host check, a negative one returns SecurityError", not problems, "; ".join(problems[:3]) or f"{len(ex.paths)} path(s), each starts with check_host_trust(request.environ)", fi, node or fi.node, f"{hn} host gate")
    ctx.floor("R20.2", "command handlers with a host check", n, 4)
    cht = app.methods["check_host_trust"]
    ctx.saw(cht)
    if len(cht.params) < 2:
        raise AnalysisError("check_host_trust takes no environ")
    HT = key(C(N("host_is_trusted"), C(A(("param", cht.params[1]), "get"), const("HTTP_HOST")), A(SELF, "trusted_hosts")))
    ex = explore(cht, ROLE, want_truth=True)
    bad = []
    for p in ex.paths:
        d = p.decided()
        if p.outcome != "return" or d.get(HT) is None or p.truthy is not d.get(HT):
            bad.append(f"{p.outcome} {show(p.value) if p.value else p.exc} under {p.describe()}")
    ctx.ob("R20.2", "check_host_trust is host_is_trusted(Host header, self.trusted_hosts)", not bad, "; ".join(bad[:2]) or "verdict == host_is_trusted(environ.get('HTTP_HOST'), self.trusted_hosts) on every path", cht, cht.node, "check_host_trust body")


# ---------------------------------------------------------------------------------------------------------------
# R20.3: pin_auth and the failure counter

COUNTER: Term = A(SELF, "_failed_pin_auth", "value")
LOCK: Term = C(A(SELF, "_failed_pin_auth", "get_lock"))


def _is_increment(e: Ev) -> bool:
    return e.kind == "store" and e.term == COUNTER and e.value == ("binop", "+", COUNTER, const(1))


def _pin_auth_rules(ctx: Ctx) -> None:
    app = _app(ctx)
    pa = app.methods["pin_auth"]
    ctx.saw(pa)
    REQ: Term = ("param", pa.params[1])
    TRUSTCALL = C(A(SELF, "check_pin_trust"), A(REQ, "environ"))
    T = key(TRUSTCALL)
    T_NONE: Term = ("cmp", "is", TRUSTCALL, NONE)
    PINSUB: Term = ("sub", A(REQ, "args"), const("pin"))
    SELFPIN = A(SELF, "pin")
    ex = explore(pa, ROLE, watch=lambda x: x == COUNTER)
    for q in sorted(ex.inlined):
        fi = ctx.repo.try_func(f"debug.{q}")
        if fi is not None:
            ctx.saw(fi)
    paths = ex.paths

    # the PIN comparison: every decision that looks at the submitted PIN
    pin_keys: dict[Term, bool] = {}
    for p in paths:
        for k, _ in p.pc:
            if mentions(k, PINSUB) and k not in pin_keys:
                good = False
                if k[0] == "cmp" and k[1] == "eq":
                    for a, b in ((k[2], k[3]), (k[3], k[2])):
                        if mentions(a, PINSUB) and not mentions(a, SELFPIN) and mentions(b, SELFPIN) and not mentions(b, PINSUB):
                            good = True
                pin_keys[k] = good
    if not pin_keys:
        raise AnalysisError("pin_auth: no decision on the submitted PIN (request.args['pin']) found on any path")
    ctx.ob("R20.3", "the PIN test is an equality of the submitted and the configured PIN", all(pin_keys.values()), "; ".join(f"`{show(k)}`" for k in pin_keys), pa, pa.node, "pin comparison shape")
    eqs = {k for k, g in pin_keys.items() if g}

    def pin_index(p: Path) -> int | None:
        idx = [i for i, (k, _) in enumerate(p.pc) if k in pin_keys]
        return min(idx) if idx else None

    # threshold before comparison, and its constant
    below_bad: list[str] = []
    consts: set[int] = set()
    n_cmp = 0
    for p in paths:
        i = pin_index(p)
        if i is None:
            continue
        n_cmp += 1
        about = [(k, v) for k, v in p.pc[:i] if mentions(k, COUNTER)]
        cs = [c for c in (int_le(k, v, COUNTER) for k, v in about) if c is not None]
        if about and not cs and all(int_le(k, not v, COUNTER) is None for k, v in about):
            # the counter was consulted, but not in a form `counter <=/>/</>= constant`
            raise AnalysisError(f"pin_auth: the test on the failure counter is not understood: {[show(k) for k, _ in about]}")
        if not cs:
            below_bad.append(p.describe())
        consts.update(cs)
    ctx.ob("R20.3", "PIN is compared only below the failure threshold", not below_bad, f"{n_cmp} path(s) compare the PIN" + (f"; without a preceding `failures <= N` decision: {below_bad[0]}" if below_bad else ", each after a `failures <= N` decision"), pa, pa.node, "pin compare below threshold")
    ctx.ob("R20.3", "failure threshold is `more than ten failures`", bool(consts) and consts == {10}, f"the PIN is compared when failures <= {sorted(consts)}", pa, pa.node, "pin threshold constant")

    def authenticated(d: dict[Term, bool], p: Path, upto: int) -> bool:
        if d.get(T) is True:
            return True
        for i, (k, v) in enumerate(p.pc[:upto]):
            if k in eqs and v and any(int_le(k2, v2, COUNTER) is not None for k2, v2 in p.pc[:i]):
                return True
        return False

    # cookie and reported auth
    cookies = [(p, e) for p in paths for e in p.events if e.kind == "call" and e.term[1][0] == "attr" and e.term[1][2] == "set_cookie"]
    if not cookies:
        raise AnalysisError("pin_auth: no set_cookie call on any path")
    bad = [(p, e) for p, e in cookies if not authenticated(p.decided(e.pc_len), p, e.pc_len)]
    p0, e0 = (bad or cookies)[0]
    ctx.ob("R20.3", "the PIN cookie is issued only for a trusted cookie or a matching PIN below the threshold", not bad, f"{len(cookies)} path(s) issue it" + (f"; one under {_cond(p0.decided(e0.pc_len))}" if bad else ""), pa, e0.node, "cookie only under auth")
    _issued_cookie(ctx, pa, cookies)
    by_pin = [1 for p, e in cookies if p.decided(e.pc_len).get(T) is not True]
    if not by_pin:
        raise AnalysisError("pin_auth: no path issues the cookie after a PIN comparison (authentication is not understood)")
    rep_bad: list[str] = []
    rep_n = 0
    for p in paths:
        for e in p.events:
            if e.kind == "call" and e.term[1][0] == "attr" and e.term[1][2] == "dumps" and e.term[2] and e.term[2][0][0] == "dict":
                for k, v in e.term[2][0][1]:
                    if k == const("auth"):
                        rep_n += 1
                        kk, pol = canon_atom(v)
                        tv = None if p.decided().get(kk) is None else p.decided().get(kk) == pol
                        if tv is not False and not authenticated(p.decided(), p, len(p.pc)):
                            rep_bad.append(f"auth={show(v)} under {p.describe()}")
    if rep_n:
        ctx.ob("R20.3", "auth is reported true only for a trusted cookie or a matching PIN below the threshold", not rep_bad, "; ".join(rep_bad[:2]) or f"{rep_n} path(s) report", pa, pa.node, "auth sources")
    else:
        ctx.note("pin_auth: no json.dumps({'auth': ...}) found; the reported auth field is not checked")

    # cookie trust source
    others = sorted({show(e.term) for p in paths for e in p.events if e.kind == "call" and _is_call_to(e.term, SELF, "check_pin_trust") and e.term != TRUSTCALL})
    ctx.ob("R20.3", "cookie trust is check_pin_trust(request.environ)", not others, f"other calls: {others}", pa, pa.node, "trust source")

    # failures counted
    wrong_bad: list[str] = []
    forged_bad: list[str] = []
    n_wrong = n_forged = 0
    for p in paths:
        d = p.decided()
        i = pin_index(p)
        if i is not None and p.pc[i][0] in eqs and p.pc[i][1] is False and p.outcome == "return":
            n_wrong += 1
            if not any(_is_increment(e) and e.pc_len > i for e in p.events):
                wrong_bad.append(p.describe())
        if d.get(T_NONE) is True and p.outcome == "return":
            n_forged += 1
            if not any(_is_increment(e) for e in p.events):
                forged_bad.append(p.describe())
    if not n_forged:
        raise AnalysisError("pin_auth: no path decides `check_pin_trust(...) is None` (forged cookie handling is not understood)")
    ctx.ob("R20.3", "a wrong PIN and a forged cookie each count as a failure on every path", not wrong_bad and not forged_bad, f"wrong-PIN paths {n_wrong} (uncounted: {wrong_bad[:1]}); forged-cookie paths {n_forged} (uncounted: {forged_bad[:1]})", pa, pa.node, "failures counted")

    # stores to the counter: strict increments under the lock, or a reset after a matching PIN
    stores = [(p, e) for p in paths for e in p.events if e.kind == "store" and (e.term == COUNTER or e.term == A(SELF, "_failed_pin_auth"))]
    reset_bad: list[str] = []
    inc_bad: list[str] = []
    n_inc = 0
    inc_node = None
    for p, e in stores:
        if _is_increment(e):
            n_inc += 1
            inc_node = inc_node or e.node
            locks = [wid for wid, w in e.withs if w == LOCK]
            loads = [x for x in p.events if x.kind == "load" and x.term == COUNTER and p.events.index(x) < p.events.index(e)]
            same = bool(locks) and bool(loads) and locks[-1] in [wid for wid, _ in loads[-1].withs]
            if not same:
                inc_bad.append(f"read and write of the counter inside one `with get_lock()`: {same} (in {e.fn})")
        elif e.value == const(0) and e.term == COUNTER:
            d = p.decided(e.pc_len)
            if not any(k in eqs and v for k, v in d.items()):
                reset_bad.append(f"reset under {_cond(d)}")
        else:
            inc_bad.append(f"`{show(e.term)} = {show(e.value) if e.value else '?'}` in {e.fn} is neither a strict +1 nor a reset to 0")
    ctx.ob("R20.3", "the failure counter is reset only by a matching PIN", not reset_bad, "; ".join(sorted(set(reset_bad))[:2]), pa, pa.node, "counter reset")
    where = app.methods.get("_fail_pin_auth", pa)
    ctx.ob("R20.3", "every failure strictly increments the shared counter under its lock", not inc_bad and n_inc > 0, "; ".join(sorted(set(inc_bad))[:2]) or f"{n_inc} increment(s) on the explored paths, each `value = value + 1` with read and write under get_lock()", where, inc_node or where.node, "counter increment")


def _unwrap_text(x: Term) -> Term:
    """str(x) / f"{x}" / f"{x:d}" / x.decode() of a value is the value (as far as the written text goes)."""
    while True:
        if x[0] == "call" and x[1] == N("str") and len(x[2]) == 1 and not x[3]:
            x = x[2][0]
        elif x[0] == "fmt" and x[3] in ("", "d") and x[2] in (-1, ord("s")):
            x = x[1]
        else:
            return x


def _issued_cookie(ctx: Ctx, pa: FuncInfo, cookies: list[tuple[Path, Ev]]) -> None:
    """the cookie pin_auth writes is the one check_pin_trust accepts: named self.pin_cookie_name, with the value
    `<int(time.time())>|<hash_pin(self.pin)>` (taken apart at the first '|' as check_pin_trust does)."""
    WANT_HASH = C(N("hash_pin"), A(SELF, "pin"))
    WANT_TS = C(N("int"), C(A(N("time"), "time")))
    bad: list[str] = []
    node = cookies[0][1].node
    seen = ""
    for p, e in cookies:
        args, kw = e.term[2], dict(e.term[3])
        name = args[0] if args else kw.get("key")
        value = args[1] if len(args) > 1 else kw.get("value")
        if name is None or value is None:
            raise AnalysisError(f"pin_auth: set_cookie without an explicit name and value: `{show(e.term)}`")
        seen = seen or show(value)
        if name != A(SELF, "pin_cookie_name"):
            bad.append(f"the cookie is named `{show(name)}`, check_pin_trust reads self.pin_cookie_name")
            node = e.node
        if value[0] not in ("concat", "const") and not (value[0] == "call" and value[1] == N("hash_pin")):
            raise AnalysisError(f"pin_auth: the value of the issued cookie is not understood: `{show(value)}`")
        parts = list(value[1]) if value[0] == "concat" else [value]
        cut = next((i for i, q in enumerate(parts) if is_const(q) and isinstance(q[2], str) and "|" in q[2]), None)
        if cut is None:
            bad.append(f"the issued value `{show(value)}` has no '|' between timestamp and hash")
            node = e.node
            continue
        pre, _, post = parts[cut][2].partition("|")
        head = [_unwrap_text(q) for q in parts[:cut]] + ([const(pre)] if pre else [])
        tail = ([const(post)] if post else []) + [_unwrap_text(q) for q in parts[cut + 1 :]]
        if tail != [WANT_HASH]:
            bad.append(f"the hash part of the issued cookie is `{' + '.join(show(q) for q in tail) or repr('')}`, check_pin_trust compares it with hash_pin(self.pin)")
            node = e.node
        if head != [WANT_TS]:
            if any(mentions(q, WANT_TS[2][0]) for q in head):
                raise AnalysisError(f"pin_auth: the timestamp part of the issued cookie is not understood: `{' + '.join(show(q) for q in head)}`")
            bad.append(f"the timestamp part of the issued cookie is `{' + '.join(show(q) for q in head) or repr('')}`, not the current time int(time.time())")
            node = e.node
    ctx.ob(
        "R20.3", "the issued cookie is `<int(time.time())>|<hash_pin(self.pin)>` under self.pin_cookie_name (what check_pin_trust accepts, and nothing fresher or weaker)", not bad,
        "; ".join(sorted(set(bad))[:2])[:600] or f"{len(cookies)} path(s) issue `{seen}`", pa, node, "issued cookie value",
    )


# ---------------------------------------------------------------------------------------------------------------
# R20.4: check_pin_trust


def _linear(k: Term) -> frozenset | None:
    """`L < R` as the signed multiset of the summands of L - R."""
    if k[0] != "cmp" or k[1] != "lt":
        return None
    out: list[tuple[int, Term]] = []

    def add(x: Term, sign: int) -> None:
        if x[0] == "binop" and x[1] in ("+", "-"):
            add(x[2], sign)
            add(x[3], sign if x[1] == "+" else -sign)
        else:
            out.append((sign, x))

    add(k[2], 1)
    add(k[3], -1)
    return frozenset((s, x, sum(1 for y in out if y == (s, x))) for s, x in out)


def _pin_trust_rules(ctx: Ctx) -> None:
    repo = ctx.repo
    app = _app(ctx)
    cp = app.methods["check_pin_trust"]
    ctx.saw(cp)
    ENV: Term = ("param", cp.params[1])
    ex = explore(cp, ROLE, want_truth=True)
    paths = ex.paths
    PIN_OFF: Term = ("cmp", "is", A(SELF, "pin"), NONE)
    vs = set()
    for p in paths:
        for x in subterms((tuple(k for k, _ in p.pc), p.value, tuple(e.term for e in p.events))):
            if x[0] in ("head", "tail") and len(x) == 3 and x[2] == const("|"):
                vs.add(x[1])
    if len(vs) != 1:
        raise AnalysisError(f"check_pin_trust: the cookie is not taken apart at '|' by split(.., 1) / partition in an understood way ({len(vs)} candidate values)")
    V = next(iter(vs))
    src_ok = mentions(V, C(N("parse_cookie"), ENV)) and mentions(V, A(SELF, "pin_cookie_name"))
    ctx.ob("R20.4", "the examined value is the PIN cookie of the request", src_ok, f"`{show(V)}`", cp, cp.node, "cookie source")
    HASH = key(("cmp", "eq", ("tail", V, const("|")), C(N("hash_pin"), A(SELF, "pin"))))
    TS = C(N("int"), ("head", V, const("|")))
    HAS_SEP: Term = ("cmp", "in", const("|"), V)
    EXPIRY = _linear(("cmp", "lt", ("binop", "-", C(A(N("time"), "time")), N("PIN_TIME")), TS))

    n_true = 0
    for p in paths:
        if p.outcome != "return":
            continue
        d = p.decided()
        if p.truthy:
            n_true += 1
            if d.get(PIN_OFF) is True:
                ok = p.value == TRUE
                why = "PIN switched off"
                cons = "True"
            else:
                fresh = any(v and _linear(k) == EXPIRY for k, v in p.pc)
                hashed = d.get(HASH) is True
                ok = fresh and hashed
                why = f"after hash equality: {hashed}; strict expiry comparison `time.time() - PIN_TIME < int(timestamp)` holds: {fresh}"
                cons = "expiry comparison"
            ctx.ob("R20.4", "check_pin_trust is truthy only with the PIN off or for a fresh cookie with the right hash", ok, f"`return {show(p.value)}` under {p.describe()}: {why}", cp, p.node or cp.node, f"pin trust return {cons}")
    ctx.floor("R20.4", "truthy verdicts of check_pin_trust (PIN off, fresh cookie)", n_true, 2)
    raising = sorted({f"{p.exc} at line {getattr(p.node, 'lineno', '?')}" for p in paths if p.outcome == "raise"})
    ctx.ob("R20.4", "a non-numeric timestamp yields False", not raising, f"escaping exceptions: {raising}" if raising else "int(timestamp) failing with ValueError ends in a falsy verdict on every path", cp, cp.node, "timestamp parse")
    parses = [(p, e) for p in paths for e in p.events if e.kind == "call" and e.term == TS]
    if not parses:
        raise AnalysisError("check_pin_trust: int(<timestamp part>) not found on any path")
    bad = [p.describe() for p, e in parses if p.decided(e.pc_len).get(HAS_SEP) is not True]
    ctx.ob("R20.4", "a cookie without '|' yields False before it is taken apart", not bad, f"timestamp parsed without a positive separator test: {bad[0]}" if bad else "the timestamp is parsed only after a positive separator test", cp, parses[0][1].node, "cookie separator test")
    mism = [p for p in paths if p.outcome == "return" and p.decided().get(HASH) is False]
    badm = [f"`return {show(p.value)}`" for p in mism if p.value != NONE]
    # (when the hash is never compared the truthy-verdict obligation above has already failed)
    ctx.ob("R20.4", "a cookie with a wrong hash yields None (so that pin_auth counts it)", bool(mism) and not badm, "; ".join(sorted(set(badm))) or f"{len(mism)} path(s) decide the hash comparison negatively", cp, (mism[0].node if mism else None) or cp.node, "hash mismatch verdict")
    _hash_rules(ctx)


# ---------------------------------------------------------------------------------------------------------------
# R20.4: hash_pin - on every path the returned value is a function of the whole PIN (through the digest input)

_PASS_METHODS = {"encode", "decode", "hexdigest", "digest", "hex", "copy"}  # value-preserving / digest-reading methods
_PASS_FUNCS = {"str", "bytes", "bytearray", "repr", "ascii", "memoryview"}
_LOSSY_FUNCS = {"len", "bool", "type", "isinstance", "callable"}
_HASH_MODULES = {"hashlib", "hmac"}
_CODEC_MODULES = {"binascii", "base64"}


def _combine(vs: list[tuple[str, str]]) -> tuple[str, str]:
    for want in ("whole", "unknown", "part"):
        for v in vs:
            if v[0] == want:
                return v
    return ("none", "")


def _depends(x: Term, P: Term, imports: dict[str, str], updates: dict[Term, list[Term]]) -> tuple[str, str]:
    """how the term ``x`` depends on the value ``P``:
    whole   - P enters unabridged (as itself, concatenated, encoded, or as the input of a digest - a non-empty slice of
              a digest still depends on all of its input);
    part    - only a piece or a property of P enters (a slice of P itself, len(P), a comparison);
    none    - x does not depend on P (a constant, a string that merely spells the name, a shadowed name);
    unknown - P occurs in a construct that is not modelled."""

    def origin(f: Term) -> str:
        if f[0] == "attr" and f[1][0] == "name":
            return imports.get(f[1][1], "").split(".")[0]
        if f[0] == "name":
            o = imports.get(f[1], "")
            return o.split(".")[0] if "." in o else ""
        return ""

    def is_hash(t_: Term) -> bool:
        return t_[0] == "call" and origin(t_[1]) in _HASH_MODULES

    def dep(t_: Term) -> tuple[str, str]:
        if t_ == P:
            return ("whole", "")
        if not mentions(t_, P) and not any(is_hash(s) and updates.get(s) for s in subterms(t_)):
            return ("none", "")
        k = t_[0]
        if k == "concat":
            return _combine([dep(q) for q in t_[1]])
        if k == "binop" and t_[1] == "+":
            return _combine([dep(t_[2]), dep(t_[3])])
        if k == "fmt":
            return dep(t_[1]) if t_[3] == "" else ("unknown", f"`{show(t_)}` (format spec)")
        if k == "call":
            f = t_[1]
            if is_hash(t_):
                return _combine([dep(a) for a in t_[2]] + [dep(v) for _, v in t_[3]] + [dep(a) for a in updates.get(t_, [])])
            if f[0] == "attr" and f[2] in _PASS_METHODS:
                return dep(f[1])
            if f[0] == "name" and f[1] in _PASS_FUNCS and t_[2]:
                return dep(t_[2][0])
            if origin(f) in _CODEC_MODULES and t_[2]:
                return dep(t_[2][0])
            if f[0] == "name" and f[1] in _LOSSY_FUNCS:
                return ("part", f"only `{show(t_)}` enters")
            return ("unknown", f"`{show(t_)}`")
        if k == "sub":
            base = dep(t_[1])
            if base[0] != "whole":
                return base if base[0] != "none" or not mentions(t_[2], P) else ("unknown", f"`{show(t_)}`")
            hashed = any(is_hash(s) for s in subterms(t_[1]))
            idx = t_[2]
            if idx[0] != "slice":
                return ("whole", "") if hashed else ("part", f"only `{show(t_)}` enters")
            lo, hi, step = idx[1], idx[2], idx[3]
            if not (is_const(lo) and is_const(hi) and is_const(step)):
                return ("unknown", f"`{show(t_)}` (slice bounds are not constants)")
            lo_v, hi_v, st_v = lo[2], hi[2], step[2]
            if hashed:
                empty = hi_v == 0 or (isinstance(hi_v, int) and hi_v >= 0 and isinstance(lo_v, int) and lo_v >= hi_v)
                return ("none", f"`{show(t_)}` keeps nothing of the digest") if empty else ("whole", "")
            if lo_v in (None, 0) and hi_v is None and st_v in (None, 1):
                return ("whole", "")
            return ("part", f"only `{show(t_)}` enters")
        if k in ("cmp", "not"):
            return ("part", f"only `{show(t_)}` enters")
        return ("unknown", f"`{show(t_)}`")

    return dep(x)


def _hash_rules(ctx: Ctx) -> None:
    repo = ctx.repo
    hp = repo.func("debug.hash_pin")
    ctx.saw(hp)
    if not hp.params:
        raise AnalysisError("hash_pin takes no parameter")
    P: Term = ("param", hp.params[0])
    ex = explore(hp, ROLE)
    imports = dict(hp.module.imports)
    imports.update(hp.module.local_imports(hp.node))
    for q in sorted(ex.inlined):
        fi = repo.try_func(f"debug.{q}")
        if fi is not None:
            ctx.saw(fi)
            imports.update(fi.module.local_imports(fi.node))
    bad: list[str] = []
    n_ret = 0
    node = None
    shown = ""
    for p in ex.paths:
        if p.outcome != "return":
            continue
        n_ret += 1
        updates: dict[Term, list[Term]] = {}
        for e in p.events:
            if e.kind == "call" and e.term[1][0] == "attr" and e.term[1][2] == "update":
                updates.setdefault(e.term[1][1], []).extend(e.term[2])
        verdict, note = _depends(p.value if p.value is not None else NONE, P, imports, updates)
        shown = shown or show(p.value)
        if verdict == "unknown":
            raise AnalysisError(f"hash_pin: how the returned value depends on `{hp.params[0]}` is not understood: {note} in `return {show(p.value)}`")
        if verdict != "whole":
            node = node or p.node
            why = "does not depend on the PIN (the same value for every PIN)" if verdict == "none" else "depends only on a part of the PIN"
            bad.append(f"`return {show(p.value)}` under {p.describe()} {why}" + (f": {note}" if note else ""))
    if not n_ret:
        raise AnalysisError("hash_pin: no returning path")
    ctx.ob(
        "R20.4", "hash_pin(pin) is a function of the whole PIN on every path (the parameter reaches the returned value unabridged, through the digest input)", not bad,
        "; ".join(sorted(set(bad))[:2])[:700] or f"{n_ret} returning path(s), e.g. `return {shown}`: the parameter `{hp.params[0]}` enters unabridged", hp, node or hp.node, "hash_pin",
    )


# ---------------------------------------------------------------------------------------------------------------
# R20.5: host_is_trusted


def _roots(x: Term, L: Term) -> set[Term]:
    r = {s for s in subterms(x) if s[0] == "elem" and mentions(s[1], L)}
    if not r and mentions(x, L):
        r = {L}
    return r


def _has_idna(x: Term) -> bool:
    return any(s[0] == "call" and s[1][0] == "attr" and s[1][2] == "encode" and s[2] and s[2][0] == const("idna") for s in subterms(x))


def _host_rules(ctx: Ctx) -> None:
    repo = ctx.repo
    hit = repo.func("sansio.utils.host_is_trusted")
    ctx.saw(hit)
    if len(hit.params) < 2:
        raise AnalysisError("host_is_trusted takes fewer than two parameters")
    HN: Term = ("param", hit.params[0])
    L: Term = ("param", hit.params[1])
    X: Term = ("name", "<name>")
    ex = explore(hit, {"host_is_trusted", "get_host"}, want_truth=True)
    for q in sorted(ex.inlined):
        fi = repo.try_func(f"sansio.utils.{q}")
        if fi is not None:
            ctx.saw(fi)
    paths = ex.paths

    def is_dotted(d: dict[Term, bool], root: Term) -> bool:
        """was the listed entry found to start with '.' (startswith / first-character comparison)?"""
        first = [("sub", root, ("slice", NONE, const(1), NONE)), ("sub", root, ("slice", const(0), const(1), NONE)), ("sub", root, const(0))]
        return d.get(C(A(root, "startswith"), const("."))) is True or any(d.get(key(("cmp", "eq", f, const(".")))) is True for f in first)

    host_forms: set[Term] = set()
    entry_forms: set[Term] = set()
    leaks: list[str] = []
    strip_bad: list[str] = []
    suffix_bad: list[str] = []
    n_true = 0
    first_true: Path | None = None

    def entry_side(e: Term, d: dict[Term, bool]) -> Term | None:
        """the entry side with its base (the listed entry, minus its leading dot) replaced by the placeholder."""
        rs = _roots(e, L)
        if len(rs) != 1 or mentions(e, HN):
            return None
        root = next(iter(rs))
        sliced = ("sub", root, ("slice", const(1), NONE, NONE))
        prefix = C(A(root, "removeprefix"), const("."))
        if mentions(e, sliced):
            if not is_dotted(d, root):
                strip_bad.append(f"`{show(sliced)}` without a decided leading dot")
            e = subst(e, sliced, X)
        e = subst(e, prefix, X)
        return subst(e, root, X)

    for p in paths:
        if p.outcome != "return" or not p.truthy:
            continue
        n_true += 1
        first_true = first_true or p
        d = p.decided()
        matched = False
        notes: list[str] = []
        for k, v in p.pc:
            if not v:
                continue
            if k[0] == "cmp" and k[1] == "eq":
                for h, e in ((k[2], k[3]), (k[3], k[2])):
                    if mentions(h, HN) and not _roots(h, L):
                        es = entry_side(e, d)
                        if es is not None:
                            matched = True
                            host_forms.add(subst(h, HN, X))
                            entry_forms.add(es)
            if k[0] == "call" and k[1][0] == "attr" and k[1][2] == "endswith" and len(k[2]) == 1 and mentions(k[1][1], HN) and not _roots(k[1][1], L):
                arg = k[2][0]
                rs = _roots(arg, L)
                anchored = arg[0] == "concat" and len(arg[1]) == 2 and arg[1][0] == const(".")
                only_dotted = len(rs) == 1 and is_dotted(d, next(iter(rs)))
                if anchored and only_dotted:
                    es = entry_side(arg[1][1], d)
                    if es is not None:
                        matched = True
                        host_forms.add(subst(k[1][1], HN, X))
                        entry_forms.add(es)
                else:
                    notes.append(f"`{show(k)}`: dot-anchored: {anchored}; only for an entry that started with '.': {only_dotted}")
        if not matched:
            if notes:
                suffix_bad += notes
            else:
                leaks.append(p.describe())
    if not n_true:
        raise AnalysisError("host_is_trusted: no path with a truthy verdict (the function is not understood)")
    ctx.ob(
        "R20.5", "truthy only after `entry == host` or the accepted suffix idiom `host.endswith('.' + entry)`", not leaks,
        (f"truthy verdict without either test under: {leaks[0][:600]}" if leaks else f"{n_true} truthy path(s)") + " (accepted subdomain idiom: dot-anchored str.endswith of the normalised entry)",
        hit, (first_true.node if first_true else None) or hit.node, "host match conditions",
    )
    ctx.ob("R20.5", "suffix test is dot-anchored and only for dot-prefixed entries", not suffix_bad, "; ".join(sorted(set(suffix_bad))[:2])[:700], hit, hit.node, "suffix test shape")
    ctx.ob("R20.5", "the first character of an entry is dropped only when it is the leading dot", not strip_bad, "; ".join(sorted(set(strip_bad))[:2]), hit, hit.node, "suffix flag")
    same = bool(host_forms) and host_forms == entry_forms
    ctx.ob("R20.5", "Host and entry pass the same normalisation", same, f"host: {sorted(show(x) for x in host_forms)}; entry: {sorted(show(x) for x in entry_forms)}"[:900], hit, hit.node, "normalisation symmetry")
    raw = sorted(show(x) for x in host_forms | entry_forms if not _has_idna(x))
    ctx.ob("R20.5", "the idna codec is applied to every compared name (it is what rejects empty / over-long labels)", not raw, f"compared without the codec on some path: {raw}" if raw else "every compared form passes encode('idna')", hit, hit.node, "idna unconditional")

    # exceptions of the codec
    enc_sites: dict[int, tuple[str, ast.AST]] = {}
    for p in paths:
        for e in p.events:
            if e.kind == "call" and e.term[1][0] == "attr" and e.term[1][2] == "encode" and e.term[2] and e.term[2][0] == const("idna") and e.node is not None:
                enc_sites.setdefault(id(e.node), (e.fn, e.node))
    ctx.floor("R20.5", "idna encodes", len(enc_sites), 1)
    for sid, (fn, node) in enc_sites.items():
        esc = [p for p in paths if p.outcome == "raise" and p.node is node]
        fi = repo.try_func(f"sansio.utils.{fn}") or hit
        ctx.ob("R20.5", "every failure of the idna codec yields False", not esc, f"`{norm(node)}` in {fn}: UnicodeError escapes under {esc[0].describe()[:300]}" if esc else f"`{norm(node)}` in {fn}: UnicodeError reaches a handler that returns on every path", fi, node, f"idna errors in {fn}")
    other = sorted({f"{p.exc} at line {getattr(p.node, 'lineno', '?')}" for p in paths if p.outcome == "raise" and id(p.node) not in enc_sites})
    ctx.ob("R20.5", "host_is_trusted raises nothing itself", not other, f"{other}", hit, hit.node, "no raise")

    # port strip
    gh = repo.func("sansio.utils.get_host")
    ctx.saw(gh)
    bracket_in_get_host = any(isinstance(c, ast.Constant) and c.value == "[" for c in ast.walk(gh.node))
    cuts: dict[int, list] = {}
    for p in paths:
        for e in p.events:
            if e.kind == "call" and e.term[1][0] == "attr" and e.term[1][2] in ("partition", "split", "rpartition", "rsplit", "find", "rfind", "index", "rindex") and e.term[2] and e.term[2][0] == const(":") and e.node is not None:
                recv = e.term[1][1]
                who = {HN} if mentions(recv, HN) else _roots(recv, L)
                d = p.decided(e.pc_len)
                aware = any((mentions(k, const("[")) or mentions(k, const("]"))) and any(mentions(k, w) for w in who) for k in d)
                rec = cuts.setdefault(id(e.node), [e.fn, e.node, True])
                rec[2] = rec[2] and aware
    ctx.floor("R20.5", "port strips", len(cuts), 1)
    for fn, node, aware in cuts.values():
        fi = repo.try_func(f"sansio.utils.{fn}") or hit
        ctx.ob("R20.5", "port strip does not cut a bracketed address literal at its first colon", aware or not bracket_in_get_host, f"`{norm(node)}` in {fn}: preceded by a bracket test on every path: {aware}; get_host treats '[...]' hosts as IPv6 literals: {bracket_in_get_host}", fi, node, f"port strip {norm(node)} in {fn}")

    # missing host
    bad = []
    for p in paths:
        for e in p.events:
            if e.kind == "call" and mentions(e.term, HN):
                d = p.decided(e.pc_len)
                if not (d.get(HN) is True or d.get(("cmp", "is", HN, NONE)) is False):
                    bad.append(f"`{show(e.term)}` before the host was found to be present")
                break
    absent = [p for p in paths if p.decided().get(HN) is False or p.decided().get(("cmp", "is", HN, NONE)) is True]
    bad += [f"verdict `{show(p.value)}` for a missing host" for p in absent if p.outcome != "return" or p.truthy]
    ctx.ob("R20.5", "a missing Host is never trusted", not bad and bool(absent), "; ".join(sorted(set(bad))[:2]), hit, hit.node, "empty host")


# ---------------------------------------------------------------------------------------------------------------
# R20.5: enforcement in get_host and its callers


def _enforcement_rules(ctx: Ctx) -> None:
    repo = ctx.repo
    gh = repo.func("sansio.utils.get_host")
    ctx.saw(gh)
    if "trusted_hosts" not in gh.params:
        raise AnalysisError("get_host has no trusted_hosts parameter")
    TH: Term = ("param", "trusted_hosts")
    ex = explore(gh, {"host_is_trusted", "get_host"})
    bad: list[str] = []
    n_checked = n_raise = 0
    for p in ex.paths:
        d = p.decided()
        if p.outcome == "raise":
            if p.exc == "SecurityError":
                n_raise += 1
            continue
        if d.get(("cmp", "is", TH, NONE)) is True:
            continue
        ok = False
        for k, v in p.pc:
            if v and k[0] == "call" and k[1] == N("host_is_trusted") and len(k[2]) == 2 and k[2][1] == TH and k[2][0] == p.value:
                ok = True
        if ok:
            n_checked += 1
        else:
            bad.append(f"`return {show(p.value)}` under {p.describe()[:400]}")
    if not n_checked:
        bad.append("no path returns a host that host_is_trusted accepted")
    if not n_raise:
        bad.append("no path raises SecurityError")
    ctx.ob("R20.5", "get_host raises SecurityError for an untrusted host whenever a list is configured", not bad, "; ".join(bad[:2]) or f"{n_checked} returning path(s) with a list, each after host_is_trusted(<returned host>, trusted_hosts); {n_raise} raising SecurityError", gh, gh.node, "get_host enforcement")

    rq = repo.func("sansio.request.Request.host")
    ctx.saw(rq)
    exr = explore(rq, ())
    calls = [(p, e) for p in exr.paths for e in p.events if e.kind == "call" and _is_call_to(e.term, None, "get_host")]
    okr = bool(calls) and all((len(e.term[2]) >= 4 and e.term[2][3] == A(SELF, "trusted_hosts")) or dict(e.term[3]).get("trusted_hosts") == A(SELF, "trusted_hosts") for _, e in calls) and all(any(_is_call_to(e.term, None, "get_host") for e in p.events) for p in exr.paths if p.outcome == "return")
    ctx.ob("R20.5", "Request.host passes its trusted_hosts to get_host", okr, f"{len(calls)} call(s)", rq, rq.node, "request host forwards list")
    wg = repo.func("wsgi.get_host")
    ctx.saw(wg)
    if "trusted_hosts" not in wg.params:
        raise AnalysisError("wsgi.get_host has no trusted_hosts parameter")
    exw = explore(wg, ())
    calls = [(p, e) for p in exw.paths for e in p.events if e.kind == "call" and _is_call_to(e.term, None, "get_host")]
    okw = bool(calls) and all((len(e.term[2]) >= 4 and e.term[2][3] == TH) or dict(e.term[3]).get("trusted_hosts") == TH for _, e in calls) and all(any(_is_call_to(e.term, None, "get_host") for e in p.events) for p in exw.paths if p.outcome == "return")
    ctx.ob("R20.5", "wsgi.get_host passes trusted_hosts on", okw, f"{len(calls)} call(s)", wg, wg.node, "wsgi get_host forwards list")
