"""C04 - URL building and matching are mutually inverse (structural / symbolic clauses).

The inverse law itself (regex language of a compiled part = text that to_url emits, for every value) is NOT decided.
What is decided are necessary conditions of it, obtained by *symbolic execution of the source* (own AST interpreter
in ``_c04_helpers``; werkzeug is never imported or run): configuration (rule strings, converter arguments, defaults,
script roots) is concrete, the values a URL is built from are opaque symbols, so every statement below holds for all
values at once.  Nothing is keyed on statement text or local names: the functions are found through the public
entry points (``werkzeug.routing.Map`` / ``Rule`` / ``Submount`` / ``Subdomain``, ``Map.bind``, ``MapAdapter.build`` /
``match``, ``Map.default_converters``) and everything behind them - helpers, generated builder code, factories - is
simply executed symbolically, whatever its shape.
"""

from __future__ import annotations

import ast
import copy as _copy
import re
import typing as t
import uuid as _uuid
from urllib.parse import unquote as _unquote

from ..loader import AnalysisError, ClassInfo, FuncInfo, norm
from ..report import Ctx
from . import _c04_helpers as H
from ._c04_helpers import ClsVal, ExcObj, NotUnderstood, Obj, Outcome, Raised, Sym, World, concat, explore, pieces_of

LEVEL_TEXT = (
    "Decision, by symbolic execution of /repo's routing source (own AST interpreter; configuration concrete, URL values "
    "opaque symbols, so each clause holds for every value; werkzeug is never imported or run), of structural necessary "
    "conditions of C04: (R4.1) every urllib quoting call that contributes path or domain text to a built URL is "
    "urllib.parse.quote with UTF-8/strict and a safe set that keeps '/' and contains none of '%', '?', '#', space, and "
    "literal rule text reaches the URL percent-encoded (no raw '?', '#', space, stray '%'); (R4.2) for every converter of "
    "the default table, instantiated with representative options: to_url has the form that to_python inverts (text "
    "converters: quoted value / identity; int and float: str(num(value)) / num(text) with the same num; uuid: str / "
    "uuid.UUID; any: the member itself / identity; a converter whose values may contain URL-reserved characters quotes "
    "them; a text value reaches quote, and captured text leaves to_python, without a known non-identity library operation "
    "(case folding, trimming, padding, Unicode normalisation, (un)quoting, non-UTF-8 encoding) - an unknown operation is "
    "reported as not understood), fixed_digits pads to_url with zfill(n) and makes to_python refuse every other length, and the instance regex "
    "(incl. each length option of the string converter alone and combined, signed, any-items with regex metacharacters) accepts the canonical text of sample values; "
    "(R4.3) for sample rules over the whole converter set MapAdapter.build returns, piece by piece in rule order, the "
    "percent-encoded literal text and each variable's own converter.to_url(value), a default for a variable of the rule "
    "is rendered through that converter's to_url, domain and path pieces are not mixed, defaulted variables need not be "
    "passed; (R4.4) MapAdapter.match, run on the path shape build emits (symbolic segments, acceptance by the part "
    "regex assumed), returns the rule's endpoint and, for every variable, its own converter's to_python of the text "
    "captured at its own position, plus the rule's defaults; (R4.5) extra values never alter the path (with and "
    "without append_unknown); the query is attached behind exactly one '?' and is urllib.parse.urlencode (UTF-8) of exactly "
    "the extra values - one pair per value of a multi-value, None omitted, in order - with a safe set free of '&', '=', "
    "'+', '%', '#', space, so that a server reads the same extra values back; (R4.6) "
    "Map.default_converters binds default, string, any, path, int, float, uuid to converters of the matching kind; "
    "(R4.7) the built URL is script root + '/' + rule path for script_name '/', '/app', '/app/' (relative and "
    "force_external), the host is the rule's domain part + server name (subdomain rules, Subdomain / Submount factories, "
    "host matching), and among rules of one endpoint a canonical rule is built before an alias, a rule that renders every given value in its "
    "path before a shorter one (also when a value equals the shorter rule's default), and otherwise the rule whose defaults "
    "equal the given values - also in the host-matching fallback, when the adapter is bound to another host than the rules; a rule "
    "wrapped in Submount / Subdomain / EndpointPrefix is built (and, R4.4, matched) with the host, subdomain, defaults and alias "
    "flag it was written with - a factory changes only what it is there to change; (R4.8) a match is an observation: for sample "
    "rules with defaults and converters (also inside Submount) the options every rule was constructed with (the attributes named "
    "like the parameters of its __init__: defaults, methods, host, ...) are the same after MapAdapter.match as before, the mapping "
    "handed back is none of the rules' own objects, a build for other values afterwards returns the URL of those values and a "
    "second match returns what the first did. NOT "
    "decided: that each compiled part regex / the state machine accepts exactly the text to_url produces for every value "
    "(regex language inclusion over formatted numbers, Unicode, percent-decoding by the server), rule selection among "
    "overlapping rules, path converters on the match side, the URL scheme, whether a query is "
    "attached under append_unknown=False or for empty extras, the order of sorted parameters (sort_parameters), MultiDict "
    "inputs, that AnyConverter.to_url refuses non-members (they are outside the domain), that a converter's regex refuses text outside "
    "its options (C03), that Rule.empty() carries merge_slashes / websocket (options outside C04's configurations), redirect behaviour (C12)."
)
TRUSTED = [
    "CPython ast / re (re._parser) / urllib.parse.unquote applied to constants of the source and of the scenarios",
    "the symbolic interpreter in wzsa/rules/_c04_helpers.py: Python semantics of the subset it models (incl. generators and the itertools iterators takewhile / dropwhile / filterfalse / starmap / chain / islice / zip_longest / accumulate / pairwise / compress / groupby over interpreted callables and objects, element by element as lazily as the real ones; functools.partial, types.MethodType, contextlib.suppress, collections.ChainMap / deque over interpreted values; Base.method(self, ...) as the bound call; f(first=x) as f(x) for library calls; a condition on the same opaque values evaluated twice on one path has one answer; a bare object() marker is identical to no value); anything else aborts with ANALYSIS-ERROR",
    "library contracts used as inverse pairs: int(str(int(v)).zfill(n)) == v, float(str(float(v))) == v, uuid.UUID(str(u)) == u, unquote(quote(s, safe)) == s; quote(s, safe) == quote_from_bytes(s.encode('utf-8'), safe); text.zfill(n) == text for n <= 0",
]
ASSUMPTIONS = [
    "a server percent-decodes the path once (UTF-8) before routing and splits the URL at the first '?' and '#'",
    "values are in the converter's canonical domain: text without '/', ints, floats printed positionally, UUIDs, members of the any-items",
    "on the match side a symbolic path segment is taken to be accepted by the part regex it is tried against and to differ from every literal segment (regex language inclusion is not decided)",
    "container subclasses of the package (ImmutableDict) behave like the plain container for reads and .copy()",
    "functions of routing/matcher.py that only register / sort rules cannot influence what build returns (they are executed best-effort during map construction)",
    "R4.8: what a rule was constructed with is what it keeps under the names of its class's __init__ parameters (defaults, methods, host, ...); other attributes (caches, compiled parts) may change during a match",
]

RESERVED_IN_PATH = "%?# "
RESERVED_IN_QUERY = "&=+%# "
TABLE_NAMES = ("default", "string", "any", "path", "int", "float", "uuid")
_QUOTE_FAMILY = ("urllib.parse.quote", "urllib.parse.quote_plus", "urllib.parse.quote_from_bytes")


# ---------------------------------------------------------------------------------------------------------------
# term classification


def _is_val(t_: t.Any, name: str | None = None) -> bool:
    return isinstance(t_, Sym) and t_.op in ("val", "seg", "group") and (name is None or (t_.op != "group" and t_.args[0] == name))


def _unstr(t_: t.Any) -> t.Any:
    """str(x) -> x"""
    while isinstance(t_, Sym) and t_.op == "call" and t_.args[0] == "builtins.str" and len(t_.args[1]) == 1 and not t_.args[2]:
        t_ = t_.args[1][0]
    return t_


# library operations on text that are known NOT to be the identity on the domain of text values (they fold, trim, pad or
# re-encode): a converter that applies one of them on the way to / from the URL while the other direction does not
# undo it returns a different value than the one the URL was built from - understood, and wrong.  Anything that is not
# listed stays opaque ("not understood").
_NONIDENTITY_METHODS = {
    "lower", "upper", "casefold", "title", "capitalize", "swapcase", "strip", "lstrip", "rstrip", "replace", "translate", "expandtabs",
    "removeprefix", "removesuffix", "zfill", "center", "ljust", "rjust",
}
_NONIDENTITY_FUNCS = {
    "unicodedata.normalize", "urllib.parse.unquote", "urllib.parse.unquote_plus", "urllib.parse.quote", "urllib.parse.quote_plus", "html.escape", "html.unescape",
    "builtins.repr", "builtins.ascii", "re.sub", "re.escape", "string.capwords", "textwrap.shorten", "textwrap.dedent",
}
_IDENTITY_ENCODINGS = ("utf-8", "utf8", "utf_8")


def value_transform(term: t.Any, base: t.Callable[[t.Any], bool]) -> list[str] | None:
    """[] when term is the value itself (possibly through str() / UTF-8 encode), the list of known non-identity
    operations applied to it otherwise; None when the term is not understood as a function of the value."""
    if base(term):
        return []
    if not isinstance(term, Sym):
        return None
    if term.op == "call":
        fq, args, kwargs = term.args[0], term.args[1], dict(term.args[2])
        if fq == "builtins.str" and len(args) == 1 and not kwargs:
            return value_transform(args[0], base)
        name = fq
        if ".str." in fq and fq.rsplit(".", 1)[-1] in _NONIDENTITY_METHODS:
            name = "str." + fq.rsplit(".", 1)[-1]
        elif fq not in _NONIDENTITY_FUNCS:
            return None
        syms = [a for a in list(args) + list(kwargs.values()) if not H.deep_concrete(a)]
        if len(syms) != 1:
            return None
        inner = value_transform(syms[0], base)
        return None if inner is None else inner + [name]
    if term.op == "method":
        recv, name, args, kwargs = term.args[0], term.args[1], term.args[2], dict(term.args[3])
        if not H.deep_concrete(args) or not H.deep_concrete(kwargs):
            return None
        inner = value_transform(recv, base)
        if inner is None:
            return None
        if name == "encode":
            enc = kwargs.get("encoding", args[0] if args else "utf-8")
            if isinstance(enc, str) and enc.lower().replace("-", "_") in ("utf_8", "utf8"):
                return inner
            return inner + [f"encode({enc!r})"]
        if name in _NONIDENTITY_METHODS:
            return inner + [f".{name}()"]
        return None
    return None


def classify_text(term: t.Any, base: t.Callable[[t.Any], bool]) -> dict[str, t.Any] | None:
    """shape of a to_url result relative to the value (``base`` recognises the value symbol)."""
    if isinstance(term, str):
        return {"kind": "const", "text": term}
    if not isinstance(term, Sym):
        return None
    if term.op == "method" and term.args[1] == "zfill" and len(term.args[2]) == 1 and not term.args[3] and isinstance(term.args[2][0], int):
        inner = classify_text(term.args[0], base)
        if inner is None or inner.get("pad") is not None or inner["kind"] not in ("num", "str"):
            return None
        if term.args[2][0] <= 0:
            return inner  # zfill(0) (`.zfill(self.fixed_digits or 0)`) pads nothing
        return {**inner, "pad": term.args[2][0]}
    if term.op == "call" and term.args[0] in _QUOTE_FAMILY:
        a = term.args[1]
        if not a:
            return None
        tr = value_transform(a[0], base)
        if tr is None:
            return None
        return {"kind": "quote", "fq": term.args[0], "term": term, "transform": tr}
    if base(term):
        return {"kind": "raw"}
    if term.op == "call" and term.args[0] == "builtins.str" and len(term.args[1]) == 1 and not term.args[2]:
        x = term.args[1][0]
        if base(x):
            return {"kind": "str", "pad": None}
        if isinstance(x, Sym) and x.op == "call" and len(x.args[1]) == 1 and not x.args[2] and base(x.args[1][0]):
            return {"kind": "num", "fn": x.args[0], "pad": None}
    return None


def classify_python(term: t.Any, base: t.Callable[[t.Any], bool]) -> dict[str, t.Any] | None:
    if base(term):
        return {"kind": "identity"}
    if isinstance(term, Sym) and term.op == "call" and len(term.args[1]) == 1 and not term.args[2] and base(term.args[1][0]) and term.args[0] not in _NONIDENTITY_FUNCS:
        return {"kind": "conv", "fn": term.args[0]}
    tr = value_transform(term, base)
    if tr:
        return {"kind": "transform", "transform": tr}
    return None


def show(v: t.Any) -> str:
    s = H._key(v)
    s = s.replace("urllib.parse.", "").replace("builtins.", "")
    return s if len(s) < 260 else s[:257] + "..."


# ---------------------------------------------------------------------------------------------------------------
# scenario plumbing


class Env4:
    """handles into one world: the public classes, a fresh map, converter instances."""

    def __init__(self, w: World):
        self.w = w
        w.best_effort_modules.add("werkzeug.routing.matcher")
        self.Map = w.resolve_fq("werkzeug.routing.Map")
        self.Rule = w.resolve_fq("werkzeug.routing.Rule")
        if not isinstance(self.Map, ClsVal) or not isinstance(self.Rule, ClsVal):
            raise AnalysisError("werkzeug.routing.Map / Rule do not resolve to classes")

    def factory(self, name: str) -> t.Any:
        v = self.w.resolve_fq(f"werkzeug.routing.{name}")
        if not isinstance(v, ClsVal):
            raise AnalysisError(f"werkzeug.routing.{name} does not resolve to a class")
        return v

    def table(self) -> dict[str, t.Any]:
        tb = self.w.getattr(self.Map, "default_converters")
        if not isinstance(tb, dict):
            raise NotUnderstood("Map.default_converters is not a mapping")
        return tb

    def make_rule(self, spec: tuple) -> t.Any:
        kind = spec[0]
        if kind == "rule":
            # the option values are copied: the analysed code may (wrongly) write into a mapping it was given
            return self.w.call(self.Rule, [spec[1]], _copy.deepcopy(dict(spec[2])))
        if kind in ("Submount", "Subdomain", "EndpointPrefix"):
            return self.w.call(self.factory(kind), [spec[1], [self.make_rule(s) for s in spec[2]]], {})
        raise AssertionError(kind)

    def make_map(self, rules: list[tuple], **kw: t.Any) -> t.Any:
        return self.w.call(self.Map, [[self.make_rule(r) for r in rules]], kw)

    def converter(self, m: t.Any, name: str, args: tuple = (), kwargs: dict | None = None) -> t.Any:
        tb = self.table()
        if name not in tb:
            raise _MissingConverter(name)
        return self.w.call(tb[name], [m, *args], dict(kwargs or {}))


class _MissingConverter(Exception):
    pass


def V(name: str, typ: t.Any = str) -> Sym:
    return Sym("val", name, styp=typ)


def SEG(name: str, length: int | None = None) -> Sym:
    return Sym("seg", name, styp=str, length=length)


def _assume(term: Sym) -> bool | None:
    # domain: a value given to an `any` converter is one of its items
    if term.op == "in" and isinstance(term.args[0], Sym) and term.args[0].op == "val" and isinstance(term.args[1], tuple):
        return True
    # a symbolic segment is not one of the literal segments
    if term.op == "in" and isinstance(term.args[0], Sym) and any(isinstance(p, Sym) and p.op == "seg" for p in pieces_of(term.args[0])):
        return False
    if term.op == "cmp" and term.args[0] == "==" and any(isinstance(a, Sym) and any(isinstance(p, Sym) and p.op == "seg" for p in pieces_of(a)) for a in term.args[1:]) and any(isinstance(a, str) for a in term.args[1:]):
        return False
    # the URL text of a value of the domain is not empty
    if term.op == "cmp" and term.args[0] == "==" and "" in [a for a in term.args[1:] if isinstance(a, str)] and any(isinstance(a, Sym) and a.styp is str and "val(" in H._key(a) for a in term.args[1:]):
        return False
    # acceptance of a segment by a part regex is not decided here
    if term.op == "rematch":
        return True
    # urlencode of a non-empty item list is a non-empty string
    if term.op == "call" and term.args[0] == "urllib.parse.urlencode" and term.args[1] and isinstance(term.args[1][0], (list, tuple)):
        return len(term.args[1][0]) > 0
    if term.op in ("call", "method", "val") and term.styp is str and "val(" in H._key(term):
        return True  # truth value of the (non-empty) URL text of a value
    return None


def paths(repo, fn: t.Callable[[Env4], t.Any]) -> list[Outcome]:
    return explore(lambda w: fn(Env4(w)), repo, _assume)


def decoded(term: t.Any) -> list[t.Any]:
    """pieces with literal runs percent-decoded (what a server routes on)."""
    out: list[t.Any] = []
    for p in pieces_of(term):
        if isinstance(p, str):
            try:
                p = _unquote(p, errors="strict")
            except UnicodeDecodeError:
                p = _unquote(p, errors="replace")
            if out and isinstance(out[-1], str):
                out[-1] += p
                continue
        out.append(p)
    return out


def merge_expected(items: list[t.Any]) -> list[t.Any]:
    out: list[t.Any] = []
    for p in items:
        for q in pieces_of(p) if isinstance(p, Sym) else [p]:
            if isinstance(q, str):
                if q == "":
                    continue
                if out and isinstance(out[-1], str):
                    out[-1] += q
                    continue
            out.append(q)
    return out


def _no_scheme(ps: list[t.Any]) -> list[t.Any]:
    if ps and isinstance(ps[0], str) and "//" in ps[0] and not ps[0].startswith("/"):
        return [ps[0][ps[0].index("//"):]] + list(ps[1:])
    return ps


def same_pieces(a: list[t.Any], b: list[t.Any]) -> bool:
    a, b = _no_scheme(a), _no_scheme(b)
    if len(a) != len(b):
        return False
    for x, y in zip(a, b):
        if isinstance(x, str) or isinstance(y, str):
            if not (isinstance(x, str) and isinstance(y, str) and x == y):
                return False
        elif H._key(x) != H._key(y):
            return False
    return True


def require_understood(term: t.Any, what: str) -> None:
    """every symbolic piece of a built URL must be one of the forms the comparison knows (a converter text of a value,
    the encoded query); an opaque library result is 'not understood', never a difference."""
    for p in pieces_of(term):
        if isinstance(p, str):
            continue
        if isinstance(p, Sym) and p.op == "call" and p.args[0] == "urllib.parse.urlencode":
            continue
        if classify_text(p, _is_val) is None:
            raise AnalysisError(f"{what}: piece {show(p)} of the built URL is not understood")


def raw_literals_ok(term: t.Any) -> list[str]:
    """raw literal text of a URL path / host: problems found (empty = fine)."""
    bad: list[str] = []
    for p in pieces_of(term):
        if not isinstance(p, str):
            continue
        for ch in "?# ":
            if ch in p:
                bad.append(f"raw {ch!r} in {p!r}")
        for m in re.finditer("%", p):
            if not re.match("%[0-9A-Fa-f]{2}", p[m.start():]):
                bad.append(f"stray '%' in {p!r}")
    return bad


def split_query(term: t.Any) -> tuple[t.Any, list[t.Any] | None]:
    """(path part, query pieces or None): the URL is cut at the first '?' that occurs in literal text."""
    ps = pieces_of(term)
    for i, p in enumerate(ps):
        if isinstance(p, str) and "?" in p:
            head, _, tail = p.partition("?")
            before = ps[:i] + ([head] if head else [])
            after = ([tail] if tail else []) + ps[i + 1:]
            return (concat(*before) if before else ""), after
    return term, None


def _fi_of(repo, *fqs: str) -> FuncInfo | str:
    for fq in fqs:
        f = repo.try_func(fq)
        if f is not None:
            return f
    return fqs[0]


def _method_fi(repo, cls: ClassInfo, name: str) -> FuncInfo | str:
    owner, what = repo.lookup(cls, name)
    if isinstance(what, FuncInfo):
        return what
    return f"{cls.fq}.{name}"


def _ob(ctx: Ctx, rule: str, instance: str, ok: bool, fact: str, where: FuncInfo | str, construct: str) -> bool:
    node = where.node if isinstance(where, FuncInfo) else None
    return ctx.ob(rule, instance, ok, fact, where, node, construct)


def _describe_exc(e: ExcObj) -> str:
    n = e.cls.cls.name if isinstance(e.cls, ClsVal) else getattr(e.cls, "__name__", str(e.cls))
    return f"{n}({', '.join(show(a) for a in e.args)})"


# ---------------------------------------------------------------------------------------------------------------
# the rules


def run(ctx: Ctx) -> None:
    repo = ctx.repo
    for rid, text in {
        "R4.1": "quoting calls that contribute path/domain text are urllib.parse.quote (UTF-8, strict) with '/' safe and none of '%', '?', '#', space safe; literal rule text reaches the URL percent-encoded",
        "R4.2": "each default converter's to_url is inverted by its to_python (same number type, zfill(n) with fixed_digits and every other length refused, quoting of reserved characters) and its instance regex accepts the canonical text of sample values",
        "R4.3": "MapAdapter.build emits, in rule order, the encoded literal pieces and each variable's own converter.to_url(value); defaults of rule variables go through to_url; domain and path pieces are kept apart",
        "R4.4": "MapAdapter.match returns the rule's endpoint and, per variable, its own converter's to_python of the text captured at its own position, plus the rule's defaults",
        "R4.5": "extra values do not alter the path (with and without append_unknown); the query follows one '?' and is urlencode (UTF-8) of exactly the non-None extra values, multi-values pairwise, with a safe set free of '&', '=', '+', '%', '#', space",
        "R4.6": "Map.default_converters binds default, string, any, path, int, float, uuid to converters of the matching kind",
        "R4.7": "built URL = script root + '/' + rule path (script_name '/', '/app', '/app/'; relative and external), host = domain part + server name, factories and host matching included; defaults select the rule",
        "R4.8": "a match is an observation: it leaves every rule's options (defaults, ...) as they were, hands back a mapping of its own, and a build or match afterwards returns what it returns without the earlier match",
    }.items():
        ctx.rule(rid, text)

    sites: dict[tuple, dict[str, t.Any]] = {}

    def harvest(o: Outcome) -> None:
        for fq, args, kwargs, site, res in o.world.calls:
            if fq not in _QUOTE_FAMILY:
                continue
            fv, node = site
            if fv is None or fv.module is None:
                key = ("<generated>", "?", norm(node) if node is not None else "?")
            else:
                key = (fv.module.relpath, fv.fi.qualname if fv.fi is not None else fv.name, norm(node) if node is not None else "?")
            d = sites.setdefault(key, {"fq": fq, "fv": fv, "node": node, "uses": [], "static": 0, "dynamic": 0})
            d["uses"].append((args, kwargs))
            if args and isinstance(args[0], str):
                d["static"] += 1
            else:
                d["dynamic"] += 1

    table_ok = rule_table(ctx, repo)
    kinds = rule_converters(ctx, repo, table_ok, harvest)
    rule_build(ctx, repo, table_ok, harvest)
    rule_match(ctx, repo, table_ok, kinds)
    rule_assembly(ctx, repo, table_ok, harvest)
    rule_history(ctx, repo, table_ok)
    rule_quoting(ctx, repo, sites)


# -- R4.6 ---------------------------------------------------------------------------------------------------------

EXPECTED_KIND = {"default": "text", "string": "text", "path": "text", "any": "member", "int": "int", "float": "float", "uuid": "uuid"}


def rule_table(ctx: Ctx, repo) -> set[str]:
    outs = paths(repo, lambda e: {k: v for k, v in e.table().items()})
    if len(outs) != 1 or outs[0].kind != "return":
        raise AnalysisError("Map.default_converters could not be evaluated")
    tb = outs[0].value
    where = "werkzeug.routing.map.Map.default_converters"
    present = set()
    for name in TABLE_NAMES:
        ok = name in tb and isinstance(tb[name], ClsVal)
        ctx.ob("R4.6", f"default converter table has {name!r}", ok, f"{name!r} -> {tb.get(name)!r}; table keys {sorted(map(str, tb))}", where, None, f"table has {name}")
        if ok:
            present.add(name)
    ctx.floor("R4.6", "documented converter names", len(TABLE_NAMES), 7)
    return present


# -- R4.2 ---------------------------------------------------------------------------------------------------------

_UUID_SAMPLE = str(_uuid.UUID("12345678-9abc-4def-8123-456789abcdef"))

CONFIGS: dict[str, list[tuple[str, tuple, dict, list[str]]]] = {
    # name -> [(label, args, kwargs, canonical sample texts the regex has to accept)]
    "default": [("", (), {}, ["a", "a b;?#%é+=&", "é"]), ("length=3", (), {"length": 3}, ["abc", "a é"]), ("minlength=2, maxlength=4", (), {"minlength": 2, "maxlength": 4}, ["ab", "abcd"])],
    "string": [("", (), {}, ["a", "a b;?#%é+=&"]), ("length=3", (), {"length": 3}, ["abc"]), ("minlength=2, maxlength=4", (), {"minlength": 2, "maxlength": 4}, ["ab", "abcd"]),
               # each length option on its own: the shortest and a long text of the documented range
               ("minlength=2", (), {"minlength": 2}, ["ab", "abc", "a" * 40]), ("maxlength=3", (), {"maxlength": 3}, ["a", "ab", "abc"]), ("length=1", (), {"length": 1}, ["a", "é"])],
    "path": [("", (), {}, ["a", "a/b c/é", "x/y"])],
    "any": [("about, x.y", ("about", "x.y"), {}, ["about", "x.y"]), ("about, c?d e", ("about", "c?d e"), {}, ["about", "c?d e"])],
    "int": [("", (), {}, ["0", "42", "100000000000000000000"]), ("fixed_digits=4", (), {"fixed_digits": 4}, ["0042", "1234"]), ("signed=True", (), {"signed": True}, ["-42", "42"]),
            # canonical text = str(v).zfill(n): the sign counts towards the width
            ("fixed_digits=3, signed=True", (), {"fixed_digits": 3, "signed": True}, ["-05", "005", "-12", "123"])],
    "float": [("", (), {}, ["1.5", "0.0", "120.25"]), ("signed=True", (), {"signed": True}, ["-1.5", "1.5"])],
    "uuid": [("", (), {}, [_UUID_SAMPLE])],
}
_VALUE_TYPE = {"default": str, "string": str, "path": str, "any": str, "int": int, "float": float, "uuid": _uuid.UUID}
_NUM_FN = {"int": "builtins.int", "float": "builtins.float"}


def rule_converters(ctx: Ctx, repo, present: set[str], harvest) -> dict[str, str]:
    kinds: dict[str, str] = {}
    n_conv = 0
    for name in TABLE_NAMES:
        if name not in present:
            continue
        for label, args, kwargs, samples in CONFIGS[name]:
            try:
                cfg = f"{name}({label})" if label else name
                vtyp = _VALUE_TYPE[name]

                def scen(e: Env4, name=name, args=args, kwargs=kwargs, vtyp=vtyp):
                    m = e.make_map([])
                    c = e.converter(m, name, args, kwargs)
                    w = e.w
                    v = V("v", vtyp)
                    s = SEG("s")
                    try:
                        u: t.Any = w.call(w.getattr(c, "to_url"), [v], {})
                    except Raised as r:
                        u = r.exc
                    try:
                        p: t.Any = w.call(w.getattr(c, "to_python"), [s], {})
                    except Raised as r:
                        p = r.exc
                    return {"cls": c.cls if isinstance(c, Obj) else None, "regex": w.getattr(c, "regex"), "to_url": u, "to_python": p}

                outs = paths(repo, scen)
                for o in outs:
                    harvest(o)
                good = [o for o in outs if o.kind == "return"]
                if not good:
                    tw = "werkzeug.routing.map.Map.default_converters"
                    _ob(ctx, "R4.2", f"{cfg}: the converter accepts its documented options", False, f"instantiating the table entry {name!r} with {args} {kwargs} raised {_describe_exc(outs[0].value)}", tw, f"{cfg} instantiation")
                    if label == "" or name in ("int", "float"):
                        _ob(ctx, "R4.6", f"table entry {name!r} takes the options of a {EXPECTED_KIND[name]} converter", False, f"{name!r}({label}) raised {_describe_exc(outs[0].value)}", tw, f"table kind {name} options")
                    continue
                cls = good[0].value["cls"]
                if cls is None:
                    raise AnalysisError(f"converter {cfg} is not an instance of a package class")
                f_url, f_py, f_init = _method_fi(repo, cls, "to_url"), _method_fi(repo, cls, "to_python"), _method_fi(repo, cls, "__init__")
                n_conv += 1
                is_v = lambda x: _is_val(x, "v")  # noqa: E731
                is_s = lambda x: _is_val(x, "s")  # noqa: E731

                # ---- to_url
                urls = [o.value["to_url"] for o in good]
                cu = [classify_text(u, is_v) if not isinstance(u, ExcObj) else None for u in urls]
                if any(isinstance(u, ExcObj) for u in urls):
                    _ob(ctx, "R4.2", f"{cfg}: to_url accepts a value of its domain", False, f"to_url raised {[_describe_exc(u) for u in urls if isinstance(u, ExcObj)]} for a value of the converter's domain", f_url, f"{cfg} to_url raises")
                    continue
                if any(c is None for c in cu):
                    bad = [show(u) for u, c in zip(urls, cu) if c is None]
                    raise AnalysisError(f"{cfg}.to_url returns a form that is not understood: {bad[0]}")
                forms = {(c["kind"], c.get("fn"), c.get("pad"), tuple(c.get("transform") or ())) for c in cu}
                if len(forms) != 1:
                    raise AnalysisError(f"{cfg}.to_url has several forms for one configuration: {sorted(map(str, forms))}")
                c0 = cu[0]
                expect_kind = EXPECTED_KIND[name]
                pad_want = kwargs.get("fixed_digits") or None
                if expect_kind == "text":
                    ok = c0["kind"] == "quote" and not c0.get("transform")
                    want = "quote(value, safe=...) of the value itself" + (f" - but the value first goes through {c0['transform']}, which to_python does not undo" if c0.get("transform") else "")
                elif expect_kind == "member":
                    ok = c0["kind"] in ("raw", "quote", "str") and not c0.get("transform")
                    want = "the member itself (quoted where needed)" + (f" - but the value first goes through {c0['transform']}" if c0.get("transform") else "")
                elif expect_kind in ("int", "float"):
                    ok = (c0["kind"] == "num" and c0["fn"] == _NUM_FN[expect_kind] or c0["kind"] == "str") and c0.get("pad") == pad_want
                    want = f"str({expect_kind}(value))" + (f".zfill({pad_want})" if pad_want else " without padding")
                else:
                    ok = c0["kind"] in ("str", "raw")
                    want = "str(value)"
                _ob(ctx, "R4.2", f"{cfg}: to_url has the form its to_python inverts", ok, f"to_url(value) = {show(urls[0])}; wanted {want}", f_url, f"{cfg} to_url form")
                if ok and name not in kinds:
                    kinds[name] = expect_kind
                _ob(ctx, "R4.6", f"table entry {name!r} builds like a {expect_kind} converter", ok or label != "", f"{name!r} -> {cls.name}; to_url(value) = {show(urls[0])}", "werkzeug.routing.map.Map.default_converters", f"table kind {name} url") if label == "" else None

                # reserved characters: values that may contain them must come out quoted
                if expect_kind == "member":
                    items_reserved = any(ch in it for it in args for ch in RESERVED_IN_PATH)
                    if items_reserved:
                        _ob(ctx, "R4.2", f"{cfg}: to_url percent-encodes members that contain URL-reserved characters", c0["kind"] == "quote",
                            f"items {list(args)} contain reserved characters; to_url(member) = {show(urls[0])} (unquoted text: '?' ends the path, '%xx' is decoded by the server)", f_url, f"{name} to_url quotes reserved members")

                # ---- to_python
                pys = [o.value["to_python"] for o in good]
                fixed = kwargs.get("fixed_digits")
                if not fixed:
                    if any(isinstance(p, ExcObj) for p in pys):
                        pys_ok = [p for p in pys if not isinstance(p, ExcObj)]
                        if not pys_ok:
                            _ob(ctx, "R4.2", f"{cfg}: to_python accepts text its regex admits", False, f"to_python raised {_describe_exc(pys[0])} on every path", f_py, f"{cfg} to_python raises")
                            continue
                        pys = pys_ok
                    cp = [classify_python(p, is_s) for p in pys]
                    if any(c is None for c in cp):
                        raise AnalysisError(f"{cfg}.to_python returns a form that is not understood: {show(pys[0])}")
                    c1 = cp[0]
                    if expect_kind in ("text", "member"):
                        okp, wantp = c1["kind"] == "identity", "the text itself"
                    elif expect_kind in ("int", "float"):
                        okp, wantp = c1["kind"] == "conv" and c1["fn"] == _NUM_FN[expect_kind], f"{expect_kind}(text)"
                        if okp and c0["kind"] == "num":
                            okp = c0["fn"] == c1["fn"]
                    else:
                        okp, wantp = c1["kind"] == "conv" and c1["fn"] == "uuid.UUID", "uuid.UUID(text)"
                    _ob(ctx, "R4.2", f"{cfg}: to_python inverts to_url", okp, f"to_python(text) = {show(pys[0])}; wanted {wantp}; to_url(value) = {show(urls[0])}", f_py, f"{cfg} to_python form")
                    if label == "":
                        _ob(ctx, "R4.6", f"table entry {name!r} converts like a {expect_kind} converter", okp, f"{name!r} -> {cls.name}; to_python(text) = {show(pys[0])}", "werkzeug.routing.map.Map.default_converters", f"table kind {name} python")
                else:
                    # fixed_digits: every length but n is refused, length n is converted
                    for L in (fixed - 1, fixed, fixed + 1):
                        def scen_len(e: Env4, name=name, args=args, kwargs=kwargs, L=L):
                            m = e.make_map([])
                            c = e.converter(m, name, args, kwargs)
                            return e.w.call(e.w.getattr(c, "to_python"), [SEG("s", L)], {})

                        louts = paths(repo, scen_len)
                        res = []
                        for o in louts:
                            if o.kind == "raise":
                                res.append("raises " + _describe_exc(o.value).split("(")[0])
                            else:
                                cpy = classify_python(o.value, is_s)
                                res.append("returns " + show(o.value) if cpy is not None else "returns ?" + show(o.value))
                        if any(r.startswith("returns ?") for r in res):
                            raise AnalysisError(f"{cfg}.to_python(text of length {L}) returns a form that is not understood: {[r for r in res if r.startswith('returns ?')][0][9:]}")
                        if L == fixed:
                            okl = all(r.startswith("returns ") and not r.startswith("returns ?") for r in res)
                            inst = f"{cfg}: to_python converts a text of exactly {fixed} characters"
                        else:
                            okl = all(r == "raises ValidationError" for r in res)
                            inst = f"{cfg}: to_python refuses a text of {'fewer' if L < fixed else 'more'} than {fixed} characters"
                        _ob(ctx, "R4.2", inst, okl, f"to_python(text of length {L}) {sorted(set(res))}; to_url pads to {fixed} characters, so the URL built from a matched value must be the URL that was matched", f_py, f"{cfg} to_python length {'<' if L < fixed else ('>' if L > fixed else '=')} n")

                # ---- regex
                rx = good[0].value["regex"]
                if not isinstance(rx, str):
                    raise AnalysisError(f"{cfg}.regex is not a constant string: {show(rx)}")
                try:
                    crx = re.compile(rx)
                except re.error as e:
                    _ob(ctx, "R4.2", f"{cfg}: instance regex compiles", False, f"{rx!r}: {e}", f_init, f"{cfg} regex compiles")
                    continue
                for smp in samples:
                    _ob(ctx, "R4.2", f"{cfg}: regex accepts the canonical text {smp!r}", crx.fullmatch(smp) is not None, f"regex {rx!r} vs {smp!r}", f_init, f"{cfg} regex accepts {smp}")
            except AnalysisError as exc:  # this scenario is not understood; others still count
                ctx.error(f"R4.2 converter {name}({label}): {exc}")
    ctx.floor("R4.2", "converter configurations analysed", n_conv, 13)
    return kinds


# -- R4.3 / R4.5 ----------------------------------------------------------------------------------------------------

# piece specs of the expected URL: "literal" | ("dyn", variable, converter name, args, kwargs, python type) | ("dflt", converter, args, kwargs, default)
def DYN(var: str, conv: str = "default", args: tuple = (), kwargs: dict | None = None) -> tuple:
    return ("dyn", var, conv, args, kwargs or {})


def DFLT(conv: str, args: tuple, kwargs: dict, default: t.Any) -> tuple:
    return ("dflt", conv, args, kwargs, default)


BUILD_SCENARIOS: list[dict[str, t.Any]] = [
    {"id": "literal text and string", "needs": {"default"}, "rules": [("rule", "/s t?#é%41/<name>", {"endpoint": "e"})],
     "values": {"name": str}, "path": ["/s t?#é%41/", DYN("name")]},
    {"id": "int and fixed_digits", "needs": {"int"}, "rules": [("rule", "/i/<int:n>/x/<int(fixed_digits=4):m>", {"endpoint": "e"})],
     "values": {"n": int, "m": int}, "path": ["/i/", DYN("n", "int"), "/x/", DYN("m", "int", (), {"fixed_digits": 4})]},
    {"id": "float, uuid in one segment", "needs": {"float", "uuid"}, "rules": [("rule", "/f/<float(signed=True):v>-<uuid:u>", {"endpoint": "e"})],
     "values": {"v": float, "u": _uuid.UUID}, "path": ["/f/", DYN("v", "float", (), {"signed": True}), "-", DYN("u", "uuid")]},
    {"id": "any", "needs": {"any"}, "rules": [("rule", "/a/<any(about, help):k>/z", {"endpoint": "e"})],
     "values": {"k": str}, "path": ["/a/", DYN("k", "any", ("about", "help")), "/z"]},
    {"id": "path and string", "needs": {"path", "string"}, "rules": [("rule", "/p/<string(length=2):l>/<path:p>/edit", {"endpoint": "e"})],
     "values": {"l": str, "p": str}, "path": ["/p/", DYN("l", "string", (), {"length": 2}), "/", DYN("p", "path"), "/edit"]},
    {"id": "default for a rule variable", "needs": {"int", "default"}, "rules": [("rule", "/dd/<int(fixed_digits=3):n>/<s>", {"endpoint": "e", "defaults": {"n": 7}})],
     "values": {"s": str}, "path": ["/dd/", DFLT("int", (), {"fixed_digits": 3}, 7), "/", DYN("s")]},
    {"id": "default for a rule variable, value passed", "needs": {"int", "default"}, "rules": [("rule", "/dd/<int(fixed_digits=3):n>/<s>", {"endpoint": "e", "defaults": {"n": 7}})],
     "values": {"s": str}, "concrete": {"n": 7}, "path": ["/dd/", DFLT("int", (), {"fixed_digits": 3}, 7), "/", DYN("s")]},
    {"id": "text default for a rule variable", "needs": {"string", "default"}, "rules": [("rule", "/city/<string(maxlength=8):c>/<s>", {"endpoint": "e", "defaults": {"c": "Zü r%i?"}})],
     "values": {"s": str}, "path": ["/city/", DFLT("string", (), {"maxlength": 8}, "Zü r%i?"), "/", DYN("s")]},
    {"id": "two variables, order", "needs": {"default", "int"}, "rules": [("rule", "/o/<b>/<int:a>", {"endpoint": "e"})],
     "values": {"a": int, "b": str}, "path": ["/o/", DYN("b"), "/", DYN("a", "int")]},
    {"id": "repeated slashes in the rule", "needs": {"default"}, "rules": [("rule", "/m//<x>//k", {"endpoint": "e"})],
     "values": {"x": str}, "path": ["/m/", DYN("x"), "/k"]},
    {"id": "trailing slash", "needs": {"int"}, "rules": [("rule", "/t/<int:n>/", {"endpoint": "e"})],
     "values": {"n": int}, "path": ["/t/", DYN("n", "int"), "/"]},
    {"id": "subdomain rule", "needs": {"default", "string"}, "rules": [("rule", "/sub/<x>", {"endpoint": "e", "subdomain": "<string(length=2):lang>.a pi"})],
     "bind": {"subdomain": "www"}, "values": {"x": str, "lang": str}, "path": ["/sub/", DYN("x")], "domain": [DYN("lang", "string", (), {"length": 2}), ".a pi"]},
]


def _expected(e: Env4, m: t.Any, spec: list[t.Any], vals: dict[str, t.Any]) -> list[t.Any]:
    out: list[t.Any] = []
    w = e.w
    for p in spec:
        if isinstance(p, str):
            out.append(p)
        elif p[0] == "dyn":
            c = e.converter(m, p[2], p[3], p[4])
            out.append(w.call(w.getattr(c, "to_url"), [vals[p[1]]], {}))
        else:
            c = e.converter(m, p[1], p[2], p[3])
            u = w.call(w.getattr(c, "to_url"), [p[4]], {})
            out.append(_unquote(u) if isinstance(u, str) else u)
    return out


def _bind(e: Env4, m: t.Any, bind: dict[str, t.Any]) -> t.Any:
    kw = {"script_name": "/"}
    kw.update(bind)
    server = kw.pop("server_name", "example.com")
    return e.w.call(e.w.getattr(m, "bind"), [server], kw)


def rule_build(ctx: Ctx, repo, present: set[str], harvest) -> None:
    where = _fi_of(repo, "routing.rules.Rule._compile_builder", "routing.rules.Rule.build", "routing.map.MapAdapter.build")
    where_q = _fi_of(repo, "routing.rules.Rule._encode_query_vars", "routing.rules.Rule._compile_builder", "routing.map.MapAdapter.build")
    n = 0
    for sc in BUILD_SCENARIOS:
        if not sc["needs"] <= present:
            continue
        n += 1
        sid = sc["id"]
        try:

            def scen(e: Env4, sc=sc, extras: dict | None = None, kw: dict | None = None):
                m = e.make_map(sc["rules"], **sc.get("map_kw", {}))
                ad = _bind(e, m, sc.get("bind", {}))
                vals = {k: V(k, ty) for k, ty in sc["values"].items()}
                given: dict[str, t.Any] = dict(vals)
                given.update(sc.get("concrete", {}))
                given.update(extras or {})
                url = e.w.call(e.w.getattr(ad, "build"), ["e", given], dict(kw or {}))
                return {"url": url, "path": _expected(e, m, sc["path"], vals), "domain": _expected(e, m, sc.get("domain", []), vals), "extras": extras or {}}

            def check_query(ue: Sym, extras: dict[str, t.Any], lab: str) -> None:
                """the extra values a server reads back from the query: pairs and escaping."""
                fv, node = ue.site if ue.site is not None else (None, None)
                w_q: FuncInfo | str = fv.fi if fv is not None and fv.fi is not None else where_q
                a, kw = ue.args[1], dict(ue.args[2])
                items = a[0] if a else kw.get("query")
                want_items: list[tuple[str, t.Any]] = []
                for k, v in extras.items():
                    for x in (v if isinstance(v, (list, tuple)) else [v]):
                        if x is not None:
                            want_items.append((k, x))
                if not isinstance(items, (list, tuple)):
                    raise AnalysisError(f"build ({lab}): urlencode is given {show(items)}")
                got_items = [tuple(it) if isinstance(it, (list, tuple)) else it for it in items]
                ctx.ob("R4.5", f"build ({lab}): the query carries exactly the extra values (one pair per value, None omitted, in order)", H._key(got_items) == H._key(want_items),
                       f"urlencode items {show(got_items)}; wanted {show(want_items)}", w_q, node, f"query items {lab}")
                safe = kw.get("safe", a[2] if len(a) > 2 else "")
                if isinstance(safe, bytes):
                    safe = safe.decode("ascii", "ignore")
                if not isinstance(safe, str):
                    raise AnalysisError(f"build ({lab}): urlencode safe set {show(safe)} is not a constant")
                bad = sorted(set(safe) & set(RESERVED_IN_QUERY))
                ctx.ob("R4.5", f"build ({lab}): the query safe set leaves none of '&', '=', '+', '%', '#', space unencoded", not bad, f"urlencode(..., safe={safe!r}); structural characters left raw: {bad}", w_q, node, f"query safe set {lab}")
                enc = kw.get("encoding", a[3] if len(a) > 3 else None)
                err = kw.get("errors", a[4] if len(a) > 4 else None)
                qv = kw.get("quote_via", a[5] if len(a) > 5 else None)
                if any(isinstance(x, Sym) for x in (enc, err, qv)):
                    raise AnalysisError(f"build ({lab}): symbolic urlencode options")
                import urllib.parse as _up

                ok_opts = (enc is None or str(enc).lower().replace("_", "-") in ("utf-8", "utf8")) and (err is None or err == "strict") and (qv is None or qv in (_up.quote_plus, _up.quote))
                ctx.ob("R4.5", f"build ({lab}): the query is encoded as UTF-8 with quote_plus / quote", ok_opts, f"encoding={enc!r} errors={err!r} quote_via={getattr(qv, '__name__', qv)!r}", w_q, node, f"query encoding {lab}")

            def check(outs: list[Outcome], label: str, rule: str, want_query: bool | None, where_: FuncInfo | str) -> None:
                for o in outs:
                    harvest(o)
                bad = [o for o in outs if o.kind == "raise"]
                if bad:
                    _ob(ctx, rule, f"build ({sid}{label}) succeeds for values of the converters' domain", False, f"build raised {_describe_exc(bad[0].value)}", where_, f"build {sid}{label} raises")
                    return
                for o in outs:
                    url = o.value["url"]
                    if not H.is_str_term(url):
                        raise AnalysisError(f"build ({sid}) returned a non-string {show(url)}")
                    head, query = split_query(url)
                    require_understood(head, f"build ({sid}{label})")
                    exp_path = merge_expected(o.value["path"])
                    exp_dom = merge_expected(o.value["domain"])
                    if exp_dom:
                        exp = merge_expected(["http://"] + exp_dom + [".example.com"] + exp_path)
                    else:
                        exp = exp_path
                    got = decoded(head)
                    okp = same_pieces(got, exp)
                    if rule == "R4.3":
                        _ob(ctx, "R4.3", f"build ({sid}{label}): pieces in rule order, each variable through its own converter", okp,
                            f"built {show(head)}; after the server's percent-decoding {show(got)}; wanted {show(exp)}", where_, f"build {sid}{label} pieces")
                        probs = raw_literals_ok(head)
                        _ob(ctx, "R4.1", f"build ({sid}{label}): literal rule text is emitted percent-encoded", not probs, f"built {show(head)}: {probs or 'no raw reserved characters'}", where_, f"build {sid}{label} literals encoded")
                    else:
                        _ob(ctx, "R4.5", f"build ({sid}{label}): extra values leave the path untouched", okp, f"path part {show(got)}; wanted {show(exp)}", where_, f"build {sid}{label} path with extras")
                        if want_query:
                            okq = query is not None and len(query) > 0 and all(not (isinstance(q, str) and ("?" in q or "#" in q)) for q in query) and any(isinstance(q, Sym) for q in query)
                            _ob(ctx, "R4.5", f"build ({sid}{label}): the query follows exactly one '?'", okq, f"built {show(url)}; query pieces {show(query) if query is not None else None}", where_, f"build {sid}{label} query separator")
                            if okq:
                                ue = [q for q in query if isinstance(q, Sym) and q.op == "call" and q.args[0] == "urllib.parse.urlencode"]
                                if len(query) != 1 or len(ue) != 1:
                                    raise AnalysisError(f"build ({sid}{label}): the query {show(query)} is not a single urllib.parse.urlencode(...) result")
                                check_query(ue[0], o.value["extras"], sid + label)
                        elif want_query is False:
                            pass

            check(paths(repo, scen), "", "R4.3", None, where)
            if sid in ("literal text and string", "path and string"):
                ex = {"q": V("q1", str), "n0": None, "r": [V("r1", str), None, V("r2", str)], "k&=": V("k1", str)}
                check(paths(repo, lambda e: scen(e, extras=ex)), ", extra values", "R4.5", True, where_q)
                check(paths(repo, lambda e: scen(e, extras=ex, kw={"append_unknown": False})), ", extra values, append_unknown=False", "R4.5", False, where_q)
        except AnalysisError as exc:  # this scenario is not understood; others still count
            ctx.error(f"R4.3 build scenario {sid}: {exc}")
    ctx.floor("R4.3", "build scenarios", n, 12)


# -- R4.4 -----------------------------------------------------------------------------------------------------------

MATCH_SCENARIOS: list[dict[str, t.Any]] = [
    {"id": "int, decorated string, defaults", "needs": {"int", "default"}, "rules": [("rule", "/i/<int:n>/v<name>/x", {"endpoint": "ep1", "defaults": {"k": 7}})],
     "path": ["/i/", ("seg", "n"), "/v", ("seg", "name"), "/x"], "expect": {"n": ("int", "n"), "name": ("text", "name"), "k": ("const", 7)}, "endpoint": "ep1"},
    {"id": "two variables, order", "needs": {"int", "default"}, "rules": [("rule", "/o/<b>/<int:a>", {"endpoint": "ep2"}), ("rule", "/other/<float:z>", {"endpoint": "ep3"})],
     "path": ["/o/", ("seg", "b"), "/", ("seg", "a")], "expect": {"b": ("text", "b"), "a": ("int", "a")}, "endpoint": "ep2"},
    {"id": "float, uuid, any", "needs": {"float", "uuid", "any"}, "rules": [("rule", "/f/<float:v>/<uuid:u>/<any(about, help):k>", {"endpoint": "ep4"})],
     "path": ["/f/", ("seg", "v"), "/", ("seg", "u"), "/", ("seg", "k")], "expect": {"v": ("float", "v"), "u": ("uuid", "u"), "k": ("text", "k")}, "endpoint": "ep4"},
    {"id": "subdomain variable", "needs": {"default"}, "rules": [("rule", "/sub/<x>", {"endpoint": "ep5", "subdomain": "<lang>"})], "bind": {"subdomain": ("seg", "lang")},
     "path": ["/sub/", ("seg", "x")], "expect": {"lang": ("text", "lang"), "x": ("text", "x")}, "endpoint": "ep5"},
    {"id": "repeated slashes in the rule", "needs": {"default"}, "rules": [("rule", "/m//<x>//k", {"endpoint": "ep7"})],
     "path": ["/m/", ("seg", "x"), "/k"], "expect": {"x": ("text", "x")}, "endpoint": "ep7"},
    {"id": "trailing slash", "needs": {"int"}, "rules": [("rule", "/t/<int:n>/", {"endpoint": "ep8"})],
     "path": ["/t/", ("seg", "n"), "/"], "expect": {"n": ("int", "n")}, "endpoint": "ep8"},
    {"id": "submount", "needs": {"string"}, "rules": [("Submount", "/blog", [("rule", "/e/<string:slug>", {"endpoint": "ep6"})])],
     "path": ["/blog/e/", ("seg", "slug")], "expect": {"slug": ("text", "slug")}, "endpoint": "ep6"},
    # the options of a rule wrapped in a factory are those it was written with: host rules under host matching
    {"id": "host rule inside Submount", "needs": {"default"}, "map_kw": {"host_matching": True}, "bind": {"server_name": "api.example.org"},
     "rules": [("Submount", "/sm", [("rule", "/h/<x>", {"endpoint": "ep9", "host": "api.example.org"}), ("rule", "/h/<x>", {"endpoint": "ep9b", "host": "www.example.org"})])],
     "path": ["/sm/h/", ("seg", "x")], "expect": {"x": ("text", "x")}, "endpoint": "ep9"},
    {"id": "static host rule inside EndpointPrefix and Subdomain", "needs": {"int"}, "map_kw": {"host_matching": True}, "bind": {"server_name": "example.org"},
     "rules": [("EndpointPrefix", "p.", [("Subdomain", "sd", [("rule", "/g/<int:n>", {"endpoint": "ep10", "host": "example.org"})])])],
     "path": ["/g/", ("seg", "n")], "expect": {"n": ("int", "n")}, "endpoint": "p.ep10"},
]
_PY_FN = {"int": "builtins.int", "float": "builtins.float", "uuid": "uuid.UUID"}


def rule_match(ctx: Ctx, repo, present: set[str], kinds: dict[str, str]) -> None:
    where = _fi_of(repo, "routing.matcher.StateMachineMatcher.match", "routing.map.MapAdapter.match")
    n = 0
    for sc in MATCH_SCENARIOS:
        if not sc["needs"] <= present:
            continue
        n += 1
        sid = sc["id"]
        try:

            def scen(e: Env4, sc=sc):
                m = e.make_map(sc["rules"], **sc.get("map_kw", {}))
                piece = lambda v: SEG(v[1]) if isinstance(v, tuple) else v  # noqa: E731
                bind = {k: (concat(*[piece(x) for x in v]) if isinstance(v, list) else piece(v)) for k, v in sc.get("bind", {}).items()}
                ad = _bind(e, m, bind)
                e.w.best_effort_modules.clear()  # the matcher itself is what is analysed here
                path = concat(*[SEG(p[1]) if isinstance(p, tuple) else p for p in sc["path"]])
                return e.w.call(e.w.getattr(ad, "match"), [path], {})

            outs = paths(repo, scen)
            good = [o for o in outs if o.kind == "return"]
            if not good:
                _ob(ctx, "R4.4", f"match ({sid}): the path shape build emits is matched", False, f"every path raises: {sorted({_describe_exc(o.value).split('(')[0] for o in outs})}", where, f"match {sid} succeeds")
                continue
            for o in good:
                rv = o.value
                if not (isinstance(rv, tuple) and len(rv) == 2 and isinstance(rv[1], dict)):
                    raise AnalysisError(f"match ({sid}) returned {show(rv)}")
                ep, vals = rv
                _ob(ctx, "R4.4", f"match ({sid}): returns the rule's endpoint", isinstance(ep, str) and ep == sc["endpoint"], f"endpoint {show(ep)}; wanted {sc['endpoint']!r}", where, f"match {sid} endpoint")
                facts = []
                ok = set(vals) == set(sc["expect"])
                for var, (kind, src) in sc["expect"].items():
                    got = vals.get(var, "<missing>")
                    if kind == "const":
                        good_v = not isinstance(got, Sym) and got == src
                    else:
                        def from_own_segment(x: t.Any, src=src) -> bool:
                            return isinstance(x, Sym) and x.op == "group" and f"seg('{src}')" in H._key(x.args[0]) and not any(f"seg('{o_}')" in H._key(x.args[0]) for o_ in sc["expect"] if o_ != src and sc["expect"][o_][0] != "const")

                        cp = classify_python(got, from_own_segment)
                        if cp is None and isinstance(got, Sym) and classify_python(got, lambda x: isinstance(x, Sym) and x.op == "group") is None:
                            # neither a captured text nor a conversion / known text operation of one: the form of the
                            # value is not understood (a value of a known form from the wrong place is a difference)
                            raise AnalysisError(f"match ({sid}): the value returned for {var!r} is not understood: {show(got)}")
                        if kind == "text":
                            good_v = cp is not None and cp["kind"] == "identity"
                        else:
                            good_v = cp is not None and cp["kind"] == "conv" and cp["fn"] == _PY_FN[kind]
                    facts.append(f"{var} = {show(got)}")
                    ok = ok and good_v
                _ob(ctx, "R4.4", f"match ({sid}): every variable is its own converter's to_python of its own captured text, defaults merged", ok,
                    "; ".join(facts) + f"; wanted {{{', '.join(f'{k}: {v[0]}(<text captured for {v[1]}>)' if v[0] != 'const' else f'{k}: {v[1]!r}' for k, v in sc['expect'].items())}}}", where, f"match {sid} values")
        except AnalysisError as exc:  # this scenario is not understood; others still count
            ctx.error(f"R4.4 match scenario {sid}: {exc}")
    ctx.floor("R4.4", "match scenarios", n, 9)


# -- R4.7 -----------------------------------------------------------------------------------------------------------


def rule_assembly(ctx: Ctx, repo, present: set[str], harvest) -> None:
    if not {"int", "default", "string"} <= present:
        return
    where = _fi_of(repo, "routing.map.MapAdapter.build")
    where_sel = _fi_of(repo, "routing.rules.Rule.suitable_for", "routing.map.MapAdapter._partial_build", "routing.map.MapAdapter.build")
    n = 0

    def run_case(cid: str, rules: list[tuple], bind: dict, endpoint: str, values: dict[str, t.Any], kw: dict, want: list[t.Any], map_kw: dict | None = None, w_: FuncInfo | str = where, conds: t.Callable[[Outcome], list[t.Any] | None] | None = None) -> None:
        nonlocal n
        n += 1
        try:

            def scen(e: Env4):
                m = e.make_map(rules, **(map_kw or {}))
                ad = _bind(e, m, bind)
                vals = {k: (V(k, v) if isinstance(v, type) else v) for k, v in values.items()}
                url = e.w.call(e.w.getattr(ad, "build"), [endpoint, vals], dict(kw))
                exp = []
                for p in want:
                    exp.extend(_expected(e, m, [p], vals) if not isinstance(p, str) else [p])
                return {"url": url, "want": exp}

            outs = paths(repo, scen)
            for o in outs:
                harvest(o)
            for o in outs:
                if o.kind == "raise":
                    _ob(ctx, "R4.7", f"build ({cid}) succeeds", False, f"build raised {_describe_exc(o.value)}", w_, f"assembly {cid} raises")
                    return
            for o in outs:
                exp = merge_expected(o.value["want"])
                if conds is not None:
                    alt = conds(o)
                    if alt is not None:
                        exp = merge_expected(alt)
                if not H.is_str_term(o.value["url"]):
                    raise AnalysisError(f"build ({cid}) returned a non-string {show(o.value['url'])}")
                require_understood(o.value["url"], f"build ({cid})")
                got = decoded(o.value["url"])
                _ob(ctx, "R4.7", f"build ({cid}): URL is root + path on the right host", same_pieces(got, exp), f"built {show(o.value['url'])}; wanted {show(exp)}" + (f" under {[(c[0], c[1]) for c in o.conds]}" if o.conds else ""), w_, f"assembly {cid}")
        except AnalysisError as exc:  # this scenario is not understood; others still count
            ctx.error(f"R4.7 assembly scenario {cid}: {exc}")

    R = [("rule", "/i/<int:n>", {"endpoint": "e"})]
    for script, root in (("/", ""), ("/app", "/app"), ("/app/", "/app")):
        run_case(f"script_name {script!r}", R, {"script_name": script}, "e", {"n": int}, {}, [root + "/i/", DYN("n", "int")])
        run_case(f"script_name {script!r}, force_external", R, {"script_name": script}, "e", {"n": int}, {"force_external": True}, ["http://example.com" + root + "/i/", DYN("n", "int")])
    # factories
    F = [("Submount", "/blog", [("rule", "/e/<slug>", {"endpoint": "b"})]), ("Subdomain", "sd", [("rule", "/x/<y>", {"endpoint": "s"})])]
    run_case("Submount", F, {"script_name": "/app"}, "b", {"slug": str}, {}, ["/app/blog/e/", DYN("slug")])
    run_case("Subdomain, same subdomain", F, {"script_name": "/", "subdomain": "sd"}, "s", {"y": str}, {}, ["/x/", DYN("y")])
    run_case("Subdomain, other subdomain", F, {"script_name": "/app", "subdomain": "www"}, "s", {"y": str}, {}, ["http://sd.example.com/app/x/", DYN("y")])
    N = [("Submount", "/sm", [("rule", "/<int(fixed_digits=2):n>/k", {"endpoint": "smd", "defaults": {"n": 5}}), ("Subdomain", "<string(length=2):lang>", [("rule", "/deep/<y>", {"endpoint": "deep"})])])]
    run_case("Submount keeps rule defaults", N, {"script_name": "/"}, "smd", {}, {}, ["/sm/", DFLT("int", (), {"fixed_digits": 2}, 5), "/k"])
    run_case("Subdomain inside Submount", N, {"script_name": "/app"}, "deep", {"y": str, "lang": str}, {}, ["http://", DYN("lang", "string", (), {"length": 2}), ".example.com/app/sm/deep/", DYN("y")])
    # rule selection: canonical before alias, more specific before less specific
    AL = [("rule", "/al/<x>", {"endpoint": "al", "alias": True}), ("rule", "/canon/<x>", {"endpoint": "al"})]
    run_case("alias rule is not the one that is built", AL, {"script_name": "/"}, "al", {"x": str}, {}, ["/canon/", DYN("x")], w_=where_sel)
    SP = [("rule", "/sp/<x>", {"endpoint": "sp"}), ("rule", "/sp/<x>/<int:y>", {"endpoint": "sp"})]
    run_case("rule that takes all the values is built", SP, {"script_name": "/"}, "sp", {"x": str, "y": int}, {"append_unknown": False}, ["/sp/", DYN("x"), "/", DYN("y", "int")], w_=where_sel)
    LG = [("rule", "/latest", {"endpoint": "arch", "defaults": {"year": 2024}}), ("rule", "/archive/<int:year>/<int(fixed_digits=2):month>", {"endpoint": "arch"})]
    run_case("all values given, one equals a shorter rule's default", LG, {"script_name": "/"}, "arch", {"year": 2024, "month": 5}, {}, ["/archive/2024/05"], w_=where_sel)
    run_case("only the shorter rule's default given", LG, {"script_name": "/"}, "arch", {"year": 2024}, {}, ["/latest"], w_=where_sel)
    # host matching
    HM = [("rule", "/h/<x>", {"endpoint": "h", "host": "<string(length=3):sub>.example.org"}), ("rule", "/g/<x>", {"endpoint": "g", "host": "example.org"})]
    run_case("host matching, other host", HM, {"server_name": "example.org", "script_name": "/"}, "h", {"x": str, "sub": str}, {}, ["http://", DYN("sub", "string", (), {"length": 3}), ".example.org/h/", DYN("x")], {"host_matching": True})
    run_case("host matching, same host", HM, {"server_name": "example.org", "script_name": "/app"}, "g", {"x": str}, {}, ["/app/g/", DYN("x")], {"host_matching": True})
    # defaults select the rule
    D = [("rule", "/d/", {"endpoint": "d", "defaults": {"page": 1}}), ("rule", "/d/<int:page>", {"endpoint": "d"})]
    run_case("defaults, value equals the default", D, {"script_name": "/"}, "d", {"page": 1}, {}, ["/d/"], w_=where_sel)
    run_case("defaults, other value", D, {"script_name": "/"}, "d", {"page": 2}, {}, ["/d/2"], w_=where_sel)
    run_case("defaults, no value", D, {"script_name": "/"}, "d", {}, {}, ["/d/"], w_=where_sel)

    def by_cond(o: Outcome) -> list[t.Any] | None:
        eq = [c for c in o.conds if c[2].op == "cmp" and c[2].args[0] == "=="]
        if len(eq) > 1:
            raise AnalysisError(f"defaults scenario: unexpected conditions {[(c[0], c[1]) for c in o.conds]}")
        return ["/d/"] if eq and eq[0][1] else None

    run_case("defaults, symbolic value", D, {"script_name": "/"}, "d", {"page": int}, {}, ["/d/", DYN("page", "int")], w_=where_sel, conds=by_cond)
    # the same selection when host matching is on and the adapter is bound to another host than the rules (fallback branch)
    def on_host(rules: list[tuple], host: str) -> list[tuple]:
        return [(k, r, {**kw, "host": host}) for k, r, kw in rules]

    other = {"server_name": "here.example", "script_name": "/"}
    hm = {"host_matching": True}
    run_case("other host: value equals the default", on_host(D, "there.example"), other, "d", {"page": 1}, {}, ["http://there.example/d/"], hm, w_=where_sel)
    run_case("other host: other value", on_host(D, "there.example"), other, "d", {"page": 2}, {}, ["http://there.example/d/2"], hm, w_=where_sel)
    run_case("other host: alias rule is not the one that is built", on_host(AL, "there.example"), other, "al", {"x": str}, {}, ["http://there.example/canon/", DYN("x")], hm, w_=where_sel)
    run_case("other host: rule that takes all the values is built", on_host(SP, "there.example"), other, "sp", {"x": str, "y": int}, {"append_unknown": False}, ["http://there.example/sp/", DYN("x"), "/", DYN("y", "int")], hm, w_=where_sel)
    run_case("other host: all values given, one equals a shorter rule's default", on_host(LG, "there.example"), other, "arch", {"year": 2024, "month": 5}, {}, ["http://there.example/archive/2024/05"], hm, w_=where_sel)
    # a rule factory is transparent for every option of the wrapped rule it does not itself set: the rule built from
    # inside Submount / Subdomain / EndpointPrefix has the host, subdomain, defaults and alias flag it was written with
    def wrapped(factory: str, rules: list[tuple]) -> tuple[list[tuple], str, str, dict]:
        """(rules inside the factory, path prefix, endpoint prefix, extra bind options)"""
        if factory == "Submount":
            return [("Submount", "/sm", rules)], "/sm", "", {}
        if factory == "Subdomain":
            return [("Subdomain", "sd", rules)], "", "", {"subdomain": "sd"}
        return [("EndpointPrefix", "p.", rules)], "", "p.", {}

    HV = [("rule", "/h/<x>", {"endpoint": "h", "host": "<string(length=3):sub>.example.org"})]
    HS = [("rule", "/g/<x>", {"endpoint": "g", "host": "example.org"})]
    SV = [("rule", "/sub/<x>", {"endpoint": "s", "subdomain": "<string(length=2):lang>"})]
    DF = [("rule", "/dd/<int(fixed_digits=3):n>/<s>", {"endpoint": "dd", "defaults": {"n": 7}})]
    on_org = {"server_name": "example.org", "script_name": "/app"}
    for fac in ("Submount", "Subdomain", "EndpointPrefix"):
        rules, pp, ep, _ = wrapped(fac, HV)
        run_case(f"host rule with a variable inside {fac} (host matching)", rules, on_org, ep + "h", {"x": str, "sub": str}, {}, ["http://", DYN("sub", "string", (), {"length": 3}), f".example.org/app{pp}/h/", DYN("x")], {"host_matching": True})
    for fac in ("Submount", "EndpointPrefix"):
        rules, pp, ep, _ = wrapped(fac, HS)
        run_case(f"static host rule inside {fac} (host matching, same host)", rules, on_org, ep + "g", {"x": str}, {}, [f"/app{pp}/g/", DYN("x")], {"host_matching": True})
        rules, pp, ep, _ = wrapped(fac, SV)
        run_case(f"subdomain rule with a variable inside {fac}", rules, {"script_name": "/"}, ep + "s", {"x": str, "lang": str}, {}, ["http://", DYN("lang", "string", (), {"length": 2}), f".example.com{pp}/sub/", DYN("x")])
    for fac in ("Subdomain", "EndpointPrefix"):
        rules, pp, ep, bind = wrapped(fac, DF)
        run_case(f"{fac} keeps rule defaults", rules, {"script_name": "/", **bind}, ep + "dd", {"s": str}, {}, [f"{pp}/dd/", DFLT("int", (), {"fixed_digits": 3}, 7), "/", DYN("s")])
    rules, pp, ep, _ = wrapped("Submount", AL)
    run_case("alias rule inside Submount is not the one that is built", rules, {"script_name": "/"}, "al", {"x": str}, {}, [f"{pp}/canon/", DYN("x")], w_=where_sel)
    ctx.floor("R4.7", "assembly scenarios", n, 36)


# -- R4.8 -----------------------------------------------------------------------------------------------------------

HISTORY_SCENARIOS: list[dict[str, t.Any]] = [
    {"id": "defaults and a variable", "needs": {"default"}, "rules": [("rule", "/en/<title>", {"endpoint": "pg", "defaults": {"lang": "en"}})],
     "match": ["/en/", ("seg", "t")], "endpoint": "pg",
     "build": {"lang": "en", "title": str}, "url": ["/en/", DYN("title")]},
    {"id": "defaults and a variable inside Submount", "needs": {"int"}, "rules": [("Submount", "/sm", [("rule", "/<int:n>/k", {"endpoint": "q", "defaults": {"z": 1}}), ("rule", "/<int:n>/k/<int:z>", {"endpoint": "q"})])],
     "match": ["/sm/", ("seg", "n"), "/k"], "endpoint": "q",
     "build": {"n": int, "z": 1}, "url": ["/sm/", DYN("n", "int"), "/k"]},
    {"id": "default for a rule variable", "needs": {"int", "default"}, "rules": [("rule", "/dd/<int:n>/<s>", {"endpoint": "dd", "defaults": {"n": 7}})],
     "match": ["/dd/", ("seg", "n"), "/", ("seg", "s")], "endpoint": "dd",
     "build": {"s": str}, "url": ["/dd/", DFLT("int", (), {}, 7), "/", DYN("s")]},
]


def _rule_options(repo, rule: Obj) -> list[str]:
    """the names under which a rule object keeps what it was constructed with: parameters of its class's __init__."""
    _, init = repo.lookup(rule.cls, "__init__")
    if not isinstance(init, FuncInfo):
        raise AnalysisError(f"{rule.cls.fq} has no __init__ in the package")
    return [p for p in init.params[1:] if p in rule.attrs]


def rule_history(ctx: Ctx, repo, present: set[str]) -> None:
    """a match is an observation: the rules are afterwards what they were, the mapping handed back is the caller's
    own, and what is built (and matched) afterwards does not depend on what was matched before."""
    where = _fi_of(repo, "routing.matcher.StateMachineMatcher.match", "routing.map.MapAdapter.match")
    where_b = _fi_of(repo, "routing.rules.Rule.suitable_for", "routing.map.MapAdapter._partial_build", "routing.map.MapAdapter.build")
    n = 0
    for sc in HISTORY_SCENARIOS:
        if not sc["needs"] <= present:
            continue
        n += 1
        sid = sc["id"]
        try:

            def scen(e: Env4, sc=sc):
                w = e.w
                m = e.make_map(sc["rules"])
                ad = _bind(e, m, {})
                w.best_effort_modules.clear()
                rules = [r for r in w.iterate(w.call(w.getattr(m, "iter_rules"), [], {})) if isinstance(r, Obj)]
                if not rules:
                    raise AnalysisError("Map.iter_rules() yields no rule objects")
                state = lambda: {f"rule {i} ({H._key(r.attrs.get('rule'))}).{a}": H._key(r.attrs[a]) for i, r in enumerate(rules) for a in _rule_options(repo, r)}  # noqa: E731
                before = state()
                path = concat(*[SEG(p[1]) if isinstance(p, tuple) else p for p in sc["match"]])
                rv = w.call(w.getattr(ad, "match"), [path], {})
                after = state()
                shared = []
                if isinstance(rv, tuple) and len(rv) == 2:
                    for i, r in enumerate(rules):
                        shared += [f"rule {i}.{a}" for a, v in r.attrs.items() if v is rv[1] and isinstance(v, (dict, list, set))]
                vals = {k: (V(k + "2", v) if isinstance(v, type) else v) for k, v in sc["build"].items()}
                try:
                    url: t.Any = w.call(w.getattr(ad, "build"), [sc["endpoint"], dict(vals)], {})
                except Raised as r_:
                    url = r_.exc
                try:
                    rv2: t.Any = w.call(w.getattr(ad, "match"), [concat(*[SEG(p[1] + "3") if isinstance(p, tuple) else p for p in sc["match"]])], {})
                except Raised as r_:
                    rv2 = r_.exc
                return {"rv": rv, "before": before, "after": after, "shared": shared, "url": url, "want": _expected(e, m, sc["url"], vals), "rv2": rv2, "state3": state()}

            outs = paths(repo, scen)
            good = [o for o in outs if o.kind == "return"]
            if not good:
                raise AnalysisError(f"the first match raises on every path: {sorted({_describe_exc(o.value).split('(')[0] for o in outs})}")
            for o in good:
                v = o.value
                rv = v["rv"]
                if not (isinstance(rv, tuple) and len(rv) == 2 and isinstance(rv[1], dict)):
                    raise AnalysisError(f"match ({sid}) returned {show(rv)}")
                under = f" under {[(c[0], c[1]) for c in o.conds]}" if o.conds else ""
                changed = sorted(k for k in v["before"] if v["before"][k] != v["after"].get(k))
                _ob(ctx, "R4.8", f"history ({sid}): a match leaves the options of every rule as they were", not changed,
                    (f"changed by the match: {[(k, v['before'][k], v['after'].get(k)) for k in changed]}" if changed else f"{len(v['before'])} rule options compared before / after the match") + under, where, f"history {sid} rule state")
                _ob(ctx, "R4.8", f"history ({sid}): the mapping a match returns is not an object the rule keeps", not v["shared"],
                    (f"the returned mapping is the same object as {v['shared']}: what the caller (or the next match) writes into it changes the rule" if v["shared"] else "the returned mapping is none of the rules' attribute values") + under, where, f"history {sid} result fresh")
                url = v["url"]
                if isinstance(url, ExcObj):
                    _ob(ctx, "R4.8", f"history ({sid}): a build after the match succeeds for other values", False, f"build raised {_describe_exc(url)} after a match of the same rule" + under, where_b, f"history {sid} build raises")
                else:
                    exp = merge_expected(v["want"])
                    if not H.is_str_term(url):
                        raise AnalysisError(f"history ({sid}): build returned a non-string {show(url)}")
                    require_understood(url, f"history ({sid}): build after the match")
                    got = decoded(url)
                    _ob(ctx, "R4.8", f"history ({sid}): a build after the match returns the URL of its own values", same_pieces(got, exp), f"built {show(url)}; wanted {show(exp)}" + under, where_b, f"history {sid} build after match")
                rv2 = v["rv2"]
                if isinstance(rv2, ExcObj):
                    ok2, fact2 = False, f"the second match raised {_describe_exc(rv2)}"
                else:
                    k1 = H._key(rv)
                    for p in sc["match"]:
                        if isinstance(p, tuple):
                            k1 = k1.replace(f"seg('{p[1]}')", f"seg('{p[1]}3')")
                    ok2, fact2 = H._key(rv2) == k1, f"second match {show(rv2)}; first match {show(rv)}"
                _ob(ctx, "R4.8", f"history ({sid}): a second match of the same path shape returns what the first did", ok2, fact2 + under, where, f"history {sid} second match")
        except AnalysisError as exc:  # this scenario is not understood; others still count
            ctx.error(f"R4.8 history scenario {sid}: {exc}")
    ctx.floor("R4.8", "history scenarios", n, 3)


# -- R4.1 -----------------------------------------------------------------------------------------------------------


def rule_quoting(ctx: Ctx, repo, sites: dict[tuple, dict[str, t.Any]]) -> None:
    n_static = n_dynamic = 0
    for key, d in sorted(sites.items(), key=lambda kv: kv[0]):
        fv = d["fv"]
        where: FuncInfo | str = fv.fi if fv is not None and fv.fi is not None else f"{key[0]}:{key[1]}"
        node = d["node"]
        label = f"{key[1]}"
        n_static += 1 if d["static"] else 0
        n_dynamic += 1 if d["dynamic"] else 0
        # quote(text) is by definition quote_from_bytes(text.encode(encoding, errors)): the bytes form is the same function,
        # its encoding is that of the encode() step that made the bytes
        from_bytes = d["fq"] == "urllib.parse.quote_from_bytes"
        ctx.ob("R4.1", f"quoting in {label}: path text is produced by urllib.parse.quote", d["fq"] == "urllib.parse.quote" or from_bytes, f"call resolves to {d['fq']} (quote_plus writes ' ' as '+', which a server does not decode in a path)", where, node, f"quote function in {label}")
        safes = set()
        encs = set()
        for args, kwargs in d["uses"]:
            safe = kwargs.get("safe", args[1] if len(args) > 1 else "/")
            if isinstance(safe, bytes):
                safe = safe.decode("ascii", "ignore")
            if not isinstance(safe, str):
                raise AnalysisError(f"quoting in {label}: the safe set is not a constant: {show(safe)}")
            safes.add(safe)
            if from_bytes:
                a0 = args[0] if args else kwargs.get("bs")
                if isinstance(a0, (bytes, bytearray)):
                    continue  # constant text: what it decodes to is compared piece by piece in R4.3
                if not (isinstance(a0, Sym) and a0.op == "method" and a0.args[1] == "encode" and H.deep_concrete(a0.args[2]) and H.deep_concrete(a0.args[3])):
                    raise AnalysisError(f"quoting in {label}: quote_from_bytes is given {show(a0)}, not the encode() of a text")
                ekw = dict(a0.args[3])
                enc = ekw.get("encoding", a0.args[2][0] if a0.args[2] else None)
                err = ekw.get("errors", a0.args[2][1] if len(a0.args[2]) > 1 else None)
            else:
                enc = kwargs.get("encoding", args[2] if len(args) > 2 else None)
                err = kwargs.get("errors", args[3] if len(args) > 3 else None)
            if isinstance(enc, Sym) or isinstance(err, Sym):
                raise AnalysisError(f"quoting in {label}: symbolic encoding")
            encs.add(((enc or "utf-8").lower().replace("_", "-"), (err or "strict")))
        for safe in sorted(safes):
            bad = sorted(set(safe) & set(RESERVED_IN_PATH))
            ctx.ob("R4.1", f"quoting in {label}: the safe set leaves none of '%', '?', '#', space unencoded", not bad, f"safe={safe!r}; reserved characters left raw: {bad}", where, node, f"safe set reserved in {label}")
            ctx.ob("R4.1", f"quoting in {label}: '/' stays literal", "/" in safe, f"safe={safe!r} (rule separators and path values must keep their slashes)", where, node, f"safe set slash in {label}")
        ctx.ob("R4.1", f"quoting in {label}: UTF-8, strict", encs <= {("utf-8", "strict"), ("utf8", "strict")}, f"encoding/errors used: {sorted(encs)}", where, node, f"quote encoding in {label}")
    ctx.floor("R4.1", "quoting sites reached by literal rule text", n_static, 1)
    ctx.floor("R4.1", "quoting sites reached by converter values", n_dynamic, 1)
