"""C10 - configured form limits are enforced and are pure guards (structural clauses)."""

from __future__ import annotations

import ast

from .. import astq
from ..cfg import CFG, Node, cfg_of
from ..loader import AnalysisError, FuncInfo, dotted, norm, walk_no_nested
from ..report import Ctx
from .c09 import input_stream_rule

LEVEL_TEXT = (
    "Static decision of structural clauses of C10 on /repo's current source: (R10.1) the only statement that grows the "
    "multipart decoder's buffer is reachable only past the false edge of `len(buffer)+len(data) > max_form_memory_size` "
    "(or with the limit None), whose true edge raises RequestEntityTooLarge; (R10.2) every path from the construction of "
    "a Field/File event to the function's exit passes the part counter's increment and the `> max_parts` test; (R10.3) "
    "the write of field data is reachable, within the Data branch, only past the accumulated-size test, the size is "
    "reset per Field and disabled per File; (R10.4) unbounded reads of the urlencoded body are dominated by a bound, and "
    "get_input_stream's declared-length / streamed-maximum table holds (shared with C09-R9.6); (R10.5) each of the three "
    "limits is forwarded, by keyword, through every constructor of the chain and stored in the attribute the guards "
    "read; request-level defaults are the documented ones; (R10.6) every use of a limit value or size counter is a "
    "guard comparison whose only effect is raising RequestEntityTooLarge, an is-not-None test, a forwarding edge, the "
    "counter's own update or the limit of a maximum-limited stream - non-interference, hence 'identical result when no "
    "guard fires'. It decides these clauses on all paths; memory held inside the stdlib is not modelled."
)
TRUSTED = ["CPython ast", "bytearray.extend(data) grows the buffer by len(data)"]
ASSUMPTIONS = ["SpooledTemporaryFile and parse_qsl internals are not followed", "limits are ints or None"]

LIMIT_ATTRS = {"max_form_memory_size", "max_form_parts", "max_parts", "max_content_length"}
COUNTERS = {"field_size", "_parts_decoded"}


def _is_limit(e: ast.AST, names: set[str]) -> bool:
    return (isinstance(e, ast.Attribute) and e.attr in names) or (isinstance(e, ast.Name) and e.id in names)


def _raises_retl_only(cfg: CFG, test: Node, label: str) -> bool:
    """the `label` successor of test is `raise RequestEntityTooLarge(...)` directly."""
    succ = cfg.succ(test, label)
    return bool(succ) and all(isinstance(s.ast, ast.Raise) and astq.raised_name(s.ast) == "RequestEntityTooLarge" for s in succ)


def _find_tests(cfg: CFG, pred) -> list[Node]:
    return [t for t in cfg.tests() if t.kind == "test" and pred(t.ast)]


def _cmp_limit(e: ast.AST, limit_names: set[str]):
    """Compare `bounded >(=) limit` or `limit <(=) bounded` -> bounded expr, else None."""
    cp = astq.cmp_parts(e)
    if not cp:
        return None
    a, op, b = cp
    if isinstance(op, (ast.Gt, ast.GtE)) and _is_limit(b, limit_names):
        return a
    if isinstance(op, (ast.Lt, ast.LtE)) and _is_limit(a, limit_names):
        return b
    return None


def _not_none_test(e: ast.AST, names: set[str]) -> bool:
    cp = astq.cmp_parts(e)
    return bool(cp and isinstance(cp[1], ast.IsNot) and astq.is_none(cp[2]) and _is_limit(cp[0], names))


def run(ctx: Ctx) -> None:
    repo = ctx.repo
    for rid, text in {
        "R10.1": "buffer growth in MultipartDecoder is reachable only past the false edge of the size test (or limit None); the test's true edge raises RequestEntityTooLarge; nothing else grows the buffer",
        "R10.2": "every path from constructing a Field/File event to the exit of next_event passes `_parts_decoded += 1` and the `> max_parts` test",
        "R10.3": "in MultiPartParser.parse the write of event.data is reachable in the Data branch only past the accumulated field-size test (or limit None / file part); field_size reset at Field, None at File",
        "R10.4": "urlencoded body: an unbounded stream.read() is dominated by a size bound; get_input_stream table (declared length, streamed maximum)",
        "R10.5": "each limit is forwarded by keyword through the whole constructor chain and stored in the attribute the guards read; Request defaults 500000 / 1000 / None",
        "R10.6": "every use of a limit value or size counter is a pure guard, a forwarding edge, the counter's update, or the limit of LimitedStream(is_max=True)",
    }.items():
        ctx.rule(rid, text)

    dec = repo.cls("sansio.multipart.MultipartDecoder")

    # ---------------- R10.1 -------------------------------------------
    growth = []
    for name, fi in dec.methods.items():
        for n in walk_no_nested(fi.node):
            if isinstance(n, ast.Call) and isinstance(n.func, ast.Attribute) and astq.is_self_attr(n.func.value, "buffer") and n.func.attr in ("extend", "append", "insert", "__iadd__"):
                growth.append((fi, n))
            if isinstance(n, ast.AugAssign) and astq.is_self_attr(n.target, "buffer"):
                growth.append((fi, n))
            if isinstance(n, ast.Assign) and any(astq.is_self_attr(t_, "buffer") for t_ in n.targets) and name != "__init__":
                growth.append((fi, n))
            if isinstance(n, ast.Assign) and any(isinstance(t_, ast.Subscript) and astq.is_self_attr(t_.value, "buffer") for t_ in n.targets):
                growth.append((fi, n))
    ctx.floor("R10.1", "buffer growth sites", len(growth), 1)
    for fi, g in growth:
        ctx.saw(fi)
        cfg = cfg_of(fi)
        gn = cfg.node_of(g)
        tests = _find_tests(cfg, lambda e: _cmp_limit(e, {"max_form_memory_size"}) is not None)
        nn = _find_tests(cfg, lambda e: _not_none_test(e, {"max_form_memory_size"}))
        ok = False
        fact = "no size comparison against max_form_memory_size in this function"
        if len(tests) == 1:
            t = tests[0]
            bounded = _cmp_limit(t.ast, {"max_form_memory_size"})
            bs = norm(bounded)
            shape = isinstance(bounded, ast.BinOp) and isinstance(bounded.op, ast.Add) and {norm(bounded.left), norm(bounded.right)} == {"len(self.buffer)", "len(data)"}
            avoid = [(t, "F")] + [(x, "F") for x in nn]
            bypass = gn.id in cfg.reach(avoid_edges=avoid)
            raises = _raises_retl_only(cfg, t, "T")
            arg_ok = isinstance(g, ast.Call) and g.func.attr == "extend" and len(g.args) == 1 and astq.is_name(g.args[0], "data")  # type: ignore[attr-defined]
            ok = shape and not bypass and raises and arg_ok
            fact = f"bounded quantity `{bs}` (len(buffer)+len(data): {shape}); growth reachable without passing the test: {bypass}; true edge raises RequestEntityTooLarge: {raises}; grows by exactly `data`: {arg_ok}"
            if bypass:
                p = cfg.path(cfg.entry, gn, avoid_edges=avoid)
                fact += " via " + cfg.fmt_path(p or [])
        ctx.ob("R10.1", f"{fi.qualname}: `{norm(g)}` is bounded", ok, fact, fi, g, f"growth {norm(g)}")
    # no writer of decoder.buffer outside the class
    outside = []
    for fi in repo.all_functions():
        if fi.cls is dec:
            continue
        for n in walk_no_nested(fi.node):
            if isinstance(n, ast.Call) and isinstance(n.func, ast.Attribute) and isinstance(n.func.value, ast.Attribute) and n.func.value.attr == "buffer" and n.func.attr in ("extend", "append") and fi.module.name in ("werkzeug.formparser", "werkzeug.sansio.multipart"):
                outside.append((fi, n))
    ctx.ob("R10.1", "no code outside the decoder grows its buffer", not outside, f"{[f.fq for f, _ in outside]}", dec.fq, None, "buffer writers outside")

    # ---------------- R10.2 -------------------------------------------
    ne = dec.methods.get("next_event")
    if ne is None:
        raise AnalysisError("MultipartDecoder.next_event missing")
    ctx.saw(ne)
    cfg = cfg_of(ne)
    cons = [c for c in astq.calls(ne.node) if dotted(c.func) in ("Field", "File")]
    ctx.floor("R10.2", "Field/File constructions", len(cons), 2)
    incs = [n for n in cfg.nodes if isinstance(n.ast, ast.AugAssign) and astq.is_self_attr(n.ast.target, "_parts_decoded") and isinstance(n.ast.op, ast.Add) and norm(n.ast.value) == "1"]
    ptests = _find_tests(cfg, lambda e: _cmp_limit(e, {"max_parts"}) is not None and norm(_cmp_limit(e, {"max_parts"})) == "self._parts_decoded")
    pnn = _find_tests(cfg, lambda e: _not_none_test(e, {"max_parts"}))
    for c in cons:
        cn = cfg.node_of(c)
        ok = False
        fact = f"increments: {len(incs)}, tests: {len(ptests)}"
        if len(incs) == 1 and len(ptests) == 1:
            passes_inc = cfg.all_paths_pass(cn, [cfg.exit], incs)
            # from the increment, the exit is unreachable without the comparison unless the limit is None
            r = cfg.reach(incs[0], avoid_nodes=ptests, avoid_edges=[(x, "F") for x in pnn])
            passes_test = cfg.exit.id not in r
            raises = _raises_retl_only(cfg, ptests[0], "T")
            strict = isinstance(astq.cmp_parts(ptests[0].ast)[1], (ast.Gt, ast.GtE, ast.Lt, ast.LtE))
            ok = passes_inc and passes_test and raises and strict
            fact = f"every path to the exit passes the increment: {passes_inc}; then the `{norm(ptests[0].ast)}` test: {passes_test}; its true edge raises: {raises}"
        ctx.ob("R10.2", f"`{norm(c.func)}(...)` event is counted and bounded", ok, fact, ne, c, f"part event {norm(c.func)}")
    pd_writes = [(n_, fi_) for n_, fi_ in _attr_writes(dec, "_parts_decoded")]
    ctx.ob("R10.2", "_parts_decoded written only as 0 in __init__ and += 1 in next_event", sorted((f.name, norm(n)) for n, f in pd_writes) == [("__init__", "self._parts_decoded = 0"), ("next_event", "self._parts_decoded += 1")], f"{[(f.name, norm(n)) for n, f in pd_writes]}", ne, ne.node, "_parts_decoded writers")

    # ---------------- R10.3 -------------------------------------------
    mp = repo.cls("formparser.MultiPartParser")
    pa = mp.methods.get("parse")
    if pa is None:
        raise AnalysisError("MultiPartParser.parse missing")
    ctx.saw(pa)
    cfg = cfg_of(pa)
    dtests = _find_tests(cfg, lambda e: isinstance(e, ast.Call) and dotted(e.func) == "isinstance" and len(e.args) == 2 and norm(e.args[0]) == "event" and norm(e.args[1]) == "Data")
    if len(dtests) != 1:
        raise AnalysisError("MultiPartParser.parse: `isinstance(event, Data)` branch not found (slot)")
    dt = dtests[0]
    writes = [c for c in astq.calls(pa.node) if any(any(norm(x) == "event.data" for x in ast.walk(a)) for a in c.args) and dotted(c.func) != "len" and not any(isinstance(a, ast.Call) and dotted(a.func) == "len" for a in c.args)]
    ctx.floor("R10.3", "writes of event.data", len(writes), 1)
    ftests = _find_tests(cfg, lambda e: _cmp_limit(e, {"max_form_memory_size"}) is not None and norm(_cmp_limit(e, {"max_form_memory_size"})) == "field_size")
    fnn = _find_tests(cfg, lambda e: _not_none_test(e, {"max_form_memory_size"}) or norm(e) == "field_size is not None")
    finc = [n for n in cfg.nodes if isinstance(n.ast, ast.AugAssign) and astq.is_name(n.ast.target, "field_size") and isinstance(n.ast.op, ast.Add) and norm(n.ast.value) == "len(event.data)"]
    for w in writes:
        wn = cfg.node_of(w)
        ok = False
        fact = f"size tests: {len(ftests)}, increments: {len(finc)}"
        if len(ftests) == 1 and len(finc) == 1:
            start = cfg.succ(dt, "T")
            r: set[int] = set()
            for s_ in start:
                r |= cfg.reach(s_, avoid_nodes=ftests + [dt], avoid_edges=[(x, "F") for x in fnn])
            bypass = wn.id in r
            inc_first = cfg.node_dominates(finc[0], ftests[0]) or all(finc[0].id in cfg.reach(s_, avoid_nodes=[dt]) and ftests[0].id not in cfg.reach(s_, avoid_nodes=[finc[0], dt]) for s_ in start)
            raises = _raises_retl_only(cfg, ftests[0], "T")
            ok = (not bypass) and inc_first and raises
            fact = f"write reachable in the Data branch without the size test (limit set, field part): {bypass}; size accumulated before the test: {inc_first}; true edge raises: {raises}"
        ctx.ob("R10.3", f"`{norm(w)}` is bounded by the accumulated field size", ok, fact, pa, w, f"field write {norm(w)}")
    # resets
    fdefs = astq.assigns_to(pa.node, "field_size")
    field_t = _find_tests(cfg, lambda e: isinstance(e, ast.Call) and dotted(e.func) == "isinstance" and norm(e.args[0]) == "event" and norm(e.args[1]) == "Field")
    file_t = _find_tests(cfg, lambda e: isinstance(e, ast.Call) and dotted(e.func) == "isinstance" and norm(e.args[0]) == "event" and norm(e.args[1]) == "File")
    z = [s for s, v in fdefs if v is not None and norm(v) == "0"]
    nn_ = [s for s, v in fdefs if v is not None and norm(v) == "None" and cfg.node_of(s) is not None and cfg.guards(cfg.node_of(s))]
    ok = len(field_t) == 1 and len(file_t) == 1 and len(z) == 1 and cfg.edge_dominates(field_t[0], "T", cfg.node_of(z[0])) and any(cfg.edge_dominates(file_t[0], "T", cfg.node_of(s)) for s in nn_)
    ctx.ob("R10.3", "field_size is reset to 0 at every Field and disabled (None) at every File", ok, f"assignments {[norm(s) for s, _ in fdefs]}", pa, pa.node, "field_size resets")
    other = [s for s, v in fdefs if not (v is not None and norm(v) in ("0", "None")) and not (isinstance(s, ast.AugAssign) and norm(s.value) == "len(event.data)")]
    ctx.ob("R10.3", "field_size changes only by reset or += len(event.data)", not other, f"other writes: {[norm(s) for s in other]}", pa, pa.node, "field_size writers")

    # ---------------- R10.4 -------------------------------------------
    fp = repo.cls("formparser.FormDataParser")
    pu = fp.methods.get("_parse_urlencoded")
    if pu is None:
        raise AnalysisError("FormDataParser._parse_urlencoded missing")
    ctx.saw(pu)
    cfg = cfg_of(pu)
    reads = [c for c in astq.method_calls(pu.node, "read") if not c.args and astq.is_name(c.func.value, "stream")]  # type: ignore[attr-defined]
    bounded_reads = [c for c in astq.method_calls(pu.node, "read") if c.args and astq.is_name(c.func.value, "stream")]  # type: ignore[attr-defined]
    ctx.floor("R10.4", "reads of the urlencoded body", len(reads) + len(bounded_reads), 1)
    utests = _find_tests(cfg, lambda e: _cmp_limit(e, {"max_form_memory_size"}) is not None)
    unn = _find_tests(cfg, lambda e: _not_none_test(e, {"max_form_memory_size"}))
    for rcall in reads:
        rn = cfg.node_of(rcall)
        if len(utests) != 1:
            ctx.ob("R10.4", "unbounded read of the urlencoded body is preceded by a size bound", False, "no comparison against max_form_memory_size", pu, rcall, "urlencoded read bound")
            continue
        t = utests[0]
        # (a) with a declared length: read unreachable past the comparison's true edge, comparison raises
        raises = _raises_retl_only(cfg, t, "T")
        bounded = norm(_cmp_limit(t.ast, {"max_form_memory_size"}))
        ctx.ob("R10.4", "declared urlencoded length above max_form_memory_size is refused before reading", raises and bounded == "content_length" and cfg.node_of(rcall).id not in cfg.reach(cfg.succ(t, "T")), f"test `{norm(t.ast)}`, true edge raises: {raises}", pu, t.ast, "urlencoded declared length")
        # (b) the read is reachable without ANY bound only when the limit is None
        byp = rn.id in cfg.reach(avoid_nodes=[t], avoid_edges=[(x, "F") for x in unn])
        fact = "every path to stream.read() with a limit configured passes the size comparison" if not byp else "stream.read() is reachable with a limit configured and no bound applied: " + cfg.fmt_path(cfg.path(cfg.entry, rn, avoid_nodes=[t], avoid_edges=[(x, "F") for x in unn]) or [])
        ctx.ob("R10.4", "unbounded stream.read() of the urlencoded body is dominated by a bound whenever a limit is configured", not byp, fact, pu, rcall, "urlencoded unbounded read when content_length is None")
    input_stream_rule(ctx, "R10.4")

    # ---------------- R10.5 -------------------------------------------
    chain = [
        ("wrappers.request.Request.make_form_data_parser", "form_data_parser_class", {"max_form_memory_size": "self.max_form_memory_size", "max_content_length": "self.max_content_length", "max_form_parts": "self.max_form_parts"}),
        ("formparser.parse_form_data", "FormDataParser", {"max_form_memory_size": "max_form_memory_size", "max_content_length": "max_content_length", "max_form_parts": "max_form_parts"}),
        ("formparser.FormDataParser.parse_from_environ", "get_input_stream", {"max_content_length": "self.max_content_length"}),
        ("formparser.FormDataParser._parse_multipart", "MultiPartParser", {"max_form_memory_size": "self.max_form_memory_size", "max_form_parts": "self.max_form_parts"}),
        ("formparser.MultiPartParser.parse", "MultipartDecoder", {"max_form_memory_size": "self.max_form_memory_size", "max_parts": "self.max_form_parts"}),
        ("wrappers.request.Request.stream", "get_input_stream", {"max_content_length": "self.max_content_length"}),
    ]
    nfw = 0
    for fq, callee, kws in chain:
        fi = repo.func(fq)
        ctx.saw(fi)
        calls = astq.name_calls(fi.node, callee)
        if len(calls) != 1:
            ctx.ob("R10.5", f"{fq} calls {callee}", False, f"{len(calls)} call(s) found", fi, fi.node, f"{fq} -> {callee}")
            continue
        for k, v in kws.items():
            nfw += 1
            got = astq.kwarg(calls[0], k)
            ctx.ob("R10.5", f"{fi.qualname} forwards {k} to {callee}", got is not None and norm(got) == v, f"{k}={norm(got) if got is not None else None} (expected {v})", fi, calls[0], f"{fq} -> {callee}({k})")
    stores = [
        ("formparser.FormDataParser.__init__", ["max_form_memory_size", "max_content_length", "max_form_parts"]),
        ("formparser.MultiPartParser.__init__", ["max_form_memory_size", "max_form_parts"]),
        ("sansio.multipart.MultipartDecoder.__init__", ["max_form_memory_size", "max_parts"]),
    ]
    for fq, names in stores:
        fi = repo.func(fq)
        ctx.saw(fi)
        for nm in names:
            nfw += 1
            got = [norm(s.value) for s in walk_no_nested(fi.node) if isinstance(s, ast.Assign) and astq.is_self_attr(s.targets[0], nm)]
            ctx.ob("R10.5", f"{fi.qualname} stores {nm}", got == [nm] and nm in fi.params, f"self.{nm} = {got}", fi, fi.node, f"{fq} stores {nm}")
    ctx.floor("R10.5", "forwarding edges", nfw, 18)
    req = repo.cls("wrappers.request.Request")
    defaults = {k: norm(req.attrs[k]) if k in req.attrs else None for k in ("max_content_length", "max_form_memory_size", "max_form_parts")}
    ctx.ob("R10.5", "Request defaults are None / 500000 / 1000", defaults == {"max_content_length": "None", "max_form_memory_size": "500000", "max_form_parts": "1000"}, f"{defaults}", req.fq, None, "request defaults")

    # ---------------- R10.6 -------------------------------------------
    scope = [dec.methods[m] for m in dec.methods] + [fp.methods[m] for m in fp.methods] + [mp.methods[m] for m in mp.methods] + [repo.func("formparser.parse_form_data"), repo.func("wsgi.get_input_stream"), repo.func("wrappers.request.Request.make_form_data_parser"), repo.func("wrappers.request.Request.stream")]
    nuse = 0
    for fi in scope:
        cfg = cfg_of(fi)
        for n in walk_no_nested(fi.node):
            is_use = False
            if isinstance(n, ast.Attribute) and n.attr in (LIMIT_ATTRS | COUNTERS) and isinstance(n.ctx, ast.Load):
                is_use = True
            elif isinstance(n, ast.Name) and n.id in (LIMIT_ATTRS | COUNTERS) and isinstance(n.ctx, ast.Load):
                is_use = True
            if not is_use:
                continue
            nuse += 1
            kind = _classify_use(cfg, n)
            ctx.ob("R10.6", f"{fi.qualname}: use of `{norm(n)}` is {kind or 'NOT a pure guard'}", kind is not None, f"in `{norm(astq.stmt_of(fi, n))[:90]}`", fi, n, f"{fi.qualname} use {norm(n)} in {norm(astq.stmt_of(fi, n))[:60]}")
    ctx.floor("R10.6", "uses of limits / counters", nuse, 25)


def _attr_writes(cls, attr: str):
    out = []
    for name, fi in cls.methods.items():
        for n in walk_no_nested(fi.node):
            if isinstance(n, (ast.Assign, ast.AugAssign, ast.AnnAssign)):
                tg = n.targets if isinstance(n, ast.Assign) else [n.target]
                if any(astq.is_self_attr(t_, attr) for t_ in tg):
                    out.append((n, fi))
    return out


def _classify_use(cfg: CFG, n: ast.AST) -> str | None:
    p = astq.parent(n)
    # forwarding: keyword argument value, or `self.X = X`
    if isinstance(p, ast.keyword) and p.arg in LIMIT_ATTRS:
        return "a forwarding edge"
    if isinstance(p, ast.Assign) and p.value is n and len(p.targets) == 1 and isinstance(p.targets[0], ast.Attribute) and p.targets[0].attr in LIMIT_ATTRS:
        return "a forwarding edge"
    # LimitedStream(stream, max_content_length, is_max=True)
    if isinstance(p, ast.Call) and (dotted(p.func) or "").endswith("LimitedStream") and astq.kwarg(p, "is_max") is not None and norm(astq.kwarg(p, "is_max")) == "True" and len(p.args) > 1 and p.args[1] is n:
        return "the limit of a maximum-limited stream"
    # comparison atoms
    cur = n
    while astq.parent(cur) is not None and not isinstance(astq.parent(cur), (ast.stmt, ast.BoolOp)) and not (isinstance(astq.parent(cur), ast.UnaryOp) and isinstance(astq.parent(cur).op, ast.Not)):  # type: ignore[union-attr]
        cur = astq.parent(cur)  # type: ignore[assignment]
    if isinstance(cur, ast.Compare):
        tn = [t for t in cfg.tests() if t.ast is cur]
        if tn:
            cp = astq.cmp_parts(cur)
            if cp and isinstance(cp[1], (ast.Is, ast.IsNot)) and astq.is_none(cp[2]):
                return "an is-None test"
            if cp and isinstance(cp[1], (ast.Gt, ast.GtE, ast.Lt, ast.LtE)):
                label = "T"
                if _raises_retl_only(cfg, tn[0], label):
                    return "a guard comparison whose true edge only raises RequestEntityTooLarge"
                return None
    # counter update `field_size += len(...)`, `self._parts_decoded += 1` (target is Store, so only RHS uses land here)
    st = cur if isinstance(cur, ast.stmt) else None
    return None
